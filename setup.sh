#!/bin/bash
# Build the Lean library from files on disk only (offline).  Generated tables are produced first
# from /repo's working tree so that every module compiles; the checks regenerate them on each run.
set -e
cd "$(dirname "$0")"
export PYTHONDONTWRITEBYTECODE=1
for t in harness/c*.py; do
  if grep -q '^def translate_only' "$t"; then /venv/bin/python "$t" --translate-only || true; fi
done
cd lean
lake build 2>&1 | tail -5

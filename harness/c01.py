"""
C01 — path expressions select exactly the XDM-defined nodes, once, in document order.

 prove     : EPV.Props.C01 (axis_eq_spec x13, path_eq_spec(_partial), path_ordered, path_nodup, ...)
 correspond: generated trees x path expressions x every context item x {ElementTree, lxml}
             x {document, Element (dummy document), fragment} root forms; real elementpath
             (token.select on an XPathContext; plus select()/iter_select()/Selector and the
             2.0/3.0/3.1 parsers) vs Lean model vs Lean spec.  Nodes travel as pre-order indices
             of an array that this harness computes from its own tree description (not from
             elementpath's node tree).
 validate  : the same (tree, expression, context) go to lxml's xpath() (libxml2) and are compared
             with the Lean *spec* — model validation of the spec, proves nothing.
 search    : exhaustive small trees x systematic short expressions (on a break)
"""
from __future__ import annotations

import json
import sys
import xml.etree.ElementTree as ET
from pathlib import Path

sys.path.insert(0, str(Path(__file__).resolve().parent.parent))
from harness.common import (Run, Disagreement, cli, DriverError)  # noqa: E402

import lxml.etree as LX  # noqa: E402

PROP = 'C01'
NS = {'p': 'urn:p'}
# lxml trees with namespace declarations at depth: extra prefix q, default namespace (prefix d in
# expressions), prefix p rebound to a second URI (code R: reachable by wildcards only)
NS_EXT = {'p': 'urn:p', 'q': 'urn:q', 'd': 'urn:d'}
URI2CODE = {'': '', 'urn:p': 'P', 'urn:q': 'Q', 'urn:d': 'D', 'urn:p2': 'R'}
CODE2URI = {v: k for k, v in URI2CODE.items()}
CODE2PFX = {'': '', 'P': 'p:', 'Q': 'q:', 'D': 'd:'}
XML_NS = 'http://www.w3.org/XML/1998/namespace'
ALL_NS_URIS = set(URI2CODE) | {XML_NS}

AXES = ['self', 'child', 'descendant', 'descendant-or-self', 'parent', 'ancestor', 'ancestor-or-self',
        'following-sibling', 'preceding-sibling', 'following', 'preceding', 'attribute', 'namespace']


# ===================================================================== abstract trees
# element  ['E', ucode, local, [[ucode, local, value], ...], [child, ...]]
# text     ['T', value]      comment ['C', value]      PI ['P', target, value]
# case     {'tree': element, 'pre': [C/P...], 'post': [C/P...], 'expr': ast, 'lib': 'et'|'lxml', 'mode': ...}

def qn(ucode: str, local: str) -> str:
    u = CODE2URI[ucode]
    return f'{{{u}}}{local}' if u else local


class Built:
    """A concrete ElementTree/lxml tree for a case + the pre-order array + index maps."""

    def __init__(self, tree, pre, post, lib: str, mode: str, ns=None):
        self.lib, self.mode = lib, mode
        self.ns = dict(ns or NS)          # `namespaces=` argument (parser prefixes; ElementTree namespace nodes)
        self.nsuri: dict = {}             # (element index, prefix) -> URI of that namespace node
        self.keep = []            # keeps lxml proxies alive (identity!)
        self.recs: list[list] = []   # [kind, ucode, name, parent, size]
        self.keyidx: dict = {}
        self.objidx: dict[int, int] = {}
        self.idxobj: dict[int, object] = {}
        self.xtoks: list[str] = []      # nested description for the driver's `Root.flatten`
        if mode != 'doc':
            # an lxml root element with document-level siblings is always built as a document by
            # elementpath (tree_builders.py:216): siblings only in the document form
            pre, post = [], []
        mk = self._mk_et if lib == 'et' else self._mk_lx
        self.root_obj = mk(tree, None)
        if lib == 'lxml':
            for n in pre:
                o = self._leaf_lx(n)
                self.root_obj.addprevious(o)
                self.keep.append(o)
            for n in reversed(post):
                o = self._leaf_lx(n)
                self.root_obj.addnext(o)
                self.keep.append(o)
            self.pre_objs = list(self.root_obj.itersiblings(preceding=True))[::-1]
            self.post_objs = list(self.root_obj.itersiblings())
            self.keep += self.pre_objs + self.post_objs
        else:
            self.pre_objs, self.post_objs = [], []
        # ---- the array (independent of elementpath's node tree)
        if mode == 'doc':
            self._rec('D', '', '', None, ('D',))
            self.xtoks += ['doc', str(len(self.pre_objs) + 1 + len(self.post_objs))]
            for o, n in zip(self.pre_objs, pre):
                self._leaf_rec(n, o, 0)
            self._flatten(tree, self.root_obj, 0)
            for o, n in zip(self.post_objs, post):
                self._leaf_rec(n, o, 0)
            self.recs[0][4] = len(self.recs) - 1
        elif mode == 'dummy':
            self._rec('D', '', '', None, ('D',))
            self.xtoks.append('dummy')
            self._flatten(tree, self.root_obj, None)
        else:
            self.xtoks.append('frag')
            self._flatten(tree, self.root_obj, None)

    # -- construction of the library trees
    def _mk_et(self, n, parent):
        e = ET.Element(qn(n[1], n[2]))
        for u, l, v in n[3]:
            e.set(qn(u, l), v)
        last = None
        for c in n[4]:
            if c[0] == 'T':
                if last is None:
                    e.text = c[1]
                else:
                    last.tail = c[1]
            else:
                if c[0] == 'E':
                    last = self._mk_et(c, e)
                elif c[0] == 'C':
                    last = ET.Comment(c[1])
                else:
                    last = ET.ProcessingInstruction(c[1], c[2])
                e.append(last)
        self.keep.append(e)
        return e

    def _leaf_lx(self, c):
        return LX.Comment(c[1]) if c[0] == 'C' else LX.ProcessingInstruction(c[1], c[2])

    def _mk_lx(self, n, parent):
        decl = {(k or None): CODE2URI[v] for k, v in (n[5] if len(n) > 5 else {}).items()}
        if parent is None:
            rootmap = dict(NS)
            rootmap.update(decl)
            e = LX.Element(qn(n[1], n[2]), nsmap=rootmap)
        elif decl:
            e = LX.SubElement(parent, qn(n[1], n[2]), nsmap=decl)
        else:
            e = LX.SubElement(parent, qn(n[1], n[2]))
        self.keep.append(e)
        for u, l, v in n[3]:
            e.set(qn(u, l), v)
        last = None
        for c in n[4]:
            if c[0] == 'T':
                if last is None:
                    e.text = c[1]
                else:
                    last.tail = c[1]
            elif c[0] == 'E':
                last = self._mk_lx(c, e)
            else:
                last = self._leaf_lx(c)
                e.append(last)
                self.keep.append(last)
        return e

    # -- the array
    def _rec(self, kind, u, name, parent, key):
        i = len(self.recs)
        self.recs.append([kind, u, name, parent, 0])
        self.keyidx[key] = i
        return i

    def _leaf_rec(self, n, obj, parent):
        self.xtoks += ['L', n[0], n[1] if n[0] == 'P' else '']
        if n[0] == 'T':
            return self._rec('T', '', '', parent, ('T', n[1]))
        i = self._rec(n[0], '', n[1] if n[0] == 'P' else '', parent, ('E', id(obj)))
        self.objidx[id(obj)] = i
        self.idxobj[i] = obj
        return i

    def _flatten(self, n, obj, parent):
        i = self._rec('E', n[1], n[2], parent, ('E', id(obj)))
        self.objidx[id(obj)] = i
        self.idxobj[i] = obj
        # namespace nodes: 'xml' first, then the in-scope prefixes (lxml: element's nsmap;
        # ElementTree: the `namespaces` argument of the context)
        if self.lib == 'lxml':
            nsmap = obj.nsmap
            pfx = [k for k in nsmap if k != 'xml']          # None = default namespace
        else:
            nsmap = self.ns
            pfx = [k for k in self.ns if k != 'xml']
        self.nsuri[(i, 'xml')] = XML_NS
        for k in pfx:
            self.nsuri[(i, k)] = nsmap[k]
        self.xtoks += ['E', n[1], n[2], str(1 + len(pfx)), 'xml'] + [k or '' for k in pfx] + [str(len(n[3]))]
        for u, l, v in n[3]:
            self.xtoks += [u, l]
        self.xtoks.append(str(len(n[4])))
        for p in ['xml'] + pfx:
            self._rec('N', '', p or '', i, ('N', i, p))
        for u, l, v in n[3]:
            self._rec('A', u, l, i, ('A', i, qn(u, l)))
        kids = list(obj)
        k = 0
        for c in n[4]:
            if c[0] == 'T':
                self._leaf_rec(c, None, i)
            elif c[0] == 'E':
                self._flatten(c, kids[k], i)
                k += 1
            else:
                self._leaf_rec(c, kids[k], i)
                k += 1
        self.recs[i][4] = len(self.recs) - 1 - i
        return i

    def tree_field(self) -> str:
        return ';'.join(f'{k},{u},{nm},{"-" if p is None else p},{s}' for k, u, nm, p, s in self.recs)

    # -- elementpath side
    def ep_root(self):
        if self.mode == 'doc':
            return (ET.ElementTree(self.root_obj) if self.lib == 'et' else self.root_obj.getroottree()), None
        return self.root_obj, (True if self.mode == 'frag' else None)

    def key_of(self, n, xn) -> tuple:
        if isinstance(n, xn.DocumentNode):
            return ('D',)
        if isinstance(n, xn.AttributeNode):
            return ('A', self.objidx.get(id(n.parent.value), -1), n.name)
        if isinstance(n, xn.NamespaceNode):
            return ('N', self.objidx.get(id(n.parent.value), -1), n.prefix)
        if isinstance(n, xn.TextNode):
            return ('T', n.value)
        return ('E', id(n.value))


# ===================================================================== expressions
def polish(e) -> list[str]:
    k = e[0]
    if k == 's':
        return ['sa' if (len(e) > 3 and e[3]) else 's', e[1], e[2]]
    if k in ('c', 'u', 'r0', 'pos', 'last'):
        return [k]
    if k == 'n':
        return ['n', str(e[1])]
    if k == 'lit':
        return ['lit', str(e[1]), str(e[2])]
    if k == 'cmp':
        return ['cmp', e[1]] + polish(e[2]) + polish(e[3])
    if k in ('p', 'sl', 'ds', 'and', 'or', 'un'):
        return [k] + polish(e[1]) + polish(e[2])
    if k in ('r', 'dr', 'g', 'not', 'count'):
        return [k] + polish(e[1])
    raise ValueError(e)


def render_test(t: str) -> str:
    parts = t.split(':')
    if parts[0] in ('node', 'text', 'comment'):
        return parts[0] + '()'
    if parts[0] == 'pi':
        return 'processing-instruction()' if len(parts) == 1 else f"processing-instruction('{parts[1]}')"
    if parts[0] == 'any':
        return '*'
    if parts[0] == 'q':
        return CODE2PFX[parts[1]] + parts[2]
    if parts[0] == 'ns':
        return CODE2PFX[parts[1]] + '*'
    raise ValueError(t)


CMPS = {'eq': '=', 'ne': '!=', 'lt': '<', 'le': '<=', 'gt': '>', 'ge': '>='}


def render(e) -> str:
    k = e[0]
    if k == 's':
        abbr = len(e) > 3 and e[3]
        if abbr and e[1] == 'child':
            return render_test(e[2])
        if abbr and e[1] == 'attribute':
            return '@' + render_test(e[2])
        return f'{e[1]}::{render_test(e[2])}'
    if k == 'c':
        return '.'
    if k == 'u':
        return '..'
    if k == 'p':
        return f'{render(e[1])}[{render(e[2])}]'
    if k == 'sl':
        return f'{render(e[1])}/{render(e[2])}'
    if k == 'ds':
        return f'{render(e[1])}//{render(e[2])}'
    if k == 'r0':
        return '/'
    if k == 'r':
        return '/' + render(e[1])
    if k == 'dr':
        return '//' + render(e[1])
    if k == 'g':
        return f'({render(e[1])})'
    if k == 'n':
        return ('0' * (e[2] if len(e) > 2 else 0)) + str(e[1])      # e[2] = number of leading zeros ('00')
    if k == 'lit':
        return ('-' if e[1] else '') + (str(e[2] // 10) if e[2] % 10 == 0 and e[1] and len(e) > 3 and e[3] == 'int'
                                        else f'{e[2] // 10}.{e[2] % 10}')
    if k == 'pos':
        return 'position()'
    if k == 'last':
        return 'last()'
    if k == 'cmp':
        return f'{render(e[2])} {CMPS[e[1]]} {render(e[3])}'
    if k in ('and', 'or'):
        return f'{render(e[1])} {k} {render(e[2])}'
    if k == 'not':
        return f'not({render(e[1])})'
    if k == 'un':
        return f'{render(e[1])} | {render(e[2])}'
    if k == 'count':
        return f'count({render(e[1])})'
    raise ValueError(e)


def axes_of(e, acc=None) -> set:
    acc = set() if acc is None else acc
    if e[0] == 's':
        acc.add(e[1])
    for x in e[1:]:
        if isinstance(x, list):
            axes_of(x, acc)
    return acc


def count_kind(e, kinds) -> int:
    return (1 if e[0] in kinds else 0) + sum(count_kind(x, kinds) for x in e[1:] if isinstance(x, list))


# ===================================================================== generators
NAMES = ['x', 'x', 'x', 'y', 'y', 'a']


def gen_tree(rng, max_depth=6, max_elems=10):
    count = [0]
    uniq = [0]

    def u(prefix):
        uniq[0] += 1
        return f'{prefix}{uniq[0]}'

    def leaf():
        r = rng.random()
        if r < 0.6:
            return ['T', u('t')]
        if r < 0.8:
            return ['C', u('c')]
        return ['P', rng.choice(['pi', 'pj']), u('d')]

    def elem(depth):
        count[0] += 1
        ucode = 'P' if rng.random() < 0.12 else ''
        attrs = []
        names = rng.sample([('', 'k'), ('', 'j'), ('P', 'k'), ('', 'x')], rng.choice([0, 0, 1, 1, 2, 3]))
        for au, al in names:
            attrs.append([au, al, u('v')])
        kids = []
        nk = 0 if depth >= max_depth else rng.choice([0, 1, 1, 2, 2, 3])
        if rng.random() < 0.15 and depth < max_depth:
            nk = 1  # chains: deep nesting of same names
        for _ in range(nk):
            if count[0] >= max_elems:
                break
            if rng.random() < 0.3 and (not kids or kids[-1][0] != 'T'):
                kids.append(leaf() if rng.random() < 0.5 else ['T', u('t')])
            kids.append(elem(depth + 1))
        if rng.random() < 0.35:
            lf = leaf()
            if not (lf[0] == 'T' and kids and kids[-1][0] == 'T'):
                kids.append(lf)
        return ['E', ucode, rng.choice(NAMES), attrs, kids]

    tree = elem(1)
    pre = [['C', u('c')] if rng.random() < 0.5 else ['P', 'pi', u('d')] for _ in range(rng.choice([0, 0, 1, 2]))]
    post = [['C', u('c')] if rng.random() < 0.5 else ['P', 'pj', u('d')] for _ in range(rng.choice([0, 0, 1, 2]))]
    return tree, pre, post


def gen_tree_deep(rng, max_depth=5, max_elems=8):
    """lxml trees with namespace declarations at depth (seeded change m2): inner elements declaring
    prefixes their own tag does not use, a default namespace, prefix p rebound; element and attribute
    names only use bindings that are in scope (so that lxml invents no ns0 prefixes)"""
    count = [0]
    uniq = [0]

    def u(prefix):
        uniq[0] += 1
        return f'{prefix}{uniq[0]}'

    def elem(depth, scope):
        count[0] += 1
        decl = {}
        if depth == 1:
            if rng.random() < 0.5:
                decl[''] = 'D'
        r = rng.random()
        if r < 0.3:
            decl['q'] = 'Q'
        elif r < 0.4:
            decl['p'] = 'R'
        elif r < 0.5 and depth > 1:
            decl[''] = 'D'
        elif r < 0.56:
            decl['q'] = 'Q'
            decl['p'] = 'R'
        scope = dict(scope)
        scope.update(decl)
        codes = sorted(set(scope.values()))
        # tag: bias to prefixes / default namespace already known above (the cache-hit path of m2)
        ucode = rng.choice(codes + [scope.get('', '')] * 2 + [''] * 1) if rng.random() < 0.75 else ''
        if ucode == '' and '' in scope:
            ucode = scope['']          # unprefixed tag inside a default-namespace scope
        acodes = [v for k, v in scope.items() if k] + ['']
        attrs = []
        for al in rng.sample(['k', 'j', 'x'], rng.choice([0, 1, 1, 2])):
            attrs.append([rng.choice(acodes + ['']), al, u('v')])
        seen, attrs2 = set(), []
        for a in attrs:
            if (a[0], a[1]) not in seen:
                seen.add((a[0], a[1]))
                attrs2.append(a)
        kids = []
        nk = 0 if depth >= max_depth else rng.choice([0, 1, 2, 2, 3])
        for _ in range(nk):
            if count[0] >= max_elems:
                break
            if rng.random() < 0.3 and (not kids or kids[-1][0] != 'T'):
                kids.append(['T', u('t')])
            kids.append(elem(depth + 1, scope))
        if rng.random() < 0.4 and not (kids and kids[-1][0] == 'T'):
            kids.append(['T', u('t')] if rng.random() < 0.7 else ['C', u('c')])
        return ['E', ucode, rng.choice(NAMES), attrs2, kids, decl]

    tree = elem(1, {'p': 'P'})
    pre = [['C', u('c')]] if rng.random() < 0.3 else []
    post = [['P', 'pj', u('d')]] if rng.random() < 0.3 else []
    return tree, pre, post


def gen_mix(rng):
    """results mixing attribute / namespace nodes with child nodes of the same elements"""
    head = rng.choice([['dr', ['s', 'child', 'any', True]], ['dr', ['s', 'child', 'node', True]],
                       ['dr', ['s', 'attribute', 'any', True]], ['dr', ['s', 'child', rng.choice([f'q:{rng.choice(_TEST_CODES)}:x', f'q:{rng.choice(_TEST_CODES)}:a', 'q::x',
                                                            f'ns:{rng.choice(_TEST_CODES)}']), True]]])
    parts = [['sl', head, ['s', 'attribute', 'any', True]], ['sl', head, ['s', 'child', 'node', True]],
             ['sl', head, ['s', 'namespace', 'any', False]], ['dr', ['s', 'child', 'text', True]],
             ['dr', ['s', 'attribute', 'any', True]], ['dr', ['s', 'child', 'node', True]],
             ['sl', ['dr', ['s', 'attribute', 'any', True]], ['s', 'ancestor-or-self', 'node', False]],
             ['sl', ['dr', ['s', 'namespace', 'any', False]], ['s', 'ancestor-or-self', 'node', False]],
             ['sl', head, ['s', 'descendant-or-self', 'node', False]]]
    r = rng.random()
    if r < 0.25:
        return rng.choice(parts[6:8])
    e = ['un', rng.choice(parts), rng.choice(parts)]
    if r < 0.5:
        e = ['un', e, rng.choice(parts)]
    if r > 0.85:
        e = ['p', ['g', e], rng.choice([['n', 2], ['last'], ['cmp', 'gt', ['pos'], ['n', 2]]])]
    return e


_TEST_CODES = ['P']     # namespace codes usable by generated name tests (extended for deep-namespace cases)


def gen_test(rng, axis) -> str:
    t = _gen_test(rng, axis)
    if 'P' in t.split(':')[1:2] and len(_TEST_CODES) > 1:
        code = rng.choice(_TEST_CODES)
        parts = t.split(':')
        parts[1] = code
        t = ':'.join(parts)
    return t


def _gen_test(rng, axis) -> str:
    if axis == 'attribute':
        return rng.choice(['any', 'any', 'q::k', 'q::j', 'q:P:k', 'node', 'ns:P', 'q::x'])
    if axis == 'namespace':
        return rng.choice(['any', 'q::p', 'q::xml', 'node', 'any', 'text', 'comment', 'q:P:x'])
    return rng.choice(['any'] * 10 + ['q::x'] * 5 + ['q::y'] * 3 + ['q::a', 'text', 'text', 'comment', 'pi', 'pi:pi',
                       'q:P:x', 'ns:P', 'q::k'] + ['node'] * 7)


AX_WEIGHTED = (['child'] * 6 + ['descendant'] * 3 + ['descendant-or-self'] * 2 + ['self'] * 2 + ['parent'] * 3 +
               ['ancestor'] * 3 + ['ancestor-or-self'] * 2 + ['following-sibling'] * 3 + ['preceding-sibling'] * 3 +
               ['following'] * 3 + ['preceding'] * 3 + ['attribute'] * 3 + ['namespace'] * 1)


def gen_num(rng, depth=0):
    r = rng.random()
    if r < 0.15 and depth >= 0:
        return ['count', gen_path(rng, rng.choice([1, 1, 2]), max(depth - 1, 0), inner=True)]
    return ['n', rng.choice([1, 1, 2, 3])] if r < 0.6 else (['last'] if r < 0.8 else ['pos'])


def gen_union(rng, depth, inner=False):
    e = ['un', gen_path(rng, rng.choice([1, 2]), depth, inner=inner), gen_path(rng, rng.choice([1, 2]), depth, inner=inner)]
    if rng.random() < 0.25:
        e = ['un', e, gen_path(rng, 1, depth, inner=inner)]
    return e


def gen_simple_rel(rng):
    """short relative paths that are often non-empty: operands of boolean combinations"""
    r = rng.random()
    if r < 0.45:
        return ['s', 'child', rng.choice(['any', 'q::x', 'q::y', 'q::a', 'node', 'text']), True]
    if r < 0.6:
        return ['s', 'attribute', rng.choice(['any', 'q::k', 'q::j']), True]
    if r < 0.68:
        return ['u']
    if r < 0.78:
        return ['ds', ['c'], ['s', 'child', rng.choice(['any', 'q::x', 'q::y']), True]]
    if r < 0.88:
        return ['s', rng.choice(['following-sibling', 'preceding-sibling', 'parent', 'ancestor', 'descendant', 'following']),
                rng.choice(['any', 'q::x', 'q::y', 'node']), False]
    if r < 0.94:
        return ['sl', ['s', 'child', 'any', True], ['s', 'child', rng.choice(['any', 'q::x', 'q::y']), True]]
    return ['p', ['s', 'child', rng.choice(['any', 'q::x']), True], gen_simple_rel(rng)]


def gen_bool_operand(rng, depth):
    r = rng.random()
    if r < 0.4:
        return gen_simple_rel(rng)
    if r < 0.65:
        return ['not', gen_simple_rel(rng)]
    if r < 0.8:
        return ['cmp', rng.choice(['gt', 'eq', 'ge', 'lt']), ['count', gen_simple_rel(rng)], ['n', rng.choice([0, 0, 1, 2])]]
    if r < 0.87:
        return ['cmp', rng.choice(list(CMPS)), ['pos'], rng.choice([['n', 1], ['n', 2], ['last']])]
    if r < 0.93 and depth > 0:
        return ['g', gen_bool(rng, depth - 1)]
    if r < 0.97:
        return ['not', ['g', gen_bool(rng, depth - 1)]] if depth > 0 else ['not', gen_simple_rel(rng)]
    return ['g', ['un', gen_simple_rel(rng), gen_simple_rel(rng)]]


def gen_bool(rng, depth):
    """`and` / `or` whose operands are relative paths, not(path), count(path) comparisons, nested
    predicates - on both sides, in both orders (operand contexts: seeded change m1)"""
    return [rng.choice(['and', 'or', 'or']), gen_bool_operand(rng, depth), gen_bool_operand(rng, depth)]


def gen_boundary_literal(rng):
    """boundary values of a positional predicate: 0, 00, n, n+1 (small trees: 4, 5), very large, negative,
    non-integral and integral decimals"""
    r = rng.random()
    if r < 0.3:
        return ['n', 0, rng.choice([0, 0, 1])]
    if r < 0.45:
        return ['n', rng.choice([4, 5, 6, 9]), 0]
    if r < 0.55:
        return ['n', rng.choice([10 ** 20, 2 ** 63, 2 ** 64 + 1]), 0]
    if r < 0.68:
        return ['lit', 1, rng.choice([10, 20]), 'int']            # -1, -2
    if r < 0.84:
        return ['lit', 0, rng.choice([10, 20, 20, 30])]             # 1.0 2.0 3.0
    if r < 0.92:
        return ['lit', 0, rng.choice([0, 15, 5, 25])]               # 0.0 1.5 0.5 2.5
    return ['lit', 1, rng.choice([0, 15, 10])]                      # -0.0 -1.5 -1.0


def gen_pred(rng, depth):
    r = rng.random()
    if r < 0.16:
        return gen_bool(rng, 1)
    if r < 0.28:
        return gen_boundary_literal(rng)
    r = rng.random()
    if r < 0.3:
        return ['n', rng.choice([1, 1, 2, 2, 3])]
    if r < 0.4:
        return ['last']
    if r < 0.43:
        return ['count', gen_path(rng, 1, max(depth - 1, 0), inner=True)]
    if r < 0.55:
        lhs = rng.choice([['pos'], ['pos'], ['last'], ['count', gen_path(rng, 1, max(depth - 1, 0), inner=True)]])
        return ['cmp', rng.choice(list(CMPS)), lhs, gen_num(rng, depth - 1)]
    if r < 0.6 and depth > 0:
        return gen_union(rng, depth - 1, inner=True)
    if r < 0.8 or depth <= 0:
        return gen_path(rng, rng.choice([1, 1, 1, 2]), depth - 1, inner=True)
    if r < 0.9:
        return ['not', gen_pred(rng, depth - 1)]

    def operand():
        p = gen_pred(rng, depth - 1)
        if p[0] in ('n', 'last', 'pos'):
            p = ['cmp', 'eq', ['pos'], p]
        if p[0] == 'lit':
            p = ['n', 1]
        return ['g', p] if p[0] in ('and', 'or') else p
    return [rng.choice(['and', 'or']), operand(), operand()]


def gen_step(rng, depth, npred_max=2):
    axis = rng.choice(AX_WEIGHTED)
    test = gen_test(rng, axis)
    abbr = axis in ('child', 'attribute') and rng.random() < 0.6 and not (axis == 'attribute' and test == 'node')
    e = ['s', axis, test, abbr]
    npred = 0 if depth <= 0 else rng.choice([0, 0, 0, 1] if depth == 1 else [0, 0, 0, 0, 1, 1, 1, 2, 2, 3, 4])
    for _ in range(npred):
        e = ['p', e, gen_pred(rng, depth - 1)]
    return e


def gen_stacked_step(rng):
    """a step with 2..4 stacked predicates, positional ones at every level, mostly-true filters in between so
    that several nodes survive - on reverse and forward axes (round-4 seeded change: the walk through ALL
    stacked `[` tokens down to the step)"""
    axis = rng.choice(['ancestor', 'ancestor-or-self', 'preceding', 'preceding-sibling'] * 3 +
                      ['child', 'descendant', 'following', 'following-sibling', 'descendant-or-self'])
    test = rng.choice(['any', 'any', 'node', 'node', 'q::x'])
    e = ['s', axis, test, axis == 'child' and rng.random() < 0.5]
    keep_all = [['c'], ['s', 'self', 'node', False], ['cmp', 'gt', ['pos'], ['n', 0]], ['cmp', 'ge', ['last'], ['n', 1]],
                ['not', ['s', 'child', 'q::zz', True]], ['cmp', 'eq', ['count', ['c']], ['n', 1]]]
    positional = [['n', 1], ['n', 1], ['n', 2], ['last'], ['cmp', 'lt', ['pos'], ['n', 3]], ['cmp', 'gt', ['pos'], ['n', 1]],
                  ['cmp', 'ne', ['pos'], ['last']], ['n', 3], ['lit', 0, 20]]
    k = rng.choice([2, 3, 3, 3, 4, 4])
    for j in range(k):
        last = j == k - 1
        r = rng.random()
        if last or r < 0.35:
            e = ['p', e, rng.choice(positional)]
        elif r < 0.85:
            e = ['p', e, rng.choice(keep_all)]
        else:
            e = ['p', e, gen_simple_rel(rng)]
    return e


def gen_stepish(rng, depth):
    r = rng.random()
    if r < 0.08 and depth >= 1:
        return gen_stacked_step(rng)
    r = rng.random()
    if r < 0.06:
        return ['c']
    if r < 0.14:
        return ['u']
    return gen_step(rng, depth)


def gen_path(rng, nsteps, depth=2, inner=False):
    r = rng.random()
    if inner and r < 0.45:
        r = 0.9     # predicates: mostly relative paths
    if r < 0.25:
        e = ['dr', gen_stepish(rng, depth)]
    elif r < 0.4:
        e = ['r', gen_stepish(rng, depth)]
    elif r < 0.5 and depth > 0 and not inner:
        e = ['g', gen_path(rng, rng.choice([1, 2]), depth - 1)]
        for _ in range(rng.choice([1, 1, 2])):
            e = ['p', e, gen_pred(rng, depth - 1)]
    elif r < 0.52 and nsteps == 1 and not inner:
        return ['r0']
    elif r < 0.6 and nsteps >= 2 and depth > 0 and not inner:
        # FilterExpr '/' RelativeLocationPath: (e)/step, (a | b)//step
        e = ['g', gen_union(rng, depth - 1) if rng.random() < 0.5 else gen_path(rng, rng.choice([1, 2]), depth - 1)]
    else:
        e = gen_stepish(rng, depth)
    for _ in range(nsteps - 1):
        e = [rng.choice(['sl', 'sl', 'sl', 'ds']), e, gen_stepish(rng, depth)]
    return e


# ===================================================================== evaluation of the real code
def err_code(e: Exception) -> str:
    from elementpath.exceptions import ElementPathError
    if isinstance(e, ElementPathError):
        code = getattr(e, 'code', None) or ''
        return 'ERR:' + (code.split(':')[-1] if code else type(e).__name__)
    return f'ERR:OTHER:{type(e).__name__}'


_PARSERS = {}
TOK_CACHE: dict = {}


def parsers():
    if not _PARSERS:
        from elementpath import XPath1Parser, XPath2Parser
        from elementpath.xpath30 import XPath30Parser
        from elementpath.xpath31 import XPath31Parser
        _PARSERS.update({'1.0': XPath1Parser, '2.0': XPath2Parser, '3.0': XPath30Parser, '3.1': XPath31Parser})
    return _PARSERS


def nstr(idx) -> str:
    return 'N' + ','.join(str(i) for i in idx)


class ImplTree:
    """elementpath node tree for a Built + per-index context nodes"""

    def __init__(self, b: Built):
        import elementpath.xpath_nodes as xn
        from elementpath import XPathContext
        from elementpath.tree_builders import get_node_tree
        self.b, self.xn, self.XPathContext = b, xn, XPathContext
        raw, frag = b.ep_root()
        self.raw, self.frag = raw, frag
        self.node_tree = get_node_tree(raw, namespaces=dict(b.ns), fragment=frag)
        self.ctxnode: dict[int, object] = {}
        for n in self.node_tree.iter():
            i = b.keyidx.get(b.key_of(n, xn))
            if i is not None and not (b.mode == 'dummy' and i == 0):
                self.ctxnode[i] = n

    def indices(self, nodes) -> str:
        out = []
        for n in nodes:
            if not isinstance(n, self.xn.XPathNode):
                return f'ATOMIC:{n!r}'[:60]
            i = self.b.keyidx.get(self.b.key_of(n, self.xn))
            if i is None:
                return f'UNKNOWN-NODE:{n!r}'[:60]
            out.append(i)
        return nstr(out)

    def select_tok(self, tok, i: int, init=None) -> str:
        """token-level evaluation; `self.left` = the caller's context afterwards (item, axis, position, size)
        and whether its variables are untouched.  init = (position, size, axis) arguments of the context."""
        self.left = None
        try:
            kw = {}
            if init:
                kw = dict(position=init[0], size=init[1])
                if init[2]:
                    kw['axis'] = init[2]
            ctx = self.XPathContext(self.node_tree, namespaces=dict(self.b.ns), fragment=self.frag, item=self.ctxnode[i], **kw)
            variables = dict(ctx.variables)
            res = self.indices(list(tok.select(ctx)))
            j = self.b.keyidx.get(self.b.key_of(ctx.item, self.xn), -1) if isinstance(ctx.item, self.xn.XPathNode) else -2
            self.left = f'{j},{ctx.axis or "-"},{ctx.position},{ctx.size}' + ('' if ctx.variables == variables else ',VARS-CHANGED')
            return res
        except Exception as e:
            return err_code(e)

    def label(self, i: int, version: str):
        """what the public select() returns for node i"""
        k, u, nm, p, s = self.b.recs[i]
        if k in ('E', 'C', 'P'):
            return ('obj', id(self.b.idxobj[i]))
        if k == 'D':
            return ('doc',)
        if k == 'T':
            return ('str', next(key[1] for key, j in self.b.keyidx.items() if j == i))
        if k == 'A':
            obj = self.b.idxobj[p]
            return ('str', obj.get(qn(u, nm)))
        if k == 'N':
            pfx = next(key[2] for key, j in self.b.keyidx.items() if j == i)
            uri = self.b.nsuri[(p, pfx)]
            return ('ns', pfx, uri) if version == '1.0' else ('nsuri', uri)
        return ('?',)

    def public_labels(self, res, version):
        if not isinstance(res, list):
            res = [res]
        out = []
        for r in res:
            if isinstance(r, str):
                out.append(('str', str(r)))
            elif isinstance(r, tuple):
                out.append(('ns', r[0], r[1]))
            elif hasattr(r, 'getroot'):
                out.append(('doc',))
            elif hasattr(r, 'tag'):
                out.append(('obj', id(r)))
            else:
                out.append(('other', repr(r)[:30]))
        if version != '1.0':
            out = [('nsuri', x[1]) if x[0] == 'str' and x[1] in ALL_NS_URIS else x
                   for x in out]
        return out


def parse_idx(s: str):
    if not s.startswith('N'):
        return None
    return [int(x) for x in s[1:].split(',') if x]


# ===================================================================== lxml oracle (spec validation)
def lxml_result(b: Built, path: str, i: int):
    """indices selected by libxml2 for context node i (element / comment / PI), or None"""
    obj = b.idxobj.get(i)
    if obj is None:
        return None
    try:
        res = obj.xpath(path, namespaces=b.ns)
    except Exception as e:
        return f'LXERR:{type(e).__name__}'
    if not isinstance(res, list):
        return f'LXVAL:{res!r}'
    out = []
    for r in res:
        if isinstance(r, str):
            par = r.getparent()
            if getattr(r, 'is_attribute', False):
                key = ('A', b.objidx.get(id(par), -1), r.attrname)
            else:
                key = ('T', str(r))
        elif isinstance(r, tuple):
            return 'LXNS'
        else:
            key = ('E', id(r))
        j = b.keyidx.get(key)
        if j is None:
            return f'LXUNKNOWN:{key}'
        out.append(j)
    return nstr(out)


# ===================================================================== one batch of cases
def drive(run: Run, lines: list[str], workers: int = 4) -> list[str]:
    """the Lean driver is an interpreter run: split a batch over a few processes"""
    if len(lines) < 40:
        return run.driver('C01', lines)
    from concurrent.futures import ThreadPoolExecutor
    n = (len(lines) + workers - 1) // workers
    chunks = [lines[i:i + n] for i in range(0, len(lines), n)]
    with ThreadPoolExecutor(max_workers=workers) as ex:
        parts = list(ex.map(lambda ch: run.driver('C01', ch), chunks))
    return [a for part in parts for a in part]


def is_absolute(e) -> bool:
    while e[0] in ('sl', 'ds', 'p', 'g'):
        e = e[1]
    return e[0] in ('r', 'dr', 'r0')


def choose_ctx(b: 'Built', c: dict) -> list[int]:
    """context items of a case: all nodes for one-step expressions and small trees, otherwise the
    document/element nodes plus a sample of the other kinds; absolute paths: the root + one other"""
    if c.get('ctx'):
        return list(c['ctx'])
    import random
    allidx = [i for i in range(len(b.recs)) if not (b.mode == 'dummy' and i == 0)]
    rng = random.Random(c.get('ctxseed', 0))
    rootctx = 1 if b.mode == 'dummy' else 0
    if is_absolute(c['expr']):
        return sorted({rootctx, rng.choice(allidx)})
    if c.get('ctxseed') == -1 or count_kind(c['expr'], ('s', 'c', 'u')) <= 1 or (len(allidx) <= 14 and c.get('ctxseed', 0) % 3 == 0):
        return allidx
    elems = [i for i in allidx if b.recs[i][0] in 'ED']
    others = [i for i in allidx if b.recs[i][0] not in 'ED']
    return sorted(set(rng.sample(elems, min(len(elems), 8)) + rng.sample(others, min(len(others), 3)) + [rootctx]))


def case_json(c):
    return {'tree': c['tree'], 'pre': c['pre'], 'post': c['post'], 'expr': c['expr'], 'lib': c['lib'],
            'mode': c['mode'], 'ns': c.get('ns'), 'init': c.get('init'), 'xpath': render(c['expr'])}


def compare(run: Run, cases: list[dict], full: bool = True, lxml_check: bool = True) -> None:
    """cases: dicts with tree/pre/post/expr/lib/mode (+ optional 'ctx': list of indices or None=all)"""
    st = run.stats
    builts = []
    lines = []
    for c in cases:
        b = Built(c['tree'], c['pre'], c['post'], c['lib'], c['mode'], c.get('ns'))
        builts.append(b)
        c['ctx'] = choose_ctx(b, c)
        init = c.get('init')
        extra = (f" F={init[0]},{init[1]}" + (f" AX={init[2]}" if init[2] else '')) if init else ''
        lines.append(f"M={c['mode']} T={b.tree_field()} X={'~'.join(b.xtoks)} E={'~'.join(polish(c['expr']))} "
                     f"C={','.join(str(i) for i in c['ctx'])}" + extra)
    answers = drive(run, lines)
    P = parsers()
    for c, b, line, ans in zip(cases, builts, lines, answers):
        cj = case_json(c)
        if not ans.startswith('wf='):
            run.disagree(Disagreement(cj, 'driver:' + ans, what='protocol'))
            continue
        head, _, rfield = ans.partition(' R=')
        flds = dict(x.split('=') for x in head.split(' '))
        if flds['wf'] != '1' or flds['fl'] != '1' or flds['ty'] != 'path':
            # harness fault: generated tree not well-formed for the Lean encoding / ill-typed expression
            run.disagree(Disagreement(cj, 'harness:' + head, what='wf-or-typing-of-generated-input'))
            continue
        per, perfin = {}, {}
        for item in rfield.split('|'):
            i, mv, sv, k, fin, same, ev10, ev30 = item.split(':')
            per[int(i)] = (mv, sv, int(k))
            perfin[int(i)] = (fin, same, ev10, ev30)
        path = cj['xpath']
        st.count(f'lib:{c["lib"]}')
        st.count(f'mode:{c["mode"]}')
        for ax in axes_of(c['expr']):
            st.count('axis:' + ax)
        st.count(f'steps={count_kind(c["expr"], ("s", "c", "u"))}')
        st.count(f'preds={count_kind(c["expr"], ("p",))}')
        try:
            it = ImplTree(b)
            # compiled token trees are shared between all cases of the process with the same path and
            # bindings: the SAME token is evaluated on different documents, root forms and context items
            tkey = (path, tuple(sorted(b.ns.items())))
            if tkey not in TOK_CACHE:
                if len(TOK_CACHE) > 4000:
                    TOK_CACHE.clear()
                TOK_CACHE[tkey] = {v: cls(namespaces=dict(b.ns)).parse(path) for v, cls in P.items()}
            else:
                st.count('token-reused-on-another-case')
            toks = TOK_CACHE[tkey]
        except Exception as e:
            run.disagree(Disagreement(cj, err_code(e), model=per[min(per)][0], spec=per[min(per)][1],
                                      what='parse-or-tree-build', site='parser'))
            continue
        # assumption of the model made a checked fact: node positions (the sort key of '/', '//', '|')
        # increase strictly along document order = array index order
        pos = sorted((i, n.position) for i, n in it.ctxnode.items())
        bad = [(i, p1, j, p2) for (i, p1), (j, p2) in zip(pos, pos[1:]) if not p1 < p2]
        st.count('positions-checked')
        if bad:
            run.disagree(Disagreement(dict(cj, first_inversions=bad[:4]), 'positions:' + str([p for _, p in pos])[:200], None,
                                      'strictly increasing in document order', what='node-positions-vs-document-order',
                                      site='tree_builders.py / xpath_nodes.py positions'))
            continue
        trees = {v: t.tree for v, t in toks.items()}
        st.count('token-tree-compared')
        if any(trees[v] != trees['1.0'] for v in trees):
            run.disagree(Disagreement(cj, str({v: trees[v] for v in trees if trees[v] != trees['1.0']})[:300], None,
                                      trees['1.0'][:300], what='token-tree-2.0+-vs-1.0', site='parsers'))
        ctxs = [i for i in c['ctx'] if i in it.ctxnode]
        if len(ctxs) != len(c['ctx']):
            run.disagree(Disagreement(cj, 'harness:context-nodes-missing', what='node-identity-map'))
            continue
        extra_ctx = set(ctxs[:1] + ctxs[len(ctxs) // 2:len(ctxs) // 2 + 1]) if (full and not c.get('init')) else set()
        use_lxml = (lxml_check and not c.get('init') and c['lib'] == 'lxml' and c['mode'] == 'doc' and 'namespace' not in axes_of(c['expr'])
                    # libxml2's preceding axis stops at the first child of the document node
                    # (xmlXPathNextPrecedingInternal), wrong for nodes after the root element
                    and not ('preceding' in axes_of(c['expr']) and b.post_objs)
                    # libxml2's following axis of an attribute skips the children of the owner element
                    and not ({'following', 'attribute'} <= axes_of(c['expr'])))
        for i in ctxs:
            mv, sv, k = per[i]
            init = c.get('init')
            impl = it.select_tok(toks['1.0'], i, init)
            tags = []
            cji = dict(cj, ctx=i, init=init)
            if perfin[i][1] != '1' and not (init and init[2]):
                run.disagree(Disagreement(cji, 'driver: evalS value differs from eval', what='protocol-evalS'))
            # the caller's context after the evaluation: item, axis, position, size (and variables)
            if it.left is not None and not k:
                st.count('context-after-checked')
                if it.left != perfin[i][0]:
                    # specified (theorem eval_leaves_context): unchanged, unless the expression ends in a
                    # namespace step on the caller's own context
                    ns_tail = False     # (the namespace axis gives the focus back since fix ca057dd)
                    entry = f'{i},{(init[2] if init and init[2] else "-")},{init[0] if init else 1},{init[1] if init else 1}'
                    run.disagree(Disagreement(cji, it.left, perfin[i][0], None if (ns_tail or (init and init[2])) else entry,
                                              what='caller-context-after-evaluation',
                                              site='save/restore of the dynamic context (select_with_focus, iterators, leading /)'))
            if init and init[2]:
                # non-None initial axis= argument: API-specific, no W3C specification: model vs implementation
                st.count('initial-axis-checked')
                if impl != mv:
                    run.disagree(Disagreement(cji, impl, mv, None, what='select-nodes-initial-axis', site='context.axis on entry'))
                continue
            ids = parse_idx(sv) or []
            st.case([c['lib'], c['mode'], path, b.tree_field(), i], nontrivial=len(ids) > 0)
            st.count('results=' + ('0' if not ids else '1' if len(ids) == 1 else '2-4' if len(ids) < 5 else '5+'))
            if k:
                st.count('inK')
            if impl != sv or impl != mv:
                if impl != sv:
                    st.count('impl!=spec')
                run.disagree(Disagreement(cji, impl, mv, sv, what='select-nodes', site='xpath_context axes / path operators',
                                          tags=tags))
                continue
            # ---- other parsers, public API (on a sample of contexts)
            if i in extra_ctx:
                for v in ('2.0', '3.0', '3.1'):
                    r = it.select_tok(toks[v], i)
                    st.count('parser-agree-checked')
                    if r != impl:
                        run.disagree(Disagreement(dict(cji, parser=v), r, mv, sv, what=f'parser-{v}-vs-1.0',
                                                  site='XPath2+ parser', tags=tags))
                # the other evaluation path: token.evaluate(context)
                for v in ('1.0', '3.1'):
                    try:
                        ctx = it.XPathContext(it.node_tree, namespaces=dict(b.ns), fragment=it.frag, item=it.ctxnode[i])
                        ev = toks[v].evaluate(ctx)
                        r = it.indices(ev if isinstance(ev, list) else [ev])
                        # the shape evaluate() returns: a list or a single node (model: EPV.XP.evaluate)
                        shape = ('L' if isinstance(ev, list) else 'I') + r[1:]
                        want_shape = perfin[i][2 if v == '1.0' else 3]
                        if r.startswith('N') and shape != want_shape:
                            run.disagree(Disagreement(dict(cji, parser=v, api='token.evaluate'), shape, want_shape, None,
                                                      what='evaluate-return-shape', site='XPathToken.evaluate / evaluate__parenthesized_expr'))
                    except Exception as e:
                        r = err_code(e)
                    st.count('evaluate-path-checked')
                    if r != impl:
                        run.disagree(Disagreement(dict(cji, parser=v, api='token.evaluate'), r, mv, sv, what='evaluate-vs-select',
                                                  site='XPathToken.evaluate', tags=tags))
                kind = b.recs[i][0]
                if kind in ('E', 'D') or (b.mode == 'dummy' and i == 1):
                    self_check_public(run, it, b, cji, path, i, impl, tags)
            # ---- libxml2 validates the SPEC (not the implementation)
            if use_lxml and k == 0 and not (b.recs[i][0] in 'CP' and b.recs[i][3] == 0):
                # (libxml2 is erratic on the preceding axis of document-level siblings of the root element)
                lr = lxml_result(b, path, i)
                if lr is not None:
                    want = nstr([j for j in ids if j != 0])
                    st.count('lxml-validated')
                    if lr != want:
                        st.count('lxml!=spec')
                        run.disagree(Disagreement(dict(cji, oracle='lxml'), lr, None, want, what='spec-vs-libxml2',
                                                  site='EPV/Spec/XPath1Paths.lean (model validation)'))


def self_check_public(run, it: ImplTree, b: Built, cji, path, i, impl, tags):
    """select() == list(iter_select()) == Selector(path).select(root) == the token-level result"""
    import elementpath
    P = parsers()
    ids = parse_idx(impl)
    if ids is None:
        return
    is_root_ctx = (i == (1 if b.mode == 'dummy' else 0))
    item = None if is_root_ctx else b.idxobj.get(i)
    if not is_root_ctx and item is None:
        return
    for v in ('1.0', '3.1'):
        want = [it.label(j, v) for j in ids if not (b.mode == 'dummy' and j == 0)]
        kw = dict(namespaces=dict(b.ns), parser=P[v], fragment=it.frag)
        if item is not None:
            kw['item'] = item
        try:
            r1 = it.public_labels(elementpath.select(it.raw, path, **kw), v)
            r2 = it.public_labels(list(elementpath.iter_select(it.raw, path, **kw)), v)
            kw2 = dict(fragment=it.frag, namespaces=dict(b.ns))
            if item is not None:
                kw2['item'] = item
            r3 = it.public_labels(elementpath.Selector(path, namespaces=dict(b.ns), parser=P[v]).select(it.raw, **kw2), v)
        except Exception as e:
            r1 = r2 = r3 = err_code(e)
        run.stats.count('public-api-checked')
        for nm, r in (('select', r1), ('iter_select', r2), ('Selector.select', r3)):
            if r != want:
                run.disagree(Disagreement(dict(cji, api=nm, parser=v), str(r)[:300], None, str(want)[:300],
                                          what=f'public-{nm}-vs-token-select', site='xpath_selectors.py', tags=tags))
                return


# ===================================================================== generator state discipline
STATE_AXES = AXES + ['dslash']


def real_generator(it: 'ImplTree', ctx, axis):
    if axis == 'self':
        return ctx.iter_self()
    if axis == 'child':
        return ctx.iter_children_or_self()
    if axis in ('descendant', 'descendant-or-self'):
        return ctx.iter_descendants(axis=axis)
    if axis == 'dslash':
        return ctx.iter_descendants()
    if axis == 'parent':
        return ctx.iter_parent()
    if axis in ('ancestor', 'ancestor-or-self'):
        return ctx.iter_ancestors(axis=axis)
    if axis in ('following-sibling', 'preceding-sibling'):
        return ctx.iter_siblings(axis=axis)
    if axis == 'following':
        return ctx.iter_followings()
    if axis == 'preceding':
        return ctx.iter_preceding()
    if axis == 'attribute':
        return ctx.iter_attributes()
    if axis == 'namespace':
        return it.ns_token.select(ctx)
    raise ValueError(axis)


def state_correspond(run: Run, cases: list[dict]) -> None:
    """context.item / context.axis at every yield of the real iterators, after exhaustion and after an
    early close, against the statement-level model of EPV/Model/AxesState.lean"""
    st = run.stats
    builts = [Built(c['tree'], c['pre'], c['post'], c['lib'], c['mode'], c.get('ns')) for c in cases]
    lines = [f"M={c['mode']} T={b.tree_field()} OP=state C=*" for c, b in zip(cases, builts)]
    answers = drive(run, lines)
    P = parsers()
    for c, b, ans in zip(cases, builts, answers):
        cj = {'tree': c['tree'], 'pre': c['pre'], 'post': c['post'], 'lib': c['lib'], 'mode': c['mode'], 'ns': c.get('ns')}
        if not ans.startswith('wf=1 S='):
            run.disagree(Disagreement(cj, 'driver:' + ans[:80], what='protocol-state'))
            continue
        model = {}
        for item in ans[len('wf=1 S='):].split('|'):
            i, ax, tr = item.split(':')
            model[(int(i), ax)] = tr
        it = ImplTree(b)
        it.ns_token = P['1.0'](namespaces=dict(b.ns)).parse('namespace::*')

        def idx(n):
            return b.keyidx.get(b.key_of(n, it.xn), -1)
        for i in sorted(it.ctxnode):
            for ax in STATE_AXES:
                try:
                    ctx = it.XPathContext(it.node_tree, namespaces=dict(b.ns), fragment=it.frag, item=it.ctxnode[i])
                    ys = []
                    for v in real_generator(it, ctx, ax):
                        ys.append(f'{idx(v)},{idx(ctx.item)},{ctx.axis or "-"}')
                    real = ';'.join(ys) + f'/{idx(ctx.item)},{ctx.axis or "-"}'
                    # early close after the first yield: state stays as at that yield
                    if ys:
                        ctx2 = it.XPathContext(it.node_tree, namespaces=dict(b.ns), fragment=it.frag, item=it.ctxnode[i])
                        g = real_generator(it, ctx2, ax)
                        next(g)
                        g.close()
                        closed = f'{idx(ctx2.item)},{ctx2.axis or "-"}'
                        # since fix 8377c57 every iterator restores in a `finally:` clause: closing the generator
                        # early leaves the context as it was on entry (model: closeAfter = finalizer after the yield)
                        want = f'{i},-'
                        st.count('early-close-checked')
                        if closed != want:
                            run.disagree(Disagreement(dict(cj, ctx=i, axis=ax), closed, want, None,
                                                      what='iterator-state-after-early-close', site='xpath_context.py'))
                except Exception as e:
                    real = err_code(e)
                st.count('iterator-trace-checked')
                if real != model[(i, ax)]:
                    run.disagree(Disagreement(dict(cj, ctx=i, axis=ax), real, model[(i, ax)], None,
                                              what='iterator-state-trace', site='xpath_context.py iterators'))


# ===================================================================== call histories (public API)
def subst_codes(e, mp):
    """resolve the prefix placeholders of an expression (codes 'P' = prefix p, 'Q' = prefix q) by a binding"""
    if e[0] == 's':
        parts = e[2].split(':')
        if parts[0] in ('q', 'ns') and parts[1] in mp:
            parts[1] = mp[parts[1]]
        return ['s', e[1], ':'.join(parts)] + e[3:]
    return [x if not isinstance(x, list) else subst_codes(x, mp) for x in e]


def history_paths():
  return [
    ['dr', S('child', 'q:P:x', True)], ['dr', S('child', 'ns:P', True)], ['dr', S('attribute', 'q:P:k', True)],
    ['sl', ['dr', S('child', 'q:P:x', True)], S('attribute', 'any', True)],
    ['dr', ['p', S('child', 'any', True), S('child', 'q:P:y', True)]],
    ['un', ['dr', S('child', 'q:P:x', True)], ['dr', S('child', 'q:P:y', True)]],
    ['sl', ['dr', S('child', 'q:P:y', True)], ['u']],
    ['dr', ['p', S('child', 'ns:P', True), ['not', S('attribute', 'q:P:k', True)]]],
    ['ds', ['dr', S('child', 'q:P:x', True)], S('child', 'q:Q:x', True)],
    ['p', ['g', ['dr', S('child', 'ns:P', True)]], ['last']],
    ['sl', ['dr', S('child', 'q:Q:x', True)], S('following-sibling', 'ns:P')],
  ]


BINDINGS = [{'p': 'urn:p'}, {'p': 'urn:q'}, {'p': 'urn:p', 'q': 'urn:q'}, {'p': 'urn:q', 'q': 'urn:p'},
            {'p': 'urn:d', 'q': 'urn:q'}]


def recode_tree(rng, t):
    """spread the element / attribute names over the namespaces urn:p, urn:q (and none)"""
    import copy
    t = copy.deepcopy(t)

    def go(e):
        if rng.random() < 0.55:
            e[1] = rng.choice(['P', 'Q'])
        for a in e[3]:
            a[0] = rng.choice(['', '', 'P', 'Q'])
        seen, attrs = set(), []
        for a in e[3]:
            if (a[0], a[1]) not in seen:
                seen.add((a[0], a[1]))
                attrs.append(a)
        e[3] = attrs
        for c in e[4]:
            if c[0] == 'E':
                go(c)
    go(t)
    if len(t) < 6:
        t.append({})
    t[5] = dict(t[5], q='Q')          # lxml: q declared at the root as well
    return t


def history_correspond(run: Run) -> None:
    """sequences of plain module-level select() / iter_select() calls and Selector objects in ONE process:
    same path string with the same prefixes bound to different URIs, different parser classes, different
    documents.  Every step is compared with the model, a pure function of (tree, expression, bindings)."""
    import elementpath
    rng = run.rng
    st = run.stats
    P = parsers()
    nh = run.scale(30, 250)
    steps = []
    for h in range(nh):
        docs = []
        for _ in range(2):
            tree, pre, post = gen_tree(rng, max_depth=4, max_elems=7)
            docs.append((recode_tree(rng, tree), rng.choice(COMBOS)))
        paths = rng.sample(history_paths(), 3)
        if rng.random() < 0.5:
            _TEST_CODES[:] = ['P', 'P', 'Q']
            extra = gen_path(rng, rng.choice([1, 2]), depth=1)
            _TEST_CODES[:] = ['P']
            if not (axes_of(extra) & {'namespace'}):
                paths.append(extra)
        versions = rng.sample(['1.0', '2.0', '3.0', '3.1'], 2)
        for k in range(rng.randint(6, 10)):
            binding = rng.choice(BINDINGS[:2] if rng.random() < 0.6 else BINDINGS)
            expr = rng.choice(paths)
            if 'q:Q' in json.dumps(expr) or 'ns:Q' in json.dumps(expr):
                binding = rng.choice(BINDINGS[2:])
            tree, (lib, mode) = rng.choice(docs)
            steps.append({'history': h, 'step': k, 'tree': tree, 'pre': [], 'post': [], 'lib': lib, 'mode': mode,
                          'ns': dict(binding), 'path_expr': expr, 'version': rng.choice(versions),
                          'api': rng.choice(['select', 'select', 'iter_select', 'Selector']),
                          'expr': subst_codes(expr, {'P': URI2CODE[binding['p']], 'Q': URI2CODE.get(binding.get('q', ''), 'Q')})})
    builts, lines = [], []
    for c in steps:
        b = Built(c['tree'], c['pre'], c['post'], c['lib'], c['mode'], c['ns'])
        builts.append(b)
        rootctx = 1 if b.mode == 'dummy' else 0
        lines.append(f"M={c['mode']} T={b.tree_field()} X={'~'.join(b.xtoks)} E={'~'.join(polish(c['expr']))} C={rootctx}")
    answers = drive(run, lines)
    prior: dict[int, list] = {}
    for c, b, ans in zip(steps, builts, answers):
        path = render(c['path_expr'])
        cj = {'history': c['history'], 'step': c['step'], 'tree': c['tree'], 'lib': c['lib'], 'mode': c['mode'],
              'namespaces': c['ns'], 'xpath': path, 'parser': c['version'], 'api': c['api'],
              'prior_calls_in_this_process': list(prior.get(c['history'], []))[-6:]}
        prior.setdefault(c['history'], []).append([c['api'], path, c['ns'], c['version']])
        if not ans.startswith('wf=1 fl=1 ty=path R='):
            run.disagree(Disagreement(cj, 'driver:' + ans[:80], what='protocol-history'))
            continue
        _, mv, sv, k = ans.split(' R=')[1].split(':')[:4]
        ids = parse_idx(sv)
        it = ImplTree(b)
        v = c['version']
        want = [it.label(j, v) for j in ids if not (b.mode == 'dummy' and j == 0)]
        try:
            if c['api'] == 'select':
                r = elementpath.select(it.raw, path, namespaces=dict(c['ns']), parser=P[v], fragment=it.frag)
            elif c['api'] == 'iter_select':
                r = list(elementpath.iter_select(it.raw, path, namespaces=dict(c['ns']), parser=P[v], fragment=it.frag))
            else:
                r = elementpath.Selector(path, namespaces=dict(c['ns']), parser=P[v]).select(
                    it.raw, fragment=it.frag, namespaces=dict(c['ns']))
            got = it.public_labels(r, v)
        except Exception as e:
            got = err_code(e)
        st.count('history-step-checked')
        st.case(['history', c['lib'], c['mode'], path, json.dumps(c['ns'], sort_keys=True), b.tree_field()], nontrivial=bool(ids))
        if got != want:
            tags = []
            run.disagree(Disagreement(cj, str(got)[:300], mv, str(want)[:300], what='public-api-call-history',
                                      site='xpath_selectors.py select / iter_select / Selector', tags=tags))


# ===================================================================== corpus
def E(name, *kids, attrs=(), u=''):
    return ['E', u, name, [list(a) for a in attrs], list(kids)]


T1 = E('a', E('x', E('x', E('y')), E('y')))                         # F01: nested same-name elements
T2 = E('a', ['T', 't1'], E('b'), ['T', 't2'], E('c'))               # F01b: text context
T3 = E('a', E('b', E('c'), ['T', 't1'], attrs=[('', 'k', 'v1')]), E('d', E('e', E('f'))), ['T', 't2'], ['C', 'c1'],
       ['P', 'pi', 'd1'], attrs=[('', 'j', 'v0')])
T4 = E('x', E('x', E('x', E('x', attrs=[('', 'k', 'v9')]))), E('y'))


def S(ax, t, abbr=False):
    return ['s', ax, t, abbr]


CORPUS_EXPR = [
    (T1, ['sl', ['dr', S('child', 'q::x', True)], S('child', 'q::y', True)]),              # //x/y
    (T1, ['sl', ['dr', S('child', 'q::x', True)], S('child', 'any', True)]),               # //x/*
    (T1, ['sl', ['dr', S('child', 'q::x', True)], S('following-sibling', 'any')]),
    (T1, ['sl', ['dr', S('child', 'q::y', True)], ['u']]),                                  # //y/..
    (T2, ['sl', ['dr', S('child', 'text', True)], S('following', 'any')]),                  # //text()/following::*
    (T3, ['sl', ['dr', S('attribute', 'q::k', True)], S('following', 'any')]),              # F01b
    (T3, ['sl', ['dr', S('attribute', 'q::k', True)], S('attribute', 'q::k', True)]),       # F01c
    (T3, ['sl', ['dr', S('attribute', 'q::k', True)], S('preceding', 'any')]),
    (T3, ['sl', ['dr', S('attribute', 'q::k', True)], S('preceding-sibling', 'any')]),
    (T3, ['sl', ['dr', S('attribute', 'q::k', True)], S('self', 'q::k')]),
    (T3, ['sl', ['dr', S('child', 'q::f', True)], ['p', ['p', S('ancestor', 'any'), ['cmp', 'gt', ['pos'], ['n', 1]]], ['n', 1]]]),
    (T3, ['sl', ['dr', S('child', 'q::b', True)], S('namespace', 'node')]),
    (T3, ['sl', ['dr', S('child', 'comment', True)], S('following', 'node')]),
    (T3, ['sl', ['dr', S('child', 'text', True)], S('preceding', 'any')]),
    (T3, ['p', ['g', ['sl', ['dr', S('child', 'q::f', True)], S('ancestor', 'any')]], ['n', 1]]),
    (T4, ['sl', ['sl', ['dr', S('child', 'q::x', True)], ['u']], S('child', 'any', True)]),
    (T4, ['ds', ['dr', S('child', 'q::x', True)], S('child', 'q::x', True)]),
    (T3, ['dr', ['p', S('child', 'any', True), ['and', S('attribute', 'q::k', True), ['not', S('child', 'q::zz', True)]]]]),
    (T3, ['r0']),
    (T3, ['sl', ['dr', S('child', 'q::f', True)], ['p', ['p', ['p', S('ancestor', 'any'), ['c']], ['c']], ['n', 1]]]),          # //f/ancestor::*[.][.][1]
    (T3, ['sl', ['dr', S('child', 'q::f', True)], ['p', ['p', ['p', ['p', S('ancestor-or-self', 'any'), ['c']], ['cmp', 'gt', ['pos'], ['n', 1]]], ['c']], ['n', 1]]]),
    (T3, ['sl', ['dr', S('child', 'q::f', True)], ['p', ['p', ['p', S('preceding', 'node'), ['c']], ['c']], ['last']]]),
    (T3, ['dr', ['p', ['p', ['p', S('child', 'any', True), ['c']], ['c']], ['n', 2]]]),                                          # //*[.][.][2]
    (T3, ['dr', ['p', S('child', 'any', True), ['n', 0]]]),                                                    # //*[0]
    (T3, ['p', ['g', ['dr', S('child', 'any', True)]], ['n', 0, 1]]),                                           # (//*)[00]
    (T3, ['sl', ['dr', S('child', 'q::a', True)], ['p', S('child', 'text', True), ['n', 0]]]),                # //a/text()[0]
    (T3, ['dr', ['p', S('child', 'any', True), ['p', S('child', 'any', True), ['n', 0]]]]),                    # //*[*[0]]
    (T3, ['sl', ['dr', S('child', 'q::f', True)], ['p', S('ancestor', 'any'), ['n', 0]]]),                     # reverse step [0]
    (T3, ['dr', ['p', S('child', 'any', True), ['lit', 0, 20]]]),                                              # //*[2.0]
    (T3, ['dr', ['p', S('child', 'any', True), ['lit', 1, 10, 'int']]]),                                       # //*[-1]
    (T3, ['dr', ['p', ['p', S('child', 'any', True), ['n', 10 ** 20]], ['n', 1]]]),
    (T3, ['sl', ['g', ['un', ['dr', S('child', 'q::c', True)], ['dr', S('child', 'q::e', True)]]], ['u']]),   # (//c | //e)/..
    (T3, ['ds', ['g', ['dr', S('child', 'q::d', True)]], S('child', 'q::f', True)]),                           # (//d)//f
    (T3, ['un', ['un', ['sl', ['dr', S('child', 'q::f', True)], ['u']], ['dr', S('child', 'q::b', True)]], ['r', S('child', 'q::a', True)]]),
    (T3, ['dr', ['p', S('child', 'any', True), ['cmp', 'eq', ['count', S('child', 'any', True)], ['n', 2]]]]), # //*[count(*) = 2]
    (T3, ['dr', ['p', S('child', 'any', True), ['cmp', 'eq', ['count', ['r', S('child', 'q::a', True)]], ['count', S('child', 'q::c', True)]]]]),
    (T3, ['p', ['g', ['un', ['dr', S('child', 'q::f', True)], ['dr', S('attribute', 'any', True)]]], ['last']]),
    (T1, ['dr', ['p', S('child', 'q::x', True), ['count', S('child', 'any', True)]]]),                         # //x[count(*)]
    (T3, ['sl', ['r', ['c']], S('child', 'any', True)]),
]


# seeded change m2: <d:a xmlns="urn:d" xmlns:p=…> whose child declares an extra prefix while its tag uses the default namespace
T5 = ['E', 'D', 'a', [['', 'j', 'w0']], [
    ['E', 'D', 'a', [['', 'k', 'w1'], ['Q', 'j', 'w2']], [['T', 'u1'], ['E', 'D', 'b', [], [], {}], ['T', 'u2']], {'q': 'Q'}],
    ['E', 'P', 'x', [['', 'k', 'w3']], [['E', '', 'y', [['', 'k', 'w4']], [['T', 'u3']], {}]], {'q': 'Q', 'p': 'P'}],
], {'': 'D'}]
CORPUS_DEEP = [
    ['sl', ['dr', S('attribute', 'any', True)], S('ancestor-or-self', 'node')],                    # //@*/ancestor-or-self::node()
    ['un', ['sl', ['dr', S('child', 'q:D:a', True)], S('attribute', 'any', True)],
           ['sl', ['dr', S('child', 'q:D:a', True)], S('child', 'node', True)]],                   # //d:a/@* | //d:a/node()
    ['un', ['dr', S('attribute', 'any', True)], ['dr', S('child', 'text', True)]],                 # //@* | //text()
    ['un', ['dr', S('namespace', 'any')], ['dr', S('child', 'node', True)]],
    ['sl', ['dr', S('namespace', 'any')], S('ancestor-or-self', 'node')],
]


def corpus_cases():
    out = []
    for expr in CORPUS_DEEP:
        for mode in ('doc', 'dummy', 'frag'):
            out.append({'tree': T5, 'pre': [], 'post': [], 'expr': expr, 'lib': 'lxml', 'mode': mode, 'ns': dict(NS_EXT)})
    post = [['C', 'cz'], ['P', 'pj', 'dz']]
    pre = [['C', 'ca']]
    for tree, expr in CORPUS_EXPR:
        for lib, mode in (('et', 'dummy'), ('lxml', 'doc'), ('et', 'frag'), ('et', 'doc'), ('lxml', 'dummy')):
            out.append({'tree': tree, 'pre': pre, 'post': post, 'expr': expr, 'lib': lib, 'mode': mode})
    return out


COMBOS = [('et', 'dummy'), ('lxml', 'doc'), ('et', 'doc'), ('lxml', 'dummy'), ('et', 'frag'), ('lxml', 'frag'),
          ('lxml', 'doc')]


def correspond(run: Run) -> None:
    rng = run.rng
    ntrees = int(__import__('os').environ.get('C01_NTREES') or run.scale(270, 2400))
    per_tree = run.scale(10, 14)
    cases = corpus_cases()
    for t in range(ntrees):
        big = (not run.quick) and rng.random() < 0.3
        deep = t % 6 == 5          # lxml only: namespace declarations at depth
        if deep:
            tree, pre, post = gen_tree_deep(rng, max_depth=6 if big else 5, max_elems=12 if big else 8)
            _TEST_CODES[:] = ['P', 'Q', 'D', 'D']
        else:
            tree, pre, post = gen_tree(rng, max_depth=9 if big else 6, max_elems=16 if big else 9)
            _TEST_CODES[:] = ['P']
        for k in range(per_tree):
            lib, mode = COMBOS[(t + k) % len(COMBOS)]
            if deep:
                lib = 'lxml'
            expr = gen_path(rng, rng.choice([1, 1, 2, 2, 3, 3, 4]), depth=2)
            if rng.random() < 0.07:
                expr = gen_union(rng, 1)
            if rng.random() < (0.45 if deep else 0.04):
                expr = gen_mix(rng)
            case = {'tree': tree, 'pre': pre, 'post': post, 'expr': expr, 'lib': lib, 'mode': mode,
                    'ctxseed': rng.randrange(1 << 30)}
            if deep:
                case['ns'] = dict(NS_EXT)
            r = rng.random()
            if r < 0.10:      # non-default position= / size= of the context
                size = rng.choice([1, 2, 3, 4])
                case['init'] = [rng.randint(1, size), size, None]
            elif r < 0.16:    # non-None initial axis= (first step tests the context item itself)
                size = rng.choice([1, 1, 3])
                case['init'] = [rng.randint(1, size), size, rng.choice(['self', 'child', 'attribute', 'descendant-or-self',
                                                                         'parent', 'ancestor', 'following-sibling', 'preceding'])]
            cases.append(case)
    _TEST_CODES[:] = ['P']
    run.stats.rule = ('(tree, expression, root form, library, context item): trees from a grammar biased to nested same-name '
                      'elements (names x,y,a; depth<=6 quick/9 thorough; 0-3 attributes; namespace nodes xml+p; text, tail, '
                      'comments, PIs; lxml document-level siblings) x path expressions (1-4 steps, 13 axes, name/kind tests, '
                      '<=2 predicates per step: numbers, last(), position() comparisons, paths, and/or/not; /, //, ., .., @, '
                      'parenthesised paths) x every node of the tree as context item. distinct = distinct tuples with a '
                      'non-empty specified result')
    # generator discipline: traces of all iterators on a sample of the trees
    seen, sample = set(), []
    for c in cases:
        k = (json.dumps(c['tree']), c['lib'], c['mode'])
        if k not in seen:
            seen.add(k)
            sample.append(c)
    # a fixed pool of expressions evaluated with process-wide shared tokens on many different documents
    pool = [e for _, e in CORPUS_EXPR[:6]] + history_paths()[:4]
    for c in sample[:run.scale(30, 250)]:
        if c.get('ns'):
            continue
        for e in pool:
            cases.append({'tree': c['tree'], 'pre': c['pre'], 'post': c['post'], 'expr': e, 'lib': c['lib'], 'mode': c['mode'],
                          'ctxseed': 7})
    state_correspond(run, sample[:run.scale(45, 350)])
    history_correspond(run)
    seq_correspond(run)
    chunk = 400
    for i in range(0, len(cases), chunk):
        compare(run, cases[i:i + chunk])
        if i % 2000 == 0:
            run.log(f'{i + chunk}/{len(cases)} cases, {run.stats.evaluations} evaluations, '
                    f'{len(run.disagreements)} disagreements')


# ===================================================================== phase 5: sequence operators ',' and '!'
def spolish(s) -> list[str]:
    k = s[0]
    if k == 'b':
        return ['b'] + polish(s[1])
    if k in ('cm', 'bg'):
        return [k] + spolish(s[1]) + spolish(s[2])
    if k in ('ssl', 'sf', 'sn'):
        return [k] + spolish(s[1]) + polish(s[2])
    raise ValueError(s)


def srender(s) -> str:
    """concrete syntax: ',' always parenthesised; '!' is left-associative and binds weaker than '/' and stronger
    than '|': a '!' right operand of '!' is parenthesised; `(l)/r` parenthesises its left operand"""
    k = s[0]
    if k == 'b':
        return render(s[1])
    if k == 'cm':
        return f'({srender(s[1])}, {srender(s[2])})'
    if k == 'bg':
        r = srender(s[2])
        return f'{srender(s[1])} ! ' + (f'({r})' if s[2][0] == 'bg' else r)
    if k in ('ssl', 'sn'):
        # a bare step (or a step with predicates) as left operand is written without parentheses: the left
        # operand token is then the XPathAxis / '[' token itself (`ancestor::*/position()`)
        l = s[1]
        if l[0] == 'b' and (l[1][0] == 's' or (l[1][0] == 'p' and inner_is_step(l[1]))):
            return f'{render(l[1])}/{render(s[2])}'
        return f'({srender(l)})/{render(s[2])}'
    if k == 'sf':
        return f'({srender(s[1])})[{render(s[2])}]'
    raise ValueError(s)


def sops(s, acc=None) -> list:
    acc = [] if acc is None else acc
    if s[0] != 'b':
        acc.append(s[0])
        sops(s[1], acc)
        if s[0] not in ('ssl', 'sf', 'sn'):
            sops(s[2], acc)
    return acc


def gen_rel(rng, n):
    e = gen_stepish(rng, 1)
    for _ in range(n - 1):
        e = [rng.choice(['sl', 'sl', 'ds']), e, gen_stepish(rng, 1)]
    return e


def gen_sbase(rng, nodes_only):
    if not nodes_only and rng.random() < 0.55:
        return ['b', gen_num(rng)]
    r = rng.random()
    if r < 0.3:      # a bare step (reverse axes: the `select_with_focus` of an XPathAxis token)
        ax = rng.choice(['ancestor', 'ancestor-or-self', 'preceding', 'preceding-sibling', 'child', 'descendant', 'following'])
        return ['b', ['s', ax, gen_test(rng, ax), False]]
    e = gen_path(rng, rng.choice([1, 1, 2]), depth=1)
    if r < 0.4:
        e = gen_union(rng, 1)
    if e[0] in ('r0', 'un'):
        e = ['g', e]
    return ['b', e]


def gen_sexpr(rng, depth, nodes_only=False, top=False):
    r = rng.random()
    if not top and (depth <= 0 or r < 0.3):
        return gen_sbase(rng, nodes_only)
    if r < 0.55:
        return ['cm', gen_sexpr(rng, depth - 1, nodes_only), gen_sexpr(rng, depth - 1, nodes_only)]
    if r < 0.82:
        return ['bg', gen_sexpr(rng, depth - 1, True), gen_sexpr(rng, depth - 1, nodes_only)]
    if r < 0.92:
        return ['ssl', gen_sexpr(rng, depth - 1, True), gen_rel(rng, rng.choice([1, 1, 2]))]
    if r < 0.97 or nodes_only:
        return ['sf', gen_sexpr(rng, depth - 1, True), gen_pred(rng, 1)]
    return ['sn', gen_sexpr(rng, depth - 1, True), gen_num(rng)]


_AE = ['s', 'ancestor-or-self', 'any', False]
_DE = ['s', 'descendant', 'any', False]
_CH = ['s', 'child', 'any', True]
SEQ_CORPUS = [
    ['bg', ['b', _AE], ['b', ['pos']]],                                  # former F01r: ancestor-or-self::* ! position()
    ['bg', ['b', ['g', _AE]], ['b', ['pos']]],                           # (ancestor-or-self::*) ! position()
    ['bg', ['b', _AE], ['b', ['last']]],
    ['cm', ['b', ['dr', _CH]], ['b', ['dr', _CH]]],                      # (//*, //*): duplicates stay
    ['cm', ['b', _DE], ['b', ['c']]],                                    # (descendant::*, .): not in document order
    ['bg', ['b', _DE], ['b', ['u']]],                                    # descendant::* ! ..: parents repeated, unsorted
    ['ssl', ['bg', ['b', _DE], ['b', ['u']]], _CH],                      # (descendant::* ! ..)/*
    ['ssl', ['cm', ['b', _DE], ['b', ['c']]], ['s', 'self', 'node', False]],   # (descendant::*, .)/self::node()
    ['bg', ['cm', ['b', _CH], ['b', _CH]], ['b', ['pos']]],              # (*, *) ! position()
    ['bg', ['b', _CH], ['cm', ['b', ['c']], ['b', ['count', _CH]]]],     # * ! (., count(*))
    ['bg', ['bg', ['b', _CH], ['b', _CH]], ['b', ['last']]],             # * ! * ! last()
    ['bg', ['b', _CH], ['bg', ['b', _CH], ['b', ['last']]]],             # * ! (* ! last())
    ['sn', ['b', _AE], ['pos']],                                         # ancestor-or-self::*/position()  (former F01r)
    ['sn', ['b', ['p', _AE, ['cmp', 'gt', ['pos'], ['n', 1]]]], ['pos']],   # ancestor-or-self::*[position() > 1]/position()
    ['sn', ['cm', ['b', ['s', 'preceding', 'any', False]], ['b', ['c']]], ['last']],   # (preceding::*, .)/last()
    ['ssl', ['b', ['s', 'ancestor', 'any', False]], _CH],                # ancestor::*/*
    ['sf', ['cm', ['b', _DE], ['b', _DE]], ['last']],                    # (descendant::*, descendant::*)[last()]
    ['sf', ['bg', ['b', _DE], ['b', ['u']]], ['n', 2]],                  # (descendant::* ! ..)[2]
    ['sf', ['cm', ['b', _AE], ['b', _AE]], ['cmp', 'gt', ['pos'], ['n', 1]]],   # (anc-or-self::*, anc-or-self::*)[position() > 1]
    ['sf', ['sf', ['cm', ['b', _DE], ['b', ['c']]], ['cmp', 'gt', ['pos'], ['n', 1]]], ['n', 1]],   # ((descendant::*, .)[position() > 1])[1]
]


def seq_str(it: 'ImplTree', items) -> str:
    out = []
    for x in items:
        if isinstance(x, it.xn.XPathNode):
            i = it.b.keyidx.get(it.b.key_of(x, it.xn))
            if i is None:
                return f'UNKNOWN-NODE:{x!r}'[:60]
            out.append(f'n{i}')
        elif isinstance(x, int) and not isinstance(x, bool):
            out.append(f'#{x}')
        else:
            return f'ATOMIC:{x!r}'[:60]
    return 'Q' + ','.join(out)


def seq_select(it: 'ImplTree', tok, i: int, evaluate=False) -> str:
    try:
        ctx = it.XPathContext(it.node_tree, namespaces=dict(it.b.ns), fragment=it.frag, item=it.ctxnode[i])
        if evaluate:
            ev = tok.evaluate(ctx)
            return seq_str(it, ev if isinstance(ev, list) else [ev])
        return seq_str(it, list(tok.select(ctx)))
    except Exception as e:
        return err_code(e)


def seq_compare(run: Run, cases: list[dict]) -> None:
    """model = implementation = specification for the sequence operators (SE= request of the driver)"""
    st = run.stats
    builts, lines = [], []
    for c in cases:
        b = Built(c['tree'], c['pre'], c['post'], c['lib'], c['mode'], c.get('ns'))
        builts.append(b)
        if not c.get('ctx'):
            import random
            allidx = [i for i in range(len(b.recs)) if not (b.mode == 'dummy' and i == 0)]
            rng = random.Random(c.get('ctxseed', 0))
            elems = [i for i in allidx if b.recs[i][0] in 'ED']
            others = [i for i in allidx if b.recs[i][0] not in 'ED']
            c['ctx'] = allidx if c.get('ctxseed') == -1 else \
                sorted(set(rng.sample(elems, min(len(elems), 7)) + rng.sample(others, min(len(others), 2))))
        lines.append(f"M={c['mode']} T={b.tree_field()} X={'~'.join(b.xtoks)} SE={'~'.join(spolish(c['sexpr']))} "
                     f"C={','.join(str(i) for i in c['ctx'])}")
    answers = drive(run, lines)
    P = parsers()
    for c, b, ans in zip(cases, builts, answers):
        path = srender(c['sexpr'])
        cj = {'tree': c['tree'], 'pre': c['pre'], 'post': c['post'], 'sexpr': c['sexpr'], 'lib': c['lib'], 'mode': c['mode'],
              'ns': c.get('ns'), 'xpath': path}
        if not ans.startswith('wf='):
            run.disagree(Disagreement(cj, 'driver:' + ans, what='protocol'))
            continue
        head, _, rfield = ans.partition(' R=')
        flds = dict(x.split('=') for x in head.split(' '))
        if flds['wf'] != '1' or flds['fl'] != '1' or flds['sty'] == 'none':
            run.disagree(Disagreement(cj, 'harness:' + head, what='wf-or-typing-of-generated-input'))
            continue
        ops = sops(c['sexpr'])
        has_bang = 'bg' in ops
        for o in set(ops):
            st.count('seq:op:' + {'cm': 'comma', 'bg': 'bang', 'ssl': 'step-on-sequence', 'sf': 'predicate-on-sequence',
                                  'sn': 'number-valued-step-on-sequence'}[o])
        st.count('seq:typed:' + flds['sty'])
        if any(x in path for x in ('ancestor', 'preceding')):
            st.count('seq:with-reverse-axis-step')
        try:
            it = ImplTree(b)
            tkey = ('SEQ', path, tuple(sorted(b.ns.items())))
            if tkey not in TOK_CACHE:
                TOK_CACHE[tkey] = {v: cls(namespaces=dict(b.ns)).parse(path) for v, cls in P.items()
                                   if v in ('3.0', '3.1') or (v == '2.0' and not has_bang)}
            toks = TOK_CACHE[tkey]
        except Exception as e:
            run.disagree(Disagreement(cj, err_code(e), what='parse-or-tree-build', site='parser'))
            continue
        for item in rfield.split('|'):
            i, mv, sv = item.split(':')
            i = int(i)
            cji = dict(cj, ctx=i)
            impl = seq_select(it, toks['3.0'], i)
            body_ = sv[1:].split(',') if sv.startswith('Q') and len(sv) > 1 else []
            nodes = [int(x[1:]) for x in body_ if x.startswith('n')]
            st.case(['seq', c['lib'], c['mode'], path, b.tree_field(), i], nontrivial=len(body_) > 0)
            st.count('seq:items=' + ('0' if not body_ else '1' if len(body_) == 1 else '2-4' if len(body_) < 5 else '5+'))
            if len(set(nodes)) < len(nodes):
                st.count('seq:result-with-duplicate-nodes')
            if nodes != sorted(nodes):
                st.count('seq:result-not-in-document-order')
            if any(x.startswith('#') for x in body_):
                st.count('seq:result-with-numbers')
            if impl != mv or impl != sv:
                if impl != sv:
                    st.count('seq:impl!=spec')
                run.disagree(Disagreement(cji, impl, mv, sv, what='select-sequence',
                                          site="select__comma_operator / select__simple_map_operator / select__child_path / select_with_focus"))
                continue
            for v, tok in toks.items():
                if v != '3.0':
                    st.count('seq:parser-agree-checked')
                    r = seq_select(it, tok, i)
                    if r != impl:
                        run.disagree(Disagreement(dict(cji, parser=v), r, mv, sv, what=f'select-sequence-parser-{v}-vs-3.0',
                                                  site='XPath2+ parsers'))
            st.count('seq:evaluate-path-checked')
            r = seq_select(it, toks['3.1'], i, evaluate=True)
            if r != impl:
                run.disagree(Disagreement(dict(cji, parser='3.1', api='token.evaluate'), r, mv, sv, what='select-sequence-evaluate-vs-select',
                                          site='evaluate__comma_operator / XPathToken.evaluate'))


def seq_correspond(run: Run) -> None:
    rng = run.rng
    cases = []
    ntrees = run.scale(110, 700)
    for t in range(ntrees):
        tree, pre, post = gen_tree(rng, max_depth=6, max_elems=9)
        lib, mode = COMBOS[t % len(COMBOS)]
        if t < 2 * len(SEQ_CORPUS):
            cases.append({'tree': tree, 'pre': pre, 'post': post, 'sexpr': SEQ_CORPUS[t % len(SEQ_CORPUS)], 'lib': lib, 'mode': mode,
                          'ctxseed': t})
        for k in range(4):
            cases.append({'tree': tree, 'pre': pre, 'post': post, 'sexpr': gen_sexpr(rng, rng.choice([1, 2, 2, 3]), top=True),
                          'lib': lib, 'mode': mode, 'ctxseed': rng.randrange(1 << 30)})
    run.stats.rule = (run.stats.rule or '') + (
        " + (phase 5) sequence expressions over the same trees: `(l, r)`, `l ! r`, `(l)/step`, `(l)[pred]`, `l/number` nested to depth 3 "
        "over bare reverse/forward steps, paths, unions, position(), last(), count(), integer literals x <= 9 context nodes "
        "(histogram keys seq:*)")
    for i in range(0, len(cases), 400):
        seq_compare(run, cases[i:i + 400])
    run.log(f'sequence operators: {len(cases)} cases, {len(run.disagreements)} disagreements')


# ===================================================================== search / shrink
def small_trees(max_elems=4):
    """all ordered trees with <= max_elems elements, root a, other names from {x, y}"""
    from itertools import product

    def shapes(n):  # forests of n nodes
        if n == 0:
            yield []
            return
        for k in range(1, n + 1):          # first tree has k nodes
            for sub in shapes(k - 1):
                for rest in shapes(n - k):
                    yield [sub] + rest

    def label(forest, names):
        out = []
        for sub in forest:
            nm = names.pop(0)
            out.append(['E', '', nm, [], label(sub, names)])
        return out

    for n in range(1, max_elems + 1):
        for forest in shapes(n - 1):
            for names in product('xy', repeat=n - 1):
                yield ['E', '', 'a', [], label(forest, list(names))]


def decorate(tree, variant):
    """variant 1: attribute k on every x + text after first child of each element"""
    if variant == 0:
        return tree
    import copy
    t = copy.deepcopy(tree)
    cnt = [0]

    def go(e):
        cnt[0] += 1
        if e[2] != 'y':
            e[3].append(['', 'k', f'v{cnt[0]}'])
        kids = []
        for j, c in enumerate(e[4]):
            go(c)
            kids.append(c)
            if j == 0:
                cnt[0] += 1
                kids.append(['T', f't{cnt[0]}'] if variant == 1 else ['C', f'c{cnt[0]}'])
        e[4] = kids
    go(t)
    return t


def search_exprs():
    tests = ['any', 'q::x', 'q::y', 'node']
    steps = [S(ax, t) for ax in AXES if ax not in ('attribute', 'namespace') for t in tests]
    steps += [S('attribute', 'any'), S('attribute', 'q::k'), S('namespace', 'any'), S('child', 'text'), ['u'], ['c']]
    cx, cy, ak = S('child', 'q::x', True), S('child', 'q::y', True), S('attribute', 'q::k', True)
    bools = []
    for op in ('and', 'or'):
        for l, r in ((cx, cy), (['not', cx], cy), (cy, ['not', cx]), (['not', cx], ['not', cy]), (['not', ak], cx),
                     (['cmp', 'gt', ['count', cx], ['n', 0]], cy), (['not', ['u']], cx), (['not', S('child', 'any', True)], ak)):
            bools.append([op, l, r])
    preds = [['n', 1], ['n', 2], ['n', 0], ['n', 0, 1], ['n', 3], ['n', 10 ** 20], ['lit', 1, 10, 'int'], ['lit', 0, 20], ['lit', 0, 15],
             ['lit', 0, 0], ['last'], ['cmp', 'gt', ['pos'], ['n', 1]], S('child', 'any', True),
             ['not', S('child', 'q::x', True)]] + bools
    one = list(steps) + [['p', s, p] for s in steps if s[0] == 's' for p in preds] + \
        [['p', ['p', s, preds[3]], preds[0]] for s in steps if s[0] == 's' and s[2] == 'any']
    for s in one:
        yield s
        yield ['dr', s]
        yield ['r', s]
    for ax in ('ancestor', 'ancestor-or-self', 'preceding', 'preceding-sibling', 'child', 'following'):
        for last in (['n', 1], ['n', 2], ['last']):
            for depth3 in (2, 3):
                st_ = S(ax, 'any')
                for _ in range(depth3):
                    st_ = ['p', st_, ['c']]
                yield ['sl', ['dr', S('child', 'any', True)], ['p', st_, last]]
                yield ['p', st_, last]
    heads = [['dr', S('child', 'q::x', True)], ['dr', S('child', 'any', True)], ['dr', S('child', 'node', True)],
             ['dr', S('attribute', 'any', True)], ['dr', S('child', 'text', True)]]
    for h in heads:
        for s in one:
            yield ['sl', h, s]
        for s in steps:
            yield ['ds', h, s]
            yield ['p', ['g', ['sl', h, s]], ['n', 1]]
            yield ['p', ['g', ['sl', h, s]], ['last']]
    for h in heads[:2]:
        for s1 in steps:
            for s2 in steps[::3]:
                yield ['sl', ['sl', h, s1], s2]


def search(run: Run):
    """exhaustive small trees x systematic expressions, implementation vs spec (and lxml)"""
    sub = Run(PROP, run.tier, run.seed)
    exprs = list(search_exprs())
    trees = []
    for t in small_trees(4 if run.quick else 5):
        trees.append(t)
    trees = [decorate(t, v) for t in trees for v in (0, 1)]
    combos = [('et', 'dummy'), ('lxml', 'doc'), ('et', 'frag')]
    cases = []
    import time
    t0 = time.time()
    budget = 70 if run.quick else 600
    n = 0
    for ti, tree in enumerate(sorted(trees, key=lambda t: len(json.dumps(t)))):
        lib, mode = combos[ti % 3]
        for e in exprs:
            cases.append({'tree': tree, 'pre': [], 'post': [['C', 'cz']] if lib == 'lxml' else [], 'expr': e,
                          'lib': lib, 'mode': mode})
        if len(cases) >= 1500:
            compare(sub, cases, full=False, lxml_check=False)
            n += len(cases)
            cases = []
            if any(d.kind == 'violation' and not d.tags for d in sub.disagreements) or time.time() - t0 > budget:
                break
    if cases:
        compare(sub, cases, full=False, lxml_check=False)
        n += len(cases)
    run.notes.append(f'search: {n} (small tree, expression) pairs x all contexts, {len(sub.disagreements)} disagreements')
    return sub.disagreements


def tree_size(t):
    return 1 + len(t[3]) + sum(tree_size(c) if c[0] == 'E' else 1 for c in t[4])


def tree_variants(t):
    """smaller trees: drop a child / an attribute / hoist a child's children"""
    import copy
    for i in range(len(t[4])):
        v = copy.deepcopy(t)
        del v[4][i]
        # no adjacent text nodes
        if not any(a[0] == 'T' and b[0] == 'T' for a, b in zip(v[4], v[4][1:])):
            yield v
    for i in range(len(t[3])):
        v = copy.deepcopy(t)
        del v[3][i]
        yield v
    for i, c in enumerate(t[4]):
        if c[0] == 'E':
            for cv in tree_variants(c):
                v = copy.deepcopy(t)
                v[4][i] = cv
                yield v


def expr_variants(e):
    k = e[0]
    if k in ('p', 'sl', 'ds'):
        yield e[1]
        if k != 'p' and e[2][0] in ('s', 'p', 'c', 'u'):
            yield e[2]
        for v in expr_variants(e[1]):
            yield [k, v, e[2]]
        for v in expr_variants(e[2]):
            if k == 'p' or v[0] in ('s', 'p', 'c', 'u'):
                yield [k, e[1], v]
    elif k in ('r', 'dr', 'g', 'not'):
        if k != 'not':
            yield e[1]
        for v in expr_variants(e[1]):
            yield [k, v]
    elif k in ('and', 'or', 'un'):
        yield e[1]
        yield e[2]
    elif k == 'count':
        yield e[1]


def valid_shape(e, top=True) -> bool:
    """only shapes whose rendering parses back to the same tree"""
    k = e[0]
    if k == 'p':
        return e[1][0] in ('s', 'p', 'g') and valid_shape(e[1], False) and valid_shape(e[2], False)
    if k in ('sl', 'ds'):
        return e[1][0] not in ('r0', 'un') and valid_shape(e[1], False) and e[2][0] in ('s', 'p', 'c', 'u') and \
            (e[2][0] != 'p' or inner_is_step(e[2])) and valid_shape(e[2], False)
    if k in ('r', 'dr'):
        return e[1][0] in ('s', 'p', 'c', 'u') and (e[1][0] != 'p' or inner_is_step(e[1])) and valid_shape(e[1], False)
    if k in ('g', 'not', 'count'):
        return valid_shape(e[1], False)
    if k == 'un':
        return e[2][0] != 'un' and all(x[0] not in ('and', 'or', 'not', 'cmp', 'n', 'lit', 'pos', 'last', 'count') and valid_shape(x, False)
                                       for x in e[1:])
    if k in ('and', 'or', 'cmp'):
        return all(valid_shape(x, False) for x in e[1:] if isinstance(x, list))
    return True


def inner_is_step(e):
    while e[0] == 'p':
        e = e[1]
    return e[0] == 's'


def sexpr_variants(s):
    """smaller sequence expressions: an operand instead of the operator, a simple leaf instead of a leaf,
    the same recursively in one operand (ill-typed candidates are rejected by the driver: sty=none)"""
    k = s[0]
    out = []
    if k == 'b':
        for leaf in (['c'], ['s', 'child', 'any', True], ['s', 'descendant', 'any', False], ['pos']):
            if s[1] != leaf and len(json.dumps(leaf)) < len(json.dumps(s[1])):
                out.append(['b', leaf])
        return out
    out.append(s[1])
    if k not in ('ssl', 'sf', 'sn'):
        out.append(s[2])
    for v in sexpr_variants(s[1]):
        out.append([k, v, s[2]])
    if k == 'ssl':
        if s[2] != ['s', 'child', 'any', True]:
            out.append([k, s[1], ['s', 'child', 'any', True]])
    elif k == 'sn':
        if s[2] != ['pos']:
            out.append([k, s[1], ['pos']])
    elif k == 'sf':
        for q in (['n', 1], ['n', 2], ['last']):
            if len(json.dumps(q)) < len(json.dumps(s[2])):
                out.append([k, s[1], q])
    else:
        for v in sexpr_variants(s[2]):
            out.append([k, s[1], v])
    return out


def shrink_seq(d: Disagreement) -> Disagreement:
    best = d
    for _ in range(25):
        c = best.case
        cands = [dict(c, tree=tv) for tv in tree_variants(c['tree'])]
        cands += [dict(c, sexpr=v) for v in sexpr_variants(c['sexpr'])]
        if c['pre'] or c['post']:
            cands.append(dict(c, pre=[], post=[]))
        if not cands:
            break
        sub = Run(PROP, 'quick', 0)
        for x in cands:
            x.pop('ctx', None)
            x['ctxseed'] = -1
        try:
            seq_compare(sub, cands[:300])
        except Exception:
            break
        hits = [x for x in sub.disagreements if x.kind == 'violation' and x.what == 'select-sequence' and x.tags == best.tags]
        if not hits:
            break
        hits.sort(key=lambda x: (tree_size(x.case['tree']) + len(json.dumps(x.case['sexpr']))))
        if (tree_size(hits[0].case['tree']) + len(json.dumps(hits[0].case['sexpr']))
                >= tree_size(c['tree']) + len(json.dumps(c['sexpr']))) and best is not d:
            break
        best = hits[0]
    return best


def shrink(d: Disagreement) -> Disagreement:
    case = d.case
    if isinstance(case, dict) and 'tree' in case and 'sexpr' in case and d.what == 'select-sequence' and d.kind == 'violation':
        # (a disagreement tagged with a listed finding is not shrunk: its witness is kernel-checked in Lean)
        return d if d.tags else shrink_seq(d)
    if not isinstance(case, dict) or 'tree' not in case or d.what != 'select-nodes':
        return d
    best = d
    for _ in range(25):
        c = best.case
        cands = []
        for tv in tree_variants(c['tree']):
            cands.append(dict(c, tree=tv))
        for ev in expr_variants(c['expr']):
            if valid_shape(ev) and ev[0] not in ('n', 'lit', 'pos', 'last', 'cmp', 'and', 'or', 'not', 'count'):
                cands.append(dict(c, expr=ev))
        if c['pre'] or c['post']:
            cands.append(dict(c, pre=[], post=[]))
        if not cands:
            break
        sub = Run(PROP, 'quick', 0)
        for x in cands:
            x.pop('ctx', None)
            x['ctxseed'] = -1
        try:
            compare(sub, cands[:300], full=False, lxml_check=False)
        except Exception:
            break
        hits = [x for x in sub.disagreements if x.kind == 'violation' and x.what == 'select-nodes' and x.tags == best.tags]
        if not hits:
            break
        hits.sort(key=lambda x: (tree_size(x.case['tree']) + len(json.dumps(x.case['expr']))))
        best = hits[0]
    return best


# ===================================================================== translator: method table
FRAGMENT_SYMBOLS = ['self', 'child', 'descendant', 'descendant-or-self', 'parent', 'ancestor', 'ancestor-or-self',
                    'following-sibling', 'preceding-sibling', 'following', 'preceding', 'attribute', 'namespace',
                    '@', '/', '//', '[', '(', '(name)', ':', '*', '.', '..', 'node', 'text', 'comment',
                    'processing-instruction', '(integer)', 'position', 'last', 'count', 'not', 'and', 'or',
                    '=', '!=', '<', '<=', '>', '>=', '|', '(decimal)', '-']
METHODS = ['select', 'evaluate', 'select_with_focus', 'nud', 'led']
ATTRS = ['lbp', 'rbp', 'label', 'reverse_axis']


def translate_methods(run: Run) -> dict:
    """For every token symbol of the fragment and each of the four parser classes: which function object
    implements select / evaluate / select_with_focus / nud / led (numbered per row by identity, in order of
    first appearance) and the class attributes lbp, rbp, label, reverse_axis  ->  EPV/Gen/C01Methods.lean.
    `EPV.Props.C01Methods` proves by `decide` that the rows of the shared symbols are constant."""
    from harness.common import LEAN
    P = parsers()
    fn_ns = '{http://www.w3.org/2005/xpath-functions}'
    rows, arows = [], []
    for sym in FRAGMENT_SYMBOLS:
        classes = []
        for v in ('1.0', '2.0', '3.0', '3.1'):
            st = P[v].symbol_table
            classes.append(st.get(sym) or st.get(fn_ns + sym))
        mrow = []
        for meth in METHODS:
            objs, ids = [], []
            for cls in classes:
                f = getattr(cls, meth, None) if cls is not None else ('missing', len(objs))
                for k, o in enumerate(objs):
                    if o is f:
                        ids.append(k)
                        break
                else:
                    objs.append(f)
                    ids.append(len(objs) - 1)
            mrow.append(ids)
        rows.append((sym, mrow))
        arow = []
        for at in ATTRS:
            vals, ids = [], []
            for cls in classes:
                val = repr(getattr(cls, at, None)) if cls is not None else 'missing'
                if val not in vals:
                    vals.append(val)
                ids.append(vals.index(val))
            arow.append(ids)
        arows.append((sym, arow))

    # structural facts about the two symbols whose function objects differ in 2.0+ (`attribute`, `(`)
    import ast, inspect, textwrap
    from elementpath.xpath_tokens import XPathToken

    def fn_ast(f):
        return ast.parse(textwrap.dedent(inspect.getsource(f))).body[0]

    def dump(nodes):
        return [ast.dump(n) for n in nodes]
    facts = []
    try:
        a10 = P['1.0'].symbol_table['attribute']
        a20 = P['2.0'].symbol_table['attribute']
        f10, f20 = fn_ast(a10.select), fn_ast(a20.select)
        # 1.0: `if context is None: raise … elif isinstance(context.item, AttributeNode): return` + the loop
        first_if = next(n for n in f10.body if isinstance(n, ast.If))
        loop10 = list(first_if.orelse) + [n for n in f10.body if isinstance(n, ast.For)]
        # 2.0: `if context is None: raise … elif self.label == 'axis': <body> …`
        branch20 = None
        for n in ast.walk(f20):
            if isinstance(n, ast.If) and ast.unparse(n.test) == "self.label == 'axis'":
                branch20 = n.body
        facts.append(('attribute20-axis-branch-is-the-1.0-loop', branch20 is not None and len(loop10) == 2 and
                      dump(branch20) == dump(loop10)))
        facts.append(('attribute-select-is-the-same-in-2.0-3.0-3.1',
                      a20.select is P['3.0'].symbol_table['attribute'].select is P['3.1'].symbol_table['attribute'].select))
        facts.append(('attribute20-select_with_focus-is-the-base-forward-one', a20.select_with_focus is XPathToken.select_with_focus))
        facts.append(('attribute10-is-a-forward-axis', a10.reverse_axis is False))
        p10, p20 = fn_ast(P['1.0'].symbol_table['('].select), fn_ast(P['2.0'].symbol_table['('].select)
        facts.append(('paren10-select-passes-through', [ast.unparse(n) for n in p10.body if not isinstance(n, ast.Expr)] ==
                      ['return self[0].select(context)']))
        facts.append(('paren20-select-passes-through-when-non-empty',
                      [ast.unparse(n) for n in p20.body if not isinstance(n, ast.Expr)] ==
                      ['return self[0].select(context) if self else iter(())']))
        # 3.0 / 3.1 register only `evaluate` for '(' (dynamic function calls): select is the generic
        # XPathToken.select over evaluate()
        facts.append(('paren30-select-is-the-generic-select-over-evaluate',
                      P['3.0'].symbol_table['('].select is XPathToken.select))
        facts.append(('paren31-is-the-3.0-object', P['3.0'].symbol_table['('].select is P['3.1'].symbol_table['('].select and
                      P['3.0'].symbol_table['('].evaluate is P['3.1'].symbol_table['('].evaluate))
        # the evaluate() path (EPV/Model/AxesEvaluate.lean)
        def src(f):
            return ast.unparse(fn_ast(f))
        st10 = P['1.0'].symbol_table
        xl = 'return xlist(self.select(context))'
        facts.append(('name-prefixed-name-and-wildcard-evaluate-are-xlist-of-select',
                      all(xl in src(st10[k].evaluate) for k in ('(name)', ':', '*'))))
        facts.append(('context-item-evaluate-returns-the-item', 'return context.item' in src(st10['.'].evaluate)))
        facts.append(('parent-shortcut-evaluate-returns-first-parent-or-empty',
                      'for value in copy(context).iter_parent():\n        return value\n    else:\n        return []'
                      in src(st10['..'].evaluate)))
        facts.append(('paren10-evaluate-is-operand-evaluate',
                      [ast.unparse(n) for n in fn_ast(st10['('].evaluate).body if not isinstance(n, ast.Expr)] ==
                      ['return self[0].evaluate(context)']))
        facts.append(('paren20-evaluate-is-operand-evaluate',
                      [ast.unparse(n) for n in fn_ast(P['2.0'].symbol_table['('].evaluate).body if not isinstance(n, ast.Expr)] ==
                      ['return self[0].evaluate(context) if self else []']))
        s30 = src(P['3.0'].symbol_table['('].evaluate)
        facts.append(('paren30-evaluate-unwraps-a-one-item-list-of-the-operand-evaluate',
                      'value = self[0].evaluate(context)\n    if isinstance(value, list) and len(value) == 1:\n        value = value[0]' in s30
                      and 'if self[0].span[0] > self.span[0]:\n        return value' in s30))
        facts.append(('generic-select-expands-evaluate',
                      [ast.unparse(n) for n in fn_ast(XPathToken.select).body if not isinstance(n, ast.Expr)] ==
                      ['item = self.evaluate(context)', 'if isinstance(item, list):\n    yield from item\nelse:\n    yield item']))
        facts.append(('generic-evaluate-is-xlist-of-select',
                      [ast.unparse(n) for n in fn_ast(XPathToken.evaluate).body if not isinstance(n, ast.Expr)] == [xl]))
    except Exception as e:     # source not available / shape changed: the fact is false, the theorem breaks
        facts.append((f'introspection-failed-{type(e).__name__}', False))
    # which of evaluate / select is the generic XPathToken method, per symbol and parser class
    # (2 = generic evaluate, 1 = generic select, 0 = both defined by the token class)
    es_rows = []
    for sym in FRAGMENT_SYMBOLS:
        codes = []
        for v in ('1.0', '2.0', '3.0', '3.1'):
            stv = P[v].symbol_table
            cls = stv.get(sym) or stv.get(fn_ns + sym)
            codes.append((2 if cls.evaluate is XPathToken.evaluate else 0) + (1 if cls.select is XPathToken.select else 0))
        es_rows.append((sym, codes))

    def ll(x):
        return '[' + ', '.join(ll(y) if isinstance(y, list) else str(y) for y in x) + ']'
    out = ['/- GENERATED by harness/c01.py::translate_methods from the live parser classes -- do not edit -/',
           'namespace EPV.Gen.C01', '',
           '/-- (symbol, for each of select / evaluate / select_with_focus / nud / led: the function object of the',
           '1.0, 2.0, 3.0, 3.1 parser class, numbered by identity) -/',
           'def methods : List (String × List (List Nat)) := [']
    out.append(',\n'.join(f'  ("{sym}", {ll(m)})' for sym, m in rows) + ']')
    out += ['', '/-- (symbol, for each of lbp / rbp / label / reverse_axis: the value in the four classes, numbered) -/',
            'def attrs : List (String × List (List Nat)) := [']
    out.append(',\n'.join(f'  ("{sym}", {ll(m)})' for sym, m in arows) + ']')
    out += ['', '/-- structural facts (AST comparison of the live sources) about `attribute` and `(` in 2.0+ -/',
            'def facts : List (String × Bool) := [' + ', '.join(f'("{n}", {"true" if v else "false"})' for n, v in facts) + ']']
    out += ['', '/-- per symbol and parser class: 2 = evaluate is the generic XPathToken.evaluate, 1 = select is the generic',
            'XPathToken.select, 0 = the token class defines both -/',
            'def evalSelect : List (String × List Nat) := [' + ', '.join(f'("{sym}", {ll(c)})' for sym, c in es_rows) + ']']
    out += ['', 'end EPV.Gen.C01', '']
    gen = LEAN / 'EPV' / 'Gen' / 'C01Methods.lean'
    gen.parent.mkdir(exist_ok=True)
    text = '\n'.join(out)
    if not gen.exists() or gen.read_text() != text:
        gen.write_text(text)
    differing = [sym for sym, m in rows if any(len(set(ids)) > 1 for ids in m[:3])]
    return {'symbols': len(rows), 'select_evaluate_focus_differ': differing, 'facts': facts}


# ===================================================================== entry
def body(run: Run) -> int:
    run.trusted_base += ['the array encoding computed by harness/c01.py::Built from its own tree description',
                         'node identity maps (Python object identity of elements, unique text / attribute values)',
                         'EPV/Spec/XPath1Paths.lean as the reading of XPath 1.0 section 2 (cross-validated against libxml2 on '
                         'document-rooted lxml trees, namespace axis excluded)']
    run.assumptions += ["sequence operators (phase 5): ',' always written parenthesised, '!' operands node-valued on the left; "
                        "items are nodes or non-negative integers (position(), last(), count(), integer literals)",
                        'document order = XPathNode.position order (property C02)',
                        'CPython sorted()/list.sort() return the sorted permutation',
                        'Element root without fragment flag: the dummy document is a virtual root that is not the parent of '
                        'the root element (elementpath API semantics, not W3C)',
                        'context.axis state machine abstracted: a step = axis iterator then node test on each yielded item']
    run.stats.extra['method_table'] = translate_methods(run)
    run.trusted_base.append('translator harness/c01.py::translate_methods (function-object identity of the token methods of the '
                            'four parser classes, printed as a Lean table)')
    run.prove(['EPV.Props.C01', 'EPV.Props.C01Methods', 'EPV.Props.C01SeqOps'], ['EPV.Spec.AxesSeqOps', 'EPV.Model.AxesSeqOps', 'EPV.Spec.XPath1Paths', 'EPV.Model.AxesTree', 'EPV.Model.AxesState', 'EPV.Model.AxesEvalState',
                                       'EPV.Model.AxesEvaluate', 'EPV.Proto'])
    try:
        if getattr(run, 'replay', None):
            data = json.loads(Path(run.replay).read_text())
            fi = data.get('failing_input') or {}
            case = fi.get('case')
            if isinstance(case, dict) and 'tree' in case:
                case = dict(case)
                if 'ctx' in case and not isinstance(case['ctx'], list):
                    case['ctx'] = [case['ctx']]
                if 'sexpr' in case:
                    seq_compare(run, [case])
                else:
                    compare(run, [case])
        else:
            correspond(run)
    except DriverError as e:
        run.broken.append('driver:C01 ' + str(e)[:300])
    return run.finish('proof', shrink=shrink, search=search)


if __name__ == '__main__':
    cli(PROP, body, translate=translate_methods)

"""
C08 -- sequence expressions and sequence/aggregate functions equal the F&O list model.

 prove      : EPV.Props.C08 (model = spec for every function, every list, every argument;
              odometer = cartesian product; eval = sem for every expression; permitted outcomes;
              algebraic laws)
 correspond : expressions are generated as ASTs, printed (a) as XPath text for the real engine and
              (b) in Polish notation for the Lean driver, which answers with the value of the model
              (`eval`), of the specification (`sem`), the lazy value and the reachable error codes.
              Engine routes: primary `elementpath.select(root, text, item=.., position=.., size=..,
              variables=..)` with XPath31Parser, XPath30Parser, XPath2Parser (where the syntax exists);
              plus one further route per case: token.evaluate / token.select / iter_select /
              Selector / one Selector re-used with alternating contexts / lxml document / document
              node as root / the function calls written as f#n(..), let $fn := f#n, inline
              function, partial application, arrow.
              1. corpus of the failing inputs of all findings;
              2. boundary probes: every function x sequences (empty, singleton, long, mixed numeric
                 tower, NaN, +-0, duplicates, strings, booleans, untypedAtomic, nodes) x boundary
                 arguments in integer / decimal / double spelling, wrongly typed arguments,
                 call-site probes (`for $a in .., $b in .. return f(S, $a, $b)`), aliasing probes;
              3. the standard equivalences, both sides evaluated by the real engine, compared
                 with each other and with model/spec;
              4. random nested compositions (predicate in for in predicate, quantifiers, `!`,
                 shadowed variables, aggregates over the numeric tower / untyped / nodes, lifted
                 calls, error leaves) from a typed generator;
              5. node probes, kernel probes (rnd, roundSig28, lexDouble vs CPython).
 search     : exhaustive small-scope enumeration (all sequences of length <= 3 over {1,2} x all
              boundary arguments x every function/operator) + a fresh random stream.
"""
from __future__ import annotations

import math
import random
import sys
from decimal import Decimal, getcontext
from fractions import Fraction
from pathlib import Path

sys.path.insert(0, str(Path(__file__).resolve().parent.parent))
from harness.common import (Run, Disagreement, cli, DriverError)  # noqa: E402

PROP = 'C08'

# --------------------------------------------------------------------------------------
# AST
#   atoms : ('i', int) ('d', 'nan'|'inf'|'-inf'|'-0'|(m, k)) ('s', str) ('b', bool)
#           ('q', (m, k)) xs:decimal m/10^k   ('u', str) xs:untypedAtomic   ('n', idx) node (only in contexts)
#   exprs : ('lit', atom) ('empty',) ('var', id) ('dot',) ('pos',) ('last',)
#           ('comma', a, b) ('to', a, b) ('filter', e, p) ('map', a, b)
#           ('for'|'some'|'every', [(id, e), ...], body)
#           ('f', name, [args]) ('cmp', op, a, b) ('and', a, b) ('or', a, b)
#           ('ar', op, a, b) ('if', c, a, b)
# --------------------------------------------------------------------------------------
def I(n): return ('lit', ('i', n))
def S(s): return ('lit', ('s', s))
def B(b): return ('lit', ('b', b))
def Dd(x):
    """double literal from 'nan' / 'inf' / '-inf' / a python number with an exact binary value"""
    if isinstance(x, str):
        return ('lit', ('d', x))
    return ('lit', ('d', frac_to_mk(Fraction(x))))


def Q(txt):
    """xs:decimal literal from its lexical form, e.g. Q('2.50')"""
    d = Decimal(txt)
    sign, digits, exp = d.as_tuple()
    m = int(''.join(map(str, digits))) * (-1 if sign else 1)
    if exp > 0:
        m *= 10 ** exp
        exp = 0
    return ('lit', ('q', (m, -exp)))


def U(s): return ('lit', ('u', s))
def Dx(f: float):
    """double literal from any finite python float (exact binary value)"""
    if f == 0 and math.copysign(1, f) < 0:
        return ('lit', ('d', '-0'))
    return ('lit', ('d', frac_to_mk(Fraction(f))))


EMPTY = ('empty',)


def seq(items):
    """comma expression of a python list of expressions (left nested, like the parser)"""
    if not items:
        return EMPTY
    e = items[0]
    for x in items[1:]:
        e = ('comma', e, x)
    return e


def F(name, *args): return ('f', name, list(args))


def frac_to_mk(fr: Fraction):
    m, d = fr.numerator, fr.denominator
    k = d.bit_length() - 1
    assert d == 1 << k, fr
    return (m, k)


def norm_mk(m, k):
    while k > 0 and m % 2 == 0:
        m //= 2
        k -= 1
    return m, k


def atom_wire(a) -> str:
    t, v = a
    if t == 'i':
        return f'i:{v}'
    if t == 'b':
        return 'b:1' if v else 'b:0'
    if t == 's':
        return 's:' + '.'.join(format(ord(c), 'x') for c in v)
    if t == 'u':
        return 'u:' + '.'.join(format(ord(c), 'x') for c in v)
    if t == 'n':
        return f'n:{v}'
    if t == 'q':
        return f'q:{v[0]}/{v[1]}'
    if t == 'd':
        if isinstance(v, str):
            return 'd:' + v
        return f'd:{v[0]}/{v[1]}'
    raise ValueError(a)


def wire(e) -> list[str]:
    t = e[0]
    if t == 'lit':
        return [atom_wire(e[1])]
    if t == 'empty':
        return ['E']
    if t == 'var':
        return [f'v{e[1]}']
    if t == 'dot':
        return ['.']
    if t == 'pos':
        return ['P']
    if t == 'last':
        return ['L']
    if t in ('comma', 'to', 'filter', 'map', 'and', 'or'):
        tok = {'comma': ',', 'to': 'to', 'filter': '[', 'map': '!', 'and': 'and', 'or': 'or'}[t]
        return [tok] + wire(e[1]) + wire(e[2])
    if t in ('for', 'some', 'every'):
        out = [f'{t}{len(e[1])}']
        for vid, be in e[1]:
            out += [str(vid)] + wire(be)
        return out + wire(e[2])
    if t == 'f':
        args = [a for a in e[2] if not is_collarg(a)]
        out = [f'f{len(args)}:{e[1]}']
        for a in args:
            out += wire(a)
        return out
    if t == 'cmp':
        return [f'c:{e[1]}'] + wire(e[2]) + wire(e[3])
    if t == 'ar':
        return [f'a:{e[1]}'] + wire(e[2]) + wire(e[3])
    if t == 'if':
        return ['if'] + wire(e[1]) + wire(e[2]) + wire(e[3])
    raise ValueError(e)


def dbl_text(v) -> str:
    if v == 'nan':
        return "xs:double('NaN')"
    if v == 'inf':
        return "xs:double('INF')"
    if v == '-inf':
        return "xs:double('-INF')"
    if v == '-0':
        return '(-0e0)'
    m, k = v
    fr = Fraction(m, 1 << k)
    # exact decimal expansion of a dyadic rational
    sign = '-' if fr < 0 else ''
    fr = abs(fr)
    ip = fr.numerator // fr.denominator
    rem = fr - ip
    digits = ''
    while rem:
        rem *= 10
        d = rem.numerator // rem.denominator
        digits += str(d)
        rem -= d
    body = f'{ip}.{digits}e0' if digits else f'{ip}e0'
    return f'(-{body})' if sign else body


CP_URI = 'http://www.w3.org/2005/xpath-functions/collation/codepoint'
CI_URI = 'http://www.w3.org/2005/xpath-functions/collation/html-ascii-case-insensitive'


def COLL(kind):
    """a collation argument: 'ci' / 'cp' = the URI literal, 'default' = default-collation().  The Lean
    side has no collation argument: the call is evaluated with the collation the argument denotes as
    the context's collation (see Case.effective_collation)"""
    return ('lit', ('c', kind))


def is_collarg(e) -> bool:
    return e[0] == 'lit' and e[1][0] == 'c'


def atom_text(a) -> str:
    t, v = a
    if t == 'c':
        return {'ci': f"'{CI_URI}'", 'cp': f"'{CP_URI}'", 'default': 'default-collation()'}[v]
    if t == 'i':
        return str(v) if v >= 0 else f'(-{-v})'
    if t == 'b':
        return 'true()' if v else 'false()'
    if t == 's':
        return "'" + v.replace("'", "''") + "'"
    if t == 'u':
        return "xs:untypedAtomic('" + v.replace("'", "''") + "')"
    if t == 'q':
        m, k = v
        sgn = '-' if m < 0 else ''
        digits = str(abs(m)).rjust(k + 1, '0')
        body = digits[:len(digits) - k] + '.' + (digits[len(digits) - k:] if k else '0')
        return f'(-{body})' if sgn else body
    if t == 'n':
        raise ValueError('a node has no literal form')
    return dbl_text(v)


CALL_STYLES = ('ref', 'arrow', 'partial', 'inline', 'let-ref')


def call_text(name: str, args: list[str], style) -> str:
    """a static function call, or the same call through a function item (XPath 3.0 / 3.1)"""
    n = len(args)
    plain = f'{name}(' + ', '.join(args) + ')'
    if style is None or n == 0:
        return plain
    if style == 'ref':                      # named function reference, dynamic call
        return f'{name}#{n}(' + ', '.join(args) + ')'
    if style == 'arrow':                    # XPath 3.1 arrow operator
        return f'({args[0]} => {name}(' + ', '.join(args[1:]) + '))'
    if style == 'partial' and name != 'boolean':   # partial application, then dynamic call
        # (`boolean(?)` and `string(?)` are evaluated at once: the names are also constructor functions;
        # reported to the coordinator, not a sequence function)
        return f'{name}(' + ', '.join(['?'] + args[1:]) + f')({args[0]})'
    if style == 'inline':                   # inline function wrapping the call
        ps = [f'$p{i}' for i in range(n)]
        return f'function({", ".join(ps)}) {{ {name}({", ".join(ps)}) }}(' + ', '.join(args) + ')'
    if style == 'let-ref':
        return f'(let $fn := {name}#{n} return $fn(' + ', '.join(args) + '))'
    if style == 'partial':
        return plain
    raise ValueError(style)


def text(e, style=None) -> str:
    t = e[0]
    if t == 'lit':
        return atom_text(e[1])
    if t == 'empty':
        return '()'
    if t == 'var':
        return f'$v{e[1]}'
    if t == 'dot':
        return '.'
    if t == 'pos':
        return 'position()'
    if t == 'last':
        return 'last()'
    if t == 'comma':
        # flatten left-nested commas for readability; same token tree
        parts = []
        x = e
        while x[0] == 'comma':
            parts.append(x[2])
            x = x[1]
        parts.append(x)
        return '(' + ', '.join(par(p, style) for p in reversed(parts)) + ')'
    if t == 'to':
        return f'({par(e[1], style)} to {par(e[2], style)})'
    if t == 'filter':
        return f'{par(e[1], style)}[{text(e[2], style)}]'
    if t == 'map':
        return f'({par(e[1], style)} ! {par(e[2], style)})'
    if t in ('for', 'some', 'every'):
        kw = 'return' if t == 'for' else 'satisfies'
        binds = ', '.join(f'$v{vid} in {par(be, style)}' for vid, be in e[1])
        return f'({t} {binds} {kw} {par(e[2], style)})'
    if t == 'f':
        return call_text(e[1], [par(a, style) for a in e[2]], style)
    if t == 'cmp':
        return f'({par(e[2], style)} {e[1]} {par(e[3], style)})'
    if t in ('and', 'or'):
        return f'({par(e[1], style)} {t} {par(e[2], style)})'
    if t == 'ar':
        return f'({par(e[2], style)} {e[1]} {par(e[3], style)})'
    if t == 'if':
        return f'(if ({text(e[1], style)}) then {par(e[2], style)} else {par(e[3], style)})'
    raise ValueError(e)


def par(e, style=None) -> str:
    s = text(e, style)
    if style is None:
        if s.startswith('(') or e[0] in ('lit', 'var', 'dot', 'pos', 'last', 'f', 'empty') and not s.startswith('-'):
            return s
        return f'({s})'
    if e[0] in ('lit', 'var', 'dot', 'pos', 'last', 'empty') and not s.startswith('-'):
        return s
    if e[0] in ('comma', 'to', 'map', 'for', 'some', 'every', 'cmp', 'and', 'or', 'ar', 'if'):
        return s                     # printed with their own parentheses
    return f'({s})'


def subexprs(e):
    yield e
    t = e[0]
    if t in ('comma', 'to', 'filter', 'map', 'and', 'or'):
        yield from subexprs(e[1]); yield from subexprs(e[2])
    elif t in ('for', 'some', 'every'):
        for _, be in e[1]:
            yield from subexprs(be)
        yield from subexprs(e[2])
    elif t == 'f':
        for a in e[2]:
            yield from subexprs(a)
    elif t in ('cmp', 'ar'):
        yield from subexprs(e[2]); yield from subexprs(e[3])
    elif t == 'if':
        yield from subexprs(e[1]); yield from subexprs(e[2]); yield from subexprs(e[3])


def features(e) -> set[str]:
    out = set()
    for x in subexprs(e):
        t = x[0]
        if t == 'f':
            out.add(f'fn:{x[1]}/{len(x[2])}')
        elif t in ('cmp', 'ar'):
            out.add(f'{t}:{x[1]}')
        elif t in ('for', 'some', 'every'):
            out.add(f'{t}/{len(x[1])}')
            ids = [v for v, _ in x[1]]
            if len(set(ids)) < len(ids):
                out.add('clause-rebinds-variable')
        elif t == 'lit':
            out.add('lit:' + x[1][0])
        else:
            out.add(t)
    return out


def depth(e) -> int:
    t = e[0]
    kids = []
    if t in ('comma', 'to', 'filter', 'map', 'and', 'or'):
        kids = [e[1], e[2]]
    elif t in ('for', 'some', 'every'):
        kids = [be for _, be in e[1]] + [e[2]]
    elif t == 'f':
        kids = e[2]
    elif t in ('cmp', 'ar'):
        kids = [e[2], e[3]]
    elif t == 'if':
        kids = [e[1], e[2], e[3]]
    return 1 + max([depth(k) for k in kids], default=0)


def nesting(e, inside=()) -> set[str]:
    """which focus/binding constructs occur nested in which (for the evidence histogram)"""
    out = set()
    t = e[0]
    tag = {'filter': 'pred', 'map': 'map', 'for': 'for', 'some': 'quant', 'every': 'quant'}.get(t)
    if tag:
        if inside:
            out.add('nest:' + '>'.join(inside[-2:] + (tag,)))
        inside = inside + (tag,)
    kids = []
    if t in ('comma', 'to', 'filter', 'map', 'and', 'or'):
        kids = [e[1], e[2]]
    elif t in ('for', 'some', 'every'):
        kids = [be for _, be in e[1]] + [e[2]]
    elif t == 'f':
        kids = e[2]
    elif t in ('cmp', 'ar'):
        kids = [e[2], e[3]]
    elif t == 'if':
        kids = [e[1], e[2], e[3]]
    for k in kids:
        out |= nesting(k, inside)
    return out


XP20_FUNCS_MISSING = {'head', 'tail'}


def parsers_for(e) -> list[str]:
    """which parser classes can parse the expression with the same meaning"""
    feats = features(e)
    ps = ['31']
    only31 = False
    xp2 = True
    for x in subexprs(e):
        if x[0] == 'map':
            xp2 = False
        if x[0] == 'f':
            if x[1] in XP20_FUNCS_MISSING:
                xp2 = False
            if x[1] == 'string-join':
                only31 = True      # 2.0/3.0 signature is xs:string*, 3.1 is xs:anyAtomicType*
    if not only31:
        ps.append('30')
        if xp2:
            ps.append('20')
    return ps


# --------------------------------------------------------------------------------------
# the real engine
# --------------------------------------------------------------------------------------
_PARSERS = {}


def parser_class(v: str, coll: str = 'cp'):
    if coll == 'ci':
        import functools
        key = v + '/ci'
        if key not in _PARSERS:
            _PARSERS[key] = functools.partial(parser_class(v), default_collation=CI_URI)
        return _PARSERS[key]
    if not _PARSERS:
        from elementpath import XPath2Parser
        from elementpath.xpath30 import XPath30Parser
        from elementpath.xpath31 import XPath31Parser
        _PARSERS.update({'20': XPath2Parser, '30': XPath30Parser, '31': XPath31Parser})
    return _PARSERS[v]


DOC_XML = '<r><a>1</a><b>x</b><a>2.5</a><c><a>1</a></c><b/><a>x</a><b>1</b></r>'
_DOC = {}


def document(flavour: str = 'et'):
    """the small document whose elements are the node items: (root, elements in pre-order, string values);
    flavour 'et' = xml.etree.ElementTree (primary), 'lxml' = the same text parsed by lxml.etree"""
    if flavour not in _DOC:
        if flavour == 'lxml':
            from lxml import etree as ET
        else:
            from xml.etree import ElementTree as ET
        root = ET.fromstring(DOC_XML)
        nodes = list(root.iter())                 # kept alive: the lxml proxies keep their identity
        _DOC[flavour] = dict(root=root, nodes=nodes, strings=[''.join(e.itertext()) for e in nodes],
                             index={id(e): i for i, e in enumerate(nodes)}, tree=ET.ElementTree(root))
    return _DOC[flavour]


def doc_field() -> str:
    return 'doc=' + '|'.join(('.'.join(format(ord(c), 'x') for c in sv) or '-') for sv in document()['strings'])


def atom_py(a, flavour: str = 'et'):
    t, v = a
    if t == 'n':
        return document(flavour)['nodes'][v]
    if t == 'q':
        return Decimal(v[0]).scaleb(-v[1])
    if t == 'u':
        from elementpath.datatypes import UntypedAtomic
        return UntypedAtomic(v)
    if t == 'd':
        if v == '-0':
            return -0.0
        if isinstance(v, str):
            return float(v)
        f = float(Fraction(v[0], 1 << v[1]))
        assert Fraction(f) == Fraction(v[0], 1 << v[1])
        return f
    return v


def canon_item(x) -> str:
    if isinstance(x, bool):
        return 'b:1' if x else 'b:0'
    if isinstance(x, int):
        return f'i:{x}'
    if isinstance(x, float):
        if math.isnan(x):
            return 'd:nan'
        if math.isinf(x):
            return 'd:inf' if x > 0 else 'd:-inf'
        if x == 0 and math.copysign(1, x) < 0:
            return 'd:-0'
        m, k = norm_mk(*frac_to_mk(Fraction(x)))     # exact
        return f'd:{m}/{k}'
    if isinstance(x, str):
        return 's:' + '.'.join(format(ord(c), 'x') for c in x)
    if isinstance(x, Decimal):
        if not x.is_finite():
            return f'?Decimal:{x}'
        fr = Fraction(x)
        k = 0
        while fr.denominator != 1:
            fr *= 10
            k += 1
        return f'q:{fr.numerator}/{k}'               # exact value, trailing zeros dropped
    if type(x).__name__ == 'AnyURI':
        return 'uri:' + '.'.join(format(ord(c), 'x') for c in x.value)
    if type(x).__name__ == 'UntypedAtomic':
        return 'u:' + '.'.join(format(ord(c), 'x') for c in x.value)
    idx = document()['index'].get(id(x))
    if idx is None and 'lxml' in _DOC:
        idx = _DOC['lxml']['index'].get(id(x))
    if idx is not None:
        return f'n:{idx}'
    return f'?{type(x).__name__}'


def ctx_kwargs(ctx, flavour: str = 'et') -> dict:
    item, pos, size, variables = ctx
    return dict(item=atom_py(item, flavour), position=pos, size=size,
                variables={f'v{k}': [atom_py(a, flavour) for a in v] for k, v in variables.items()})


def canon_result(r) -> str:
    from elementpath import XPathNode
    if r is None:
        return '_'
    if not isinstance(r, list):
        r = [r]
    r = [x.value if isinstance(x, XPathNode) else x for x in r]
    return ','.join(canon_item(x) for x in r) if r else '_'


def guarded(thunk) -> str:
    import elementpath
    try:
        return canon_result(thunk())
    except elementpath.ElementPathError as e:
        code = (getattr(e, 'code', None) or 'NOCODE')
        return 'ERR:' + str(code).split(':')[-1]
    except RecursionError:
        return 'ERR:OTHER:RecursionError'
    except Exception as e:  # anything else escaping is part of the behaviour
        return f'ERR:OTHER:{type(e).__name__}'


def run_impl(expr_text: str, ctx, pv: str, coll: str = 'cp') -> str:
    """the primary route: the `elementpath.select` API, a fresh parser and token tree per call"""
    import elementpath
    return guarded(lambda: elementpath.select(document()['root'], expr_text, parser=parser_class(pv, coll),
                                              **ctx_kwargs(ctx)))


# ---- the other public evaluation routes, and reuse of one token tree ------------------------
API_ROUTES = ('evaluate', 'token-select', 'iter-select', 'selector', 'reuse', 'lxml', 'document-root')
_SELECTORS: dict = {}


def other_context(ctx):
    """a different dynamic context for the same expression: other item, position, size, every variable
    reversed and extended (used to evaluate one token tree with different variable maps)"""
    item, pos, size, variables = ctx
    item2 = ('s', 'other') if item[0] != 's' else ('i', 11)
    vars2 = {k: list(reversed(v)) + [('i', 41 + k)] for k, v in variables.items()}
    return (item2, pos + 1, size + 2, vars2)


def run_route(expr_text: str, ctx, pv: str, route: str, coll: str = 'cp') -> str:
    """the same expression through another public evaluation route of the engine"""
    import elementpath
    from elementpath import XPathContext, Selector
    root = document()['root']
    cls = parser_class(pv, coll)
    if route == 'evaluate':
        return guarded(lambda: cls().parse(expr_text).evaluate(XPathContext(root, **ctx_kwargs(ctx))))
    if route == 'token-select':
        return guarded(lambda: list(cls().parse(expr_text).select(XPathContext(root, **ctx_kwargs(ctx)))))
    if route == 'iter-select':
        return guarded(lambda: list(elementpath.iter_select(root, expr_text, parser=cls, **ctx_kwargs(ctx))))
    if route == 'selector':
        return guarded(lambda: list(Selector(expr_text, parser=cls).iter_select(root, **ctx_kwargs(ctx))))
    if route == 'lxml':                      # the same document built by lxml.etree, its elements as node items
        return guarded(lambda: elementpath.select(document('lxml')['root'], expr_text, parser=cls,
                                                  **ctx_kwargs(ctx, 'lxml')))
    if route == 'document-root':             # an ElementTree (document node) as root instead of its root element
        return guarded(lambda: elementpath.select(document()['tree'], expr_text, parser=cls, **ctx_kwargs(ctx)))
    if route == 'reuse':
        # ONE Selector (one token tree) per expression text, kept for the whole run and evaluated with
        # alternating dynamic contexts; the answers for the same context must not change
        key = (expr_text, pv, coll)
        try:
            sel = _SELECTORS.get(key)
            if sel is None:
                if len(_SELECTORS) > 20000:
                    _SELECTORS.clear()
                sel = _SELECTORS[key] = Selector(expr_text, parser=cls)
        except Exception:
            return guarded(lambda: Selector(expr_text, parser=cls))
        other = other_context(ctx)
        o1 = guarded(lambda: sel.select(root, **ctx_kwargs(other)))
        r1 = guarded(lambda: sel.select(root, **ctx_kwargs(ctx)))
        o2 = guarded(lambda: list(sel.iter_select(root, **ctx_kwargs(other))))
        r2 = guarded(lambda: sel.select(root, **ctx_kwargs(ctx)))
        if r1 != r2 or o1 != o2:
            return f'ERR:OTHER:unstable[{r1}|{r2}|{o1}|{o2}]'
        return r1
    raise ValueError(route)


def routes_for(e, pvs: list[str]) -> list[tuple[str, str]]:
    """(parser, route) pairs that apply to the expression: the API routes for every parser class, the
    function-item spellings of the calls for XPath 3.0 / 3.1"""
    out = [(pv, r) for pv in pvs for r in API_ROUTES]
    if any(x[0] == 'f' and x[2] for x in subexprs(e)):
        for pv in pvs:
            if pv in ('30', '31'):
                out += [(pv, 'call:' + st) for st in CALL_STYLES if st != 'arrow' or pv == '31']
    return out


def run_any(e, ctx, pv: str, route: str, coll: str = 'cp') -> str:
    if route.startswith('call:'):
        return run_impl(text(e, route[5:]), ctx, pv, coll)
    return run_route(text(e), ctx, pv, route, coll)


def ctx_fields(ctx) -> str:
    item, pos, size, variables = ctx
    vs = ';'.join(f'{k}:' + ','.join(atom_wire(a) for a in v) for k, v in sorted(variables.items())) or '_'
    return f'item={atom_wire(item)} pos={pos} size={size} vars={vs} ' + doc_field()


DEFAULT_CTX = (('i', 7), 2, 3, {0: [('i', 3), ('i', 1), ('i', 2)], 1: [('i', 5)],
                               2: [('n', 1), ('n', 2), ('n', 3), ('n', 5), ('n', 7)]})


# --------------------------------------------------------------------------------------
# cases
# --------------------------------------------------------------------------------------
class Case:
    __slots__ = ('expr', 'ctx', 'kind', 'strict', 'note', 'pair', 'coll')

    def __init__(self, expr, ctx=DEFAULT_CTX, kind='probe', strict=True, note='', pair=None, coll='cp'):
        self.expr, self.ctx, self.kind, self.strict, self.note, self.pair = expr, ctx, kind, strict, note, pair
        self.coll = coll          # the parser's default collation: 'cp' (code points) or 'ci' (html-ascii-case-insensitive)

    def effective_collation(self) -> str:
        """the collation the (single) collation-taking call of the expression works with: the one its
        collation argument names, else the default collation of the parser"""
        kinds = {x[1][1] for x in subexprs(self.expr) if is_collarg(x)}
        assert len(kinds) <= 1, kinds
        k = next(iter(kinds), 'default')
        return self.coll if k == 'default' else k

    def line(self) -> str:
        eff = self.effective_collation()
        return ctx_fields(self.ctx) + (' coll=ci' if eff == 'ci' else '') + ' expr=' + '~'.join(wire(self.expr))

    def describe(self) -> dict:
        item, pos, size, variables = self.ctx
        return {'xpath': text(self.expr), 'kind': self.kind, 'note': self.note,
                'default_collation': CI_URI if self.coll == 'ci' else CP_URI,
                'context': {'item': atom_text(item) if item[0] != 'n' else f'node#{item[1]}', 'position': pos, 'size': size,
                            'variables': {f'v{k}': [atom_text(a) if a[0] != 'n' else f'node#{a[1]}' for a in v]
                                          for k, v in variables.items()},
                            'document': DOC_XML},
                'driver_line': self.line()}


# ---- sequences and boundary arguments ------------------------------------------------
def probe_sequences():
    ints = lambda l: [I(x) for x in l]
    return [
        ('empty', []),
        ('single', ints([4])),
        ('three', ints([10, 20, 30])),
        ('long', ints(list(range(1, 13)))),
        ('dups', ints([2, 1, 2, 3, 1, 2])),
        ('mixednum', [I(1), Dd(1), Dd(2.5), I(3), Dd(-0.5), I(1)]),
        ('nan', [Dd('nan'), I(1), Dd('nan'), Dd('inf'), Dd('-inf'), Dd('inf')]),
        ('strings', [S('b'), S('a'), S(''), S('b'), S('ab')]),
        ('bools', [B(True), B(False), B(True)]),
        ('mixed', [I(1), S('1'), B(True), Dd(1), S('a'), B(False), I(0)]),
        ('decimals', [Q('1.5'), I(2), Q('2.50'), Q('-0.5'), Q('1.50'), I(1)]),
        ('numtower', [I(1), Q('1.0'), Dd(1), Q('2.5'), Dd(2.5), I(3), Dd(-0.5), Dx(0.1), Q('0.1'), Dx(0.2)]),
        ('zeros', [Dx(-0.0), Dd(0), I(0), Q('0.0'), Dx(-0.0)]),
        ('negzeros', [Dx(-0.0), Dx(-0.0)]),
        ('untyped', [U('a'), S('a'), U('1'), I(1), S('1'), U('x'), U('')]),
        ('bigints', [I(2 ** 53 + 1), Dx(2.0 ** 53), I(2 ** 53), Q('9007199254740993.0'), I(-(2 ** 53) - 1)]),
        ('thirds', [Q('0.1'), Q('0.2'), Q('0.4')]),
    ]


def node_sequences():
    """node sequences come from variables of the dynamic context: (name, expression, length)"""
    return [('nodes', ('var', 2), 5), ('nodes-rev', F('reverse', ('var', 2)), 5),
            ('nodes-mixed', seq([('var', 2), I(1), S('x')]), 7)]


def boundary_numbers(n: int):
    """position / length arguments as expressions (integer and double spelling)"""
    vals = [-1, 0, 0.5, 1, 1.5, 2.5, n - 0.5, n, n + 0.5, n + 1, 'inf', '-inf', 'nan',
            -0.5, -1.5, 2, 1e30, -1e30, 0.25, 0.75]
    out = []
    for v in vals:
        if isinstance(v, str):
            out.append(Dd(v))
        else:
            out.append(Dd(v))
            if float(v).is_integer() and abs(v) < 1e18:
                out.append(I(int(v)))
            if abs(v) < 1e18 and v in (0.5, 1.5, 2.5, -0.5, 0.25, 1, n + 0.5):
                out.append(Q(repr(float(v))))                  # xs:decimal spelling
    out += [Q('0.49999999999999999999999'), Q('1.50000000000000000000001'), I(10 ** 400), I(-(10 ** 400))]
    return out


def boundary_ints(n: int):
    return [I(v) for v in (-(1 << 70), -1, 0, 1, 2, n - 1, n, n + 1, n + 2, 1 << 70)]


BAD_ARGS = [S('a'), S('1'), B(True), EMPTY, seq([I(1), I(2)]), Dd(1.5)]


def corpus_cases():
    """the failing inputs of the defects found so far (findings/C08.json), run first"""
    r12 = seq([I(1), I(2)])
    x, y = ('var', 5), ('var', 6)
    T = B(True)
    exprs = [
        (F('subsequence', seq([I(1), I(2), I(3)]), Dd(1e30)), 'F08a'),
        (F('subsequence', seq([I(1), I(2), I(3)]), Dd(-1e30), Dd(1e30)), 'F08a'),
        (F('subsequence', seq([I(1), I(2), I(3)]), EMPTY), 'F08c'),
        (F('subsequence', seq([I(1), I(2), I(3)]), I(1), EMPTY), 'F08c'),
        (('for', [(5, r12), (6, ('map', seq([I(0), I(1)]), ('ar', '+', x, ('dot',)))), (5, I(7))], seq([x, y])), 'F08d'),
        (('for', [(6, seq([('var', 0), ('var', 0)])), (0, I(5))], y), 'F08d'),
        (F('index-of', seq([I(1), I(2), T]), T), 'F08e'),
        (F('index-of', seq([I(1), I(2), T]), I(1)), 'F08e'),
        (F('distinct-values', seq([I(1), T])), 'F08f'),
        (F('distinct-values', seq([T, Dd(1), I(0), B(False), T, I(1)])), 'F08f'),
        (F('remove', seq([I(1), I(2), I(3)]), T), 'F08g'),
        (F('insert-before', seq([I(1), I(2), I(3)]), T, I(5)), 'F08g'),
        (F('sum', seq([T, I(1)])), 'F08h'),
        (F('sum', T), 'F08h'),
        (F('max', seq([I(1), T])), 'F08i'),
        (F('min', seq([T, Dd(2)])), 'F08i'),
        (('some', [(5, ('filter', r12, T))], ('cmp', 'eq', ('dot',), I(7))), 'F08j'),
        (('every', [(5, ('filter', r12, T))], ('cmp', 'eq', ('dot',), I(7))), 'F08j'),
        (('some', [(5, ('map', r12, ('dot',)))], ('cmp', 'eq', ('pos',), I(2))), 'F08j'),
        (F('insert-before', ('filter', r12, T), I(1), ('dot',)), 'F08k'),
        (F('insert-before', ('filter', seq([I(1), I(2), I(3)]), T), I(3), seq([('dot',), ('pos',), ('last',)])), 'F08k'),
        (('for', [(5, ('filter', ('to', I(3), I(7)), I(4))), (6, seq([('dot',), ('pos',), ('last',)]))], y), 'F08l'),
        (('every', [(5, ('filter', ('to', I(3), I(7)), I(4))), (6, F('remove', I(1), ('last',)))], EMPTY), 'F08l'),
        (seq([F('head', ('filter', ('to', I(2), I(2)), I(1))), ('pos',)]), 'F08m'),
        (seq([F('exists', ('filter', ('to', I(2), I(3)), I(1))), ('pos',), ('last',), ('dot',)]), 'F08m'),
        (seq([F('empty', ('map', ('to', I(2), I(3)), ('dot',))), ('pos',), ('last',), ('dot',)]), 'F08m'),
        (F('index-of', ('var', 2), I(1)), 'F08n'),
        (F('index-of', seq([U('1'), I(1)]), I(1)), 'F08n'),
        (F('distinct-values', seq([('var', 2), S('1'), I(1), S('x')])), 'F08n'),
        (F('distinct-values', seq([I(1), U('1'), S('1')])), 'F08n'),
        (F('index-of', seq([Q('0.1'), I(1), Q('1.0')]), Dx(0.1)), 'F08o'),
        (F('index-of', Dx(0.1), Q('0.1')), 'F08o'),
        (F('index-of', I(2 ** 53 + 1), Dx(2.0 ** 53)), 'F08o'),
        (F('distinct-values', seq([Dx(2.0 ** 53), I(2 ** 53 + 1)])), 'F08o'),
        (F('distinct-values', seq([I(2 ** 53 + 1), Dx(2.0 ** 53)])), 'F08o'),
        (F('distinct-values', seq([Q('0.10000000000000000000001'), Q('0.1')])), 'F08o'),
        (F('sum', Dx(-0.0)), 'F08p'),
        (F('sum', seq([Dx(-0.0), Dx(-0.0)])), 'F08p'),
        (F('avg', seq([Dx(-0.0), Dx(-0.0)])), 'F08p'),
        (F('sum', seq([Dx(1e100), Dd(1), Dx(-1e100)])), 'F08q'),
        (F('avg', seq([Dx(1e100), Dd(1), Dx(-1e100)])), 'F08q'),
        (F('sum', seq([Dd(1), Dx(1e100), Dd(1), Dx(-1e100)])), 'F08q'),
        (F('index-of', seq([I(10 ** 400), Dd('inf'), I(-(10 ** 400)), Dd(1)]), Dd('inf')), 'F08o-huge'),
        (F('index-of', seq([I(10 ** 400), Dd('inf'), I(-(10 ** 400)), Dd(1)]), I(10 ** 400)), 'F08o-huge'),
        (F('distinct-values', seq([I(10 ** 400), Dd('inf'), I(-(10 ** 400)), Dd('-inf'), Dd(1)])), 'F08o-huge'),
        (F('distinct-values', seq([Dd('inf'), I(10 ** 400), Dd(1)])), 'F08o-huge'),
        (F('sum', seq([Dd('inf'), I(-(10 ** 400))])), 'F08t'),
        (F('max', seq([Dd(1), I(10 ** 400)])), 'F08t'),
        (F('avg', seq([I(10 ** 400), Dd(1)])), 'F08t'),
        (F('sum', F('remove', seq([I(1), I(2)]), EMPTY)), 'F08r'),
        (seq([F('not', ('filter', ('filter', ('var', 2), ('dot',)), ('dot',))), ('dot',)]), 'F08s'),
        (seq([F('boolean', ('filter', ('var', 2), B(True))), ('dot',), ('pos',), ('last',)]), 'F08s'),
        (('for', [(0, ('var', 0))], ('var', 0)), 'F08b'),
    ]
    ab = seq([S('a'), S('A'), S('b')])
    coll = [Case(F('distinct-values', ab), kind='corpus', note='F08z', coll='ci'),
            Case(F('distinct-values', ab, COLL('ci')), kind='corpus', note='F08z'),
            Case(F('max', seq([S('a'), S('B')])), kind='corpus', note='F08aa', coll='ci'),
            Case(F('min', seq([S('b'), S('B'), S('a')]), COLL('ci')), kind='corpus', note='F08aa'),
            Case(F('index-of', ab, S('a')), kind='corpus', note='seeded: default collation in index-of/2', coll='ci')]
    big = [Case(F('avg', seq([I(10 ** 30), I(1)])), kind='corpus', note='avg beyond 28 digits (C03 eb8f3fb)'),
           Case(F('avg', seq([I(10 ** 30 + 1), I(1)])), kind='corpus', note='exact integer mean beyond 28 digits'),
           Case(F('avg', seq([I(10 ** 40), I(10 ** 40), I(10 ** 40 + 3)])), kind='corpus', note='exact integer mean'),
           Case(F('avg', seq([I(-(10 ** 30) - 1), I(-1), I(1)])), kind='corpus', note='negative total, remainder'),
           Case(F('avg', seq([I(10 ** 30 + 1), I(2)])), kind='corpus', note='rounds to an integral decimal at 28 digits'),
           Case(F('avg', seq([I(10 ** 30), Q('0.5')])), kind='corpus', note='integer and decimal beyond 28 digits')]
    return [Case(e, kind='corpus', note=n) for e, n in exprs] + coll + big


def probe_cases(thorough: bool, rng=None):
    rng = rng or random.Random(0)
    cases = corpus_cases()
    add = lambda e, note='': cases.append(Case(e, kind='probe', note=note))
    todo = [(name, seq(items), len(items), items) for name, items in probe_sequences()]
    todo += [(name, e, n, None) for name, e, n in node_sequences()]
    for idx, (name, s, n, items) in enumerate(todo):
        nums = boundary_numbers(n)
        if not thorough and idx >= 10:
            nums = nums[::3]                      # quick: positional sweep thinned for the value-level sequences
        for a in nums:
            add(F('subsequence', s, a), name)
            add(('filter', s, a), name)                       # S[a]
            for op in ('eq', 'le', 'lt', 'ge', 'gt', 'ne'):
                if a[1][0] == 'd' or op in ('eq', 'lt'):
                    add(('filter', s, ('cmp', op, ('pos',), a)), name)
        for a in nums:
            # quick: every start with a seed-dependent sample of the lengths; thorough: the full square
            for b in (nums if thorough else rng.sample(nums, min(len(nums), 5 if idx < 10 else 3))):
                add(F('subsequence', s, a, b), name)
        for p in boundary_ints(n):
            add(F('remove', s, p), name)
            for ins in (EMPTY, I(99), seq([I(98), S('z')])):
                add(F('insert-before', s, p, ins), name)
        for bad in BAD_ARGS:
            add(F('subsequence', s, bad), 'bad-arg')
            add(F('subsequence', s, I(1), bad), 'bad-arg')
            if bad[0] != 'lit' or bad[1][0] != 'd':
                add(F('subsequence', s, bad, I(1)), 'bad-arg')
            add(F('remove', s, bad), 'bad-arg')
            add(F('insert-before', s, bad, I(9)), 'bad-arg')
        for f in ('count', 'empty', 'exists', 'head', 'tail', 'reverse', 'zero-or-one', 'one-or-more',
                  'exactly-one', 'distinct-values', 'sum', 'avg', 'min', 'max', 'boolean', 'not'):
            add(F(f, s), name)
            add(F(f, F('reverse', s)), name)
        if items is None or all(x[1][0] not in ('d', 'q') for x in items):
            add(F('string-join', s), name)
            add(F('string-join', s, S('-')), name)
            add(F('string-join', s, S('')), name)
            add(F('string-join', s, I(1)), 'bad-arg')
            add(F('string-join', s, EMPTY), 'bad-arg')
        add(F('sum', s, I(5)), name)
        add(F('sum', s, EMPTY), name)
        add(F('sum', s, S('zero')), name)
        for v in [I(1), I(2), Dd(1), Dd('nan'), Dd('inf'), S('b'), S('1'), B(True), I(0), Dd(2.5), EMPTY,
                  seq([I(1), I(2)]), Q('1.0'), Q('2.50'), Dx(0.1), Q('0.1'), U('1'), U('a'), S('a'), S('x'), Dx(-0.0),
                  Q('0.0'), I(2 ** 53 + 1), Dx(2.0 ** 53), ('filter', ('var', 2), I(2)), ('filter', ('var', 2), I(1))]:
            add(F('index-of', s, v), name)
        for v in [Q('1.0'), Q('2.0'), Q('2.50'), Q('0.0'), U('2'), ('filter', ('var', 2), I(1))]:
            add(('filter', s, v), name)                      # numeric / non-numeric singleton predicates
        for v in [S('a'), S('x'), U('x'), I(1), Q('1.0'), Dd(1), B(True), Dx(0.1), Q('0.1')]:
            for op in (('eq', 'lt', 'le', 'ne', 'ge', 'gt') if thorough else ('eq', 'lt', 'ge')):
                add(('filter', s, ('cmp', op, ('dot',), v)), 'item-comparison')
            add(('some', [(5, s)], ('cmp', 'eq', ('var', 5), v)), 'item-comparison')
        add(('filter', s, ('last',)), name)
        add(('filter', s, ('ar', '-', ('last',), I(1))), name)
        add(('filter', s, ('cmp', 'eq', ('pos',), ('last',))), name)
        add(('filter', ('filter', s, ('cmp', 'gt', ('pos',), I(1))), I(1)), name)
        add(('filter', s, B(True)), name)
        add(('filter', s, B(False)), name)
        add(('filter', s, EMPTY), name)
        add(('filter', s, S('x')), name)
        add(('filter', s, seq([I(1), I(2)])), 'ebv-error')
        add(('filter', s, ('dot',)), name)
        add(('map', s, ('pos',)), name)
        add(('map', s, ('last',)), name)
        add(('map', s, seq([('dot',), ('pos',)])), name)
        add(('for', [(5, s)], seq([('var', 5), ('var', 5)])), name)
        add(('for', [(5, s), (6, seq([I(1), I(2)]))], seq([('var', 6), ('var', 5)])), name)
        add(('for', [(5, seq([I(1), I(2)])), (6, s)], seq([('var', 5), ('var', 6)])), name)
        add(('some', [(5, s)], ('f', 'boolean', [('var', 5)])), name)
        add(('every', [(5, s)], ('f', 'boolean', [('var', 5)])), name)
        add(('comma', s, F('reverse', s)), name)
        # ONE call site (one token) evaluated with DIFFERENT arguments: the loop variables carry the boundary
        # arguments, the same `subsequence` / `remove` / ... token is called once per binding
        A, Bv, BAR = ('var', 5), ('var', 6), S('|')
        sample = nums if thorough else rng.sample(nums, min(len(nums), 8))
        add(('for', [(5, seq(sample))], seq([F('subsequence', s, A), BAR])), 'call-site')
        add(('for', [(5, seq(sample)), (6, seq(sample[:5]))], seq([F('subsequence', s, A, Bv), BAR])), 'call-site')
        add(('for', [(5, seq(boundary_ints(n)))], seq([F('remove', s, A), BAR])), 'call-site')
        add(('for', [(5, seq(boundary_ints(n)))], seq([F('insert-before', s, A, I(99)), BAR])), 'call-site')
        add(('for', [(5, seq(boundary_ints(n))), (6, seq([I(98), S('z')]))],
             seq([F('insert-before', s, A, Bv), BAR])), 'call-site')
        add(('for', [(5, seq([I(1), I(2), Dd(1), S('b'), B(True), Q('2.50')]))], seq([F('index-of', s, A), BAR])),
            'call-site')
        prefix = ('filter', s, ('cmp', 'le', ('pos',), A))          # the sequence argument varies as well
        for f in ('count', 'empty', 'exists', 'head', 'tail', 'reverse', 'distinct-values', 'sum', 'avg', 'min',
                  'max', 'zero-or-one', 'one-or-more'):
            add(('for', [(5, ('to', I(0), I(n + 1)))], seq([F(f, prefix), BAR])), 'call-site')
        add(('for', [(5, ('to', I(0), I(n + 1)))], seq([F('subsequence', prefix, I(2), Dd(1.5)), BAR])), 'call-site')
    # a value that is used again after it was passed to a function (aliasing of the variable's list)
    for V in (('var', 0), ('var', 2)):
        for f in ('count', 'empty', 'exists', 'head', 'tail', 'reverse', 'distinct-values', 'min', 'max',
                  'one-or-more', 'boolean'):
            add(seq([F(f, V), V, F(f, V)]), 'aliasing')
        add(seq([F('insert-before', V, I(2), V), V]), 'aliasing')
        add(seq([F('remove', V, I(1)), V, F('subsequence', V, I(2)), V, F('subsequence', V, I(1), I(1)), V]), 'aliasing')
        add(('for', [(5, seq([I(1), I(2)]))], seq([F('reverse', V), V, F('remove', V, ('var', 5))])), 'aliasing')
        add(F('count', seq([F('tail', V), V, F('head', V)])), 'aliasing')
        add(seq([F('index-of', V, ('filter', V, I(1))), V]), 'aliasing')
        add(seq([F('distinct-values', seq([V, V])), F('count', V)]), 'aliasing')
    add(seq([F('sum', ('var', 0)), ('var', 0), F('avg', ('var', 0)), F('sum', ('var', 0), ('var', 1)), ('var', 1)]),
        'aliasing')
    for a in (-3, -1, 0, 1, 2, 5):
        for b in (-3, -1, 0, 1, 2, 5, 9):
            add(('to', I(a), I(b)))
            add(F('count', ('to', I(a), I(b))))
    for bad in BAD_ARGS + [Dd(1)]:
        add(('to', I(1), bad), 'bad-arg')
        add(('to', bad, I(3)), 'bad-arg')
    add(('to', I(1 << 70), I((1 << 70) + 2)))
    add(F('count', ('to', I(1), I(20000))))
    # quantifiers: empty ranges, several variables, effective boolean values
    r12, r34 = seq([I(1), I(2)]), seq([I(3), I(4)])
    for q in ('some', 'every'):
        add((q, [(5, EMPTY)], B(False)))
        add((q, [(5, EMPTY)], B(True)))
        add((q, [(5, r12), (6, EMPTY)], B(q == 'some')))
        add((q, [(5, r12), (6, r34)], ('cmp', 'eq', ('ar', '+', ('var', 5), ('var', 6)), I(6))))
        add((q, [(5, r12), (6, r34)], ('cmp', 'lt', ('var', 5), ('var', 6))))
        add((q, [(5, r12)], EMPTY))
        add((q, [(5, r12)], I(0)))
        add((q, [(5, r12)], seq([('var', 5), ('var', 5)])), 'ebv-error')
        add((q, [(5, r12)], S('')))
        add((q, [(5, seq([I(1), S('a')]))], ('cmp', 'eq', ('var', 5), I(1))), 'type-error-after-witness')
        add((q, [(5, seq([S('a'), I(1)]))], ('cmp', 'eq', ('var', 5), I(1))), 'type-error')
    # dependent ranges and shadowing inside one clause
    x, y = ('var', 5), ('var', 6)
    add(('for', [(5, r12), (6, ('to', I(1), x))], ('ar', '+', ('ar', '*', x, I(10)), y)))
    add(('for', [(5, r12), (6, ('map', seq([I(0), I(1)]), ('ar', '+', x, ('dot',)))), (5, I(7))], seq([x, y])),
        'rebinding')
    add(('for', [(5, r12), (6, ('filter', seq([I(0), I(1)]), ('cmp', 'gt', ('ar', '+', x, ('dot',)), I(1)))),
                 (5, I(7))], seq([x, y])), 'rebinding')
    add(('some', [(5, r12), (6, ('map', seq([I(0), I(1)]), ('ar', '+', x, ('dot',)))), (5, I(7))],
         ('cmp', 'eq', y, I(8))), 'rebinding')
    add(('for', [(5, r12), (6, seq([x, ('ar', '+', x, I(1))])), (5, I(7))], seq([x, y])), 'rebinding')
    add(('for', [(0, I(10))], ('for', [(6, seq([('var', 0), ('var', 0)])), (0, seq([I(5), I(6)]))], seq([y, ('var', 0)]))),
        'rebinding')
    # known finding F08b: the name of a clause variable occurs (bound elsewhere) in its range expression
    add(('for', [(0, ('var', 0))], ('var', 0)), 'F08b')
    add(('for', [(5, ('for', [(5, r12)], ('var', 5)))], ('var', 5)), 'F08b')
    add(('some', [(0, ('filter', ('var', 0), ('cmp', 'gt', ('dot',), I(1))))], ('cmp', 'eq', ('var', 0), I(2))), 'F08b')
    # admitted since the partial repair of F08b: the occurrence is bound inside the range expression or by a
    # previous clause of the same expression
    add(('for', [(5, r12), (5, seq([('var', 5), I(9)]))], ('var', 5)), 'F08b-repaired')
    add(('some', [(5, r12), (5, seq([('var', 5), I(9)]))], ('cmp', 'eq', ('var', 5), I(9))), 'F08b-repaired')
    add(('every', [(5, ('some', [(5, r12)], ('cmp', 'eq', ('var', 5), I(2))))], ('var', 5)), 'F08b-repaired')
    add(('for', [(5, r12), (6, ('for', [(5, seq([I(5), I(6)]))], ('ar', '+', ('var', 5), I(1))))],
         ('ar', '+', ('var', 5), ('var', 6))), 'F08b-repaired')
    add(('for', [(5, seq([('var', 5), I(1)])), (5, I(2))], ('var', 5)), 'F08b')       # still rejected: free in the first clause
    add(('for', [(0, r12)], ('for', [(0, seq([('var', 0), I(9)]))], ('var', 0))), 'F08b')  # outer binding not seen
    add(F('sum', ('var', 2)), 'F08u')
    add(F('sum', ('filter', ('var', 2), I(2)), I(0)), 'F08u')
    add(('var', 0)); add(('var', 1)); add(('dot',)); add(('pos',)); add(('last',))
    add(('filter', ('var', 0), ('cmp', 'gt', ('dot',), ('var', 1))))
    return cases


# ---- collations ------------------------------------------------------------------------
COLL_STRINGS = ['a', 'A', 'b', 'B', 'ab', 'AB', 'Ab', 'aB', 'abc', 'z', 'Z', '[', '_', '^', '`', '{', '@', '', ' a',
                'a ', '\u00e9', '\u00c9', '\u0131', 'I', 'i', 'K', '\u212a', '1', 'ss', '\u00df', 'aa', 'Aa']


def coll_sequences(rng, n: int):
    """sequences of xs:string / xs:untypedAtomic items (a few numbers and booleans mixed in) that contain items equal
    under html-ascii-case-insensitive but not code-point equal"""
    fixed = [[S('a'), S('A'), S('b')], [S('B'), S('a'), S('b'), S('A')], [S('Z'), S('['), S('a'), S('_'), S('z')],
             [U('a'), S('A'), U('A'), S('a')], [S('\u00e9'), S('\u00c9'), S('E'), S('e')], [S('K'), S('\u212a'), S('k')],
             [S('ab'), S('AB'), S('Ab'), S('aB'), S('abc')], [S('a'), I(1), S('A'), B(True), S('1')], [], [S('A')],
             [S('b'), S('B')], [S('B'), S('b')], [U('b'), U('B')], [S(''), S('a'), S('')], [S('I'), S('\u0131'), S('i')]]
    out = list(fixed)
    for _ in range(n):
        k = rng.randint(0, 6)
        items = []
        for _ in range(k):
            w = rng.choice(COLL_STRINGS)
            r = rng.random()
            items.append(U(w) if r < 0.2 else I(rng.randint(0, 2)) if r < 0.25 else S(w))
        out.append(items)
    return out


def collation_cases(rng, thorough: bool):
    """index-of, distinct-values, min, max with a parser whose DEFAULT collation is html-ascii-case-insensitive (the
    forms without a collation argument must use it), with `default-collation()` and with the URI as explicit
    collation argument under either default; every case is judged against model and spec evaluated with the
    collation the call has to use, and the spellings are compared with each other"""
    out = []

    def variants(name, mk):
        """mk(extra_args) -> expression"""
        two = Case(mk([]), kind='collation', note=name, coll='ci')                        # default collation
        dflt = Case(mk([COLL('default')]), kind='equiv:collation-default', note=name, coll='ci')
        two_pair = Case(mk([]), kind='equiv:collation-default', note=name, coll='ci')
        two_pair.pair = dflt                          # f(S, x) = f(S, x, default-collation())
        expl = Case(mk([COLL('ci')]), kind='collation', note=name, coll='cp')            # named, default = code points
        expl2 = Case(mk([COLL('ci')]), kind='collation', note=name, coll='ci')
        back = Case(mk([COLL('cp')]), kind='collation', note=name, coll='ci')            # named code points, default ci
        dflt_cp = Case(mk([COLL('default')]), kind='collation', note=name, coll='cp')
        out.extend([two, two_pair, dflt, expl, expl2, back, dflt_cp])

    seqs = coll_sequences(rng, 12 if not thorough else 150)
    for items in seqs:
        s = seq(items)
        for wrap in (lambda x: x, lambda x: F('reverse', x)):
            sx = wrap(s)
            variants('distinct-values', lambda extra, sx=sx: F('distinct-values', sx, *extra))
            variants('max', lambda extra, sx=sx: F('max', sx, *extra))
            variants('min', lambda extra, sx=sx: F('min', sx, *extra))
            searches = [S('a'), S('A'), U('b'), S('\u00c9'), S('k'), I(1), S('AB'), S('')]
            for v in (searches if thorough else rng.sample(searches, 3)):
                variants('index-of', lambda extra, sx=sx, v=v: F('index-of', sx, v, *extra))
            if not thorough:
                break
    return out


# ---- equivalences ---------------------------------------------------------------------
def equivalence_cases(rng, thorough: bool):
    """pairs (lhs, rhs) whose values the standard declares equal"""
    out = []
    pos = ('pos',)

    def pair(name, l, r, ctx=DEFAULT_CTX):
        a = Case(l, ctx, kind='equiv:' + name)
        b = Case(r, ctx, kind='equiv:' + name)
        a.pair = b
        out.append(a)
        out.append(b)

    seqs = [s for _, s in probe_sequences()]
    if not thorough:
        seqs = seqs[:10] + seqs[10::3]           # quick: the value-level sequences are thinned
    for items in seqs:
        s = seq(items)
        n = len(items)
        nums = boundary_numbers(n)
        # F&O rounds the position arguments after their promotion to xs:double; the filter form rounds
        # the literal itself, so the pair is formed where the promotion is exact
        nums = [x for x in nums if not (x[0] == 'lit' and (
            (x[1][0] == 'i' and abs(x[1][1]) > 1 << 53) or (x[1][0] == 'q' and abs(x[1][1][0]) > 10 ** 15)))]
        for a in (nums if thorough else rng.sample(nums, 14)):
            ra = F('round', a)
            pair('subsequence2-as-filter', F('subsequence', s, a), ('filter', s, ('cmp', 'le', ra, pos)))
            for b in (nums if thorough else rng.sample(nums, 2)):
                rb = F('round', b)
                pair('subsequence-as-filter', F('subsequence', s, a, b),
                     ('filter', s, ('and', ('cmp', 'le', ra, pos), ('cmp', 'lt', pos, ('ar', '+', ra, rb)))))
        pair('reverse-reverse', F('reverse', F('reverse', s)), s)
        pair('head-tail', seq([F('head', s), F('tail', s)]), s)
        pair('head-is-first', F('head', s), ('filter', s, I(1)))
        pair('tail-is-subsequence', F('tail', s), F('subsequence', s, I(2)))
        pair('last-is-reverse-head', ('filter', s, ('last',)), F('head', F('reverse', s)))
        pair('last-is-count', ('filter', s, ('last',)), ('filter', s, F('count', s)))
        pair('exists-not-empty', F('exists', s), F('not', F('empty', s)))
        pair('count-append', F('count', seq([s, F('reverse', s), I(1)])),
             ('ar', '+', ('ar', '+', F('count', s), F('count', F('reverse', s))), I(1)))
        pair('map-as-for', ('map', s, seq([('dot',), ('dot',)])), ('for', [(5, s)], seq([('var', 5), ('var', 5)])))
        pair('zero-or-one-id', F('count', F('one-or-more', seq([s, I(1)]))), ('ar', '+', F('count', s), I(1)))
        for p in boundary_ints(n):
            pair('remove-as-filter', F('remove', s, p), ('filter', s, ('cmp', 'ne', pos, p)))
            pair('position-eq-n', ('filter', s, ('cmp', 'eq', pos, p)), ('filter', s, p))
            pv = p[1][1]
            eff = 1 if pv < 1 else (n + 1 if pv > n else pv)
            ins = seq([I(98), S('z')])
            pair('insert-before-definition', F('insert-before', s, p, ins),
                 seq([F('subsequence', s, I(1), I(eff - 1)), ins, F('subsequence', s, I(eff))]))
            if 1 <= pv <= n + 1:
                pair('remove-insert', F('remove', F('insert-before', s, p, I(99)), p), s)
        pair('index-of-definition', F('index-of', s, I(1)),
             ('for', [(5, ('to', I(1), F('count', s)))],
              ('filter', ('var', 5), ('cmp', 'eq', ('filter', s, ('var', 5)), I(1))))) \
            if all(x[1][0] in ('i', 'd') for x in items) else None
    # quantifier duality and flattening of multi-variable clauses, on random conditions
    g = Gen(rng)
    for _ in range(120 if not thorough else 1500):
        env = Env()
        b1 = (g.fresh(env), g.iseq(2, env))
        env2 = env.bind(b1[0])
        b2 = (g.fresh(env2), g.iseq(2, env2))
        env3 = env2.bind(b2[0])
        cond = g.boolean(2, env3)
        body = g.iseq(2, env3)
        if loop_var_in_range(('for', [b1, b2], seq([cond, body]))):
            continue
        pair('every-not-some-not', ('every', [b1, b2], cond), F('not', ('some', [b1, b2], F('not', cond))))
        pair('some-not-every-not', ('some', [b1, b2], cond), F('not', ('every', [b1, b2], F('not', cond))))
        pair('for-multi-as-nested', ('for', [b1, b2], body), ('for', [b1], ('for', [b2], body)))
        pair('some-multi-as-nested', ('some', [b1, b2], cond), ('some', [b1], ('some', [b2], cond)))
        a, b = rng.randint(-3, 6), rng.randint(-3, 9)
        pair('range-length', F('count', ('to', I(a), I(b))), I(max(0, b - a + 1)))
    return out


# ---- random typed expressions ---------------------------------------------------------
class Env:
    """what is in scope: item variables (single integers), sequence variables, focus"""
    def __init__(self, ivars=(), svars=(0,), focus=True, next_id=10, nvars=()):
        self.nvars = tuple(nvars)
        self.ivars, self.svars, self.focus, self.next_id = tuple(ivars), tuple(svars), focus, next_id

    def bind(self, vid):
        return Env(tuple(v for v in self.ivars if v != vid) + (vid,), tuple(v for v in self.svars if v != vid),
                   self.focus, max(self.next_id, vid + 1), tuple(v for v in self.nvars if v != vid))

    def bind_node(self, vid):
        return Env(tuple(v for v in self.ivars if v != vid), tuple(v for v in self.svars if v != vid),
                   self.focus, max(self.next_id, vid + 1), tuple(v for v in self.nvars if v != vid) + (vid,))

    def with_focus(self):
        return Env(self.ivars, self.svars, True, self.next_id, self.nvars)

    def with_node_focus(self):
        return Env(self.ivars, self.svars, 'node', self.next_id, self.nvars)


class Gen:
    def __init__(self, rng):
        self.rng = rng

    def fresh(self, env: Env) -> int:
        r = self.rng.random()
        if r < 0.12 and env.ivars:
            return self.rng.choice(env.ivars)          # shadowing of a bound variable
        if r < 0.17 and env.svars:
            return self.rng.choice(env.svars)          # shadowing of an external variable
        return env.next_id + self.rng.randrange(3)

    def int_lit(self):
        return I(self.rng.choice([0, 1, 1, 2, 2, 3, 4, 5, -1, 7, 10]))

    ERR_RATE = 0.012

    def err_leaf(self, want: str):
        """a subexpression that raises a dynamic error when (and only when) it is evaluated"""
        rng = self.rng
        pool = [F('exactly-one', EMPTY), F('one-or-more', EMPTY), F('zero-or-one', seq([I(1), I(2)])),
                ('ar', '+', I(1), S('a')), ('cmp', 'eq', seq([I(1), I(2)]), I(1)), F('boolean', seq([I(1), I(2)])),
                ('cmp', 'lt', I(1), S('a')), F('remove', seq([I(1), I(2)]), EMPTY), ('to', I(1), S('x')),
                F('sum', S('a')), F('subsequence', seq([I(1)]), S('a'))]
        return rng.choice(pool)

    def integer(self, d: int, env: Env):
        """an expression whose value is one integer (or, rarely, empty)"""
        rng = self.rng
        if rng.random() < self.ERR_RATE:
            return self.err_leaf('int')
        r = rng.random()
        if d <= 0 or r < 0.25:
            opts = [self.int_lit(), self.int_lit()]
            if env.ivars:
                opts += [('var', rng.choice(env.ivars))] * 3
            if env.focus == 'node':
                opts += [('pos',), ('last',)]
            elif env.focus:
                opts += [('dot',), ('pos',), ('last',)]
            opts.append(('var', 1))
            return rng.choice(opts)
        if r < 0.45:
            return ('ar', rng.choice(['+', '-', '*', '+']), self.integer(d - 1, env), self.integer(d - 1, env))
        if r < 0.6:
            return F('count', self.iseq(d - 1, env) if rng.random() < 0.8 else self.nseq(d - 1, env))
        if r < 0.7:
            return F(rng.choice(['sum', 'max', 'min']), self.iseq(d - 1, env))
        if r < 0.8:
            return ('filter', self.iseq(d - 1, env), self.integer(d - 1, env.with_focus()))
        if r < 0.86:
            return F('head', self.iseq(d - 1, env))
        if r < 0.92:
            return ('if', self.boolean(d - 1, env), self.integer(d - 1, env), self.integer(d - 1, env))
        return F(rng.choice(['zero-or-one', 'exactly-one']), self.integer(d - 1, env))

    def number(self, d: int, env: Env):
        """a position / length argument: integer expression or double literal"""
        rng = self.rng
        if rng.random() < 0.45:
            return self.integer(d, env)
        if rng.random() < 0.2:
            return Q(rng.choice(['0.5', '1.5', '2.5', '1.0', '2.25', '0.49', '3.50', '-0.5']))      # xs:decimal positions
        return Dd(rng.choice([0.5, 1.5, 2.5, 1.5, 0.5, 2.5, 3.5, -0.5, 1, 2, 3, 1, 2, 0, 0.25, 1.75, 'inf', '-inf', 'nan',
                              4.5, 2.0, 1.0]))

    def boolean(self, d: int, env: Env):
        rng = self.rng
        r = rng.random()
        if d <= 0 or r < 0.45:
            op = rng.choice(['eq', 'ne', 'lt', 'le', 'gt', 'ge'])
            return ('cmp', op, self.integer(max(d - 1, 0), env), self.integer(max(d - 1, 0), env))
        if r < 0.6:
            return (rng.choice(['and', 'or']), self.boolean(d - 1, env), self.boolean(d - 1, env))
        if r < 0.68:
            return F('not', self.boolean(d - 1, env))
        if r < 0.78:
            if rng.random() < 0.25:
                return F(rng.choice(['empty', 'exists', 'boolean', 'not']), self.nseq(d - 1, env))
            return F(rng.choice(['empty', 'exists']), self.iseq(d - 1, env))
        if r < 0.94:
            binds, env2 = self.bindings(d - 1, env)
            return (rng.choice(['some', 'every']), binds, self.boolean(d - 1, env2))
        return F('boolean', self.integer(d - 1, env))

    def bindings(self, d: int, env: Env):
        n = self.rng.choice([1, 1, 2, 2, 3])
        binds = []
        for _ in range(n):
            vid = self.fresh(env)
            binds.append((vid, self.iseq(d, env)))
            env = env.bind(vid)
        return binds, env

    def iseq(self, d: int, env: Env):
        """an expression whose value is a sequence of integers"""
        rng = self.rng
        if rng.random() < self.ERR_RATE:
            k = rng.random()
            e = self.err_leaf('seq')
            if k < 0.5:      # items first, then the error: lazy consumers may not reach it
                return ('comma', self.iseq(max(d - 1, 0), env), e)
            if k < 0.75 and env is not None:
                return ('map', seq([self.int_lit(), self.int_lit(), self.int_lit()]),
                        ('if', ('cmp', 'lt', ('pos',), I(rng.choice([2, 3]))), ('dot',), e))
            return e
        r = rng.random()
        if d <= 0 or r < 0.18:
            k = rng.random()
            if k < 0.45:
                return seq([self.int_lit() for _ in range(rng.choice([0, 1, 2, 3, 3, 4, 5]))])
            if k < 0.7:
                a = rng.choice([-1, 0, 1, 1, 2, 3])
                return ('to', I(a), I(a + rng.choice([-1, 0, 1, 2, 3, 4])))
            if k < 0.85 and env.svars:
                return ('var', rng.choice(env.svars))
            return self.integer(0, env)
        if r < 0.26:
            return ('comma', self.iseq(d - 1, env), self.iseq(d - 1, env))
        if r < 0.42:
            f = env.with_focus()
            pred = self.boolean(d - 1, f) if rng.random() < 0.75 else self.number(d - 1, f)
            return ('filter', self.iseq(d - 1, env), pred)
        if r < 0.5:
            return ('map', self.iseq(d - 1, env), self.iseq(d - 1, env.with_focus()))
        if r < 0.64:
            binds, env2 = self.bindings(d - 1, env)
            return ('for', binds, self.iseq(d - 1, env2))
        if r < 0.67:
            return self.lifted_call(d, env)
        if r < 0.72:
            if rng.random() < 0.5:
                return F('subsequence', self.iseq(d - 1, env), self.number(d - 1, env))
            return F('subsequence', self.iseq(d - 1, env), self.number(d - 1, env), self.number(d - 1, env))
        if r < 0.77:
            return F('remove', self.iseq(d - 1, env), self.integer(d - 1, env))
        if r < 0.82:
            return F('insert-before', self.iseq(d - 1, env), self.integer(d - 1, env), self.iseq(d - 1, env))
        if r < 0.9:
            return F(rng.choice(['reverse', 'tail', 'distinct-values', 'head', 'one-or-more']), self.iseq(d - 1, env))
        if r < 0.94:
            return F('index-of', self.iseq(d - 1, env), self.integer(d - 1, env))
        if r < 0.97:
            return ('to', self.integer(d - 1, env), self.integer(d - 1, env))
        return ('if', self.boolean(d - 1, env), self.iseq(d - 1, env), self.iseq(d - 1, env))

    def lifted_call(self, d: int, env: Env):
        """ONE call site evaluated with DIFFERENT arguments: `for $a in (..), $b in (..) return f(S, $a, $b)`;
        the position arguments reach the function through variables, several calls per token"""
        rng = self.rng
        s = self.iseq(d - 1, env)
        va = self.fresh(env)
        vb = self.fresh(env.bind(va))
        A, Bv = ('var', va), ('var', vb)
        nums = lambda: seq([self.number(0, env) for _ in range(rng.choice([2, 3, 3, 4]))])
        ints = lambda: seq([self.integer(0, env) for _ in range(rng.choice([2, 3, 3, 4]))])
        k = rng.random()
        if k < 0.3:
            return ('for', [(va, nums())], F('subsequence', s, A))
        if k < 0.6:
            return ('for', [(va, nums()), (vb, nums())], F('subsequence', s, A, Bv))
        if k < 0.75:
            return ('for', [(va, ints())], F('remove', s, A))
        if k < 0.9:
            return ('for', [(va, ints())], F('insert-before', s, A, self.int_lit()))
        return ('for', [(va, ints())], F('index-of', s, A))

    # ---- node sequences (items of $v2 and node variables bound by for) ----------------------
    def nseq(self, d: int, env: Env):
        rng = self.rng
        r = rng.random()
        if d <= 0 or r < 0.25:
            if env.nvars and rng.random() < 0.4:
                return ('var', rng.choice(env.nvars))
            return ('var', 2)
        if r < 0.35:
            return ('comma', self.nseq(d - 1, env), self.nseq(d - 1, env))
        if r < 0.55:
            f = env.with_node_focus()
            k = rng.random()
            if k < 0.4:
                pred = ('cmp', rng.choice(['eq', 'ne', 'lt', 'ge']), ('dot',), S(rng.choice(['x', '1', '2.5', ''])))
            elif k < 0.7:
                pred = ('cmp', rng.choice(['le', 'lt', 'ge', 'eq']), ('pos',), self.integer(d - 1, f)) \
                    if rng.random() < 0.5 else self.number(d - 1, f)
            elif k < 0.85:
                pred = self.nseq(d - 1, env)               # effective boolean value of a node sequence
            else:
                pred = ('cmp', 'eq', ('pos',), ('last',))
            return ('filter', self.nseq(d - 1, env), pred)
        if r < 0.63:
            return F(rng.choice(['reverse', 'tail', 'head', 'one-or-more']), self.nseq(d - 1, env))
        if r < 0.72:
            if rng.random() < 0.5:
                return F('subsequence', self.nseq(d - 1, env), self.number(d - 1, env))
            return F('subsequence', self.nseq(d - 1, env), self.number(d - 1, env), self.number(d - 1, env))
        if r < 0.78:
            return F('remove', self.nseq(d - 1, env), self.integer(d - 1, env))
        if r < 0.84:
            return F('insert-before', self.nseq(d - 1, env), self.integer(d - 1, env), self.nseq(d - 1, env))
        if r < 0.92:
            vid = self.fresh(env)
            src = self.nseq(d - 1, env)
            env2 = env.bind_node(vid)
            return ('for', [(vid, src)], self.nseq(d - 1, env2))
        if r < 0.96:
            return ('map', self.nseq(d - 1, env), ('dot',))
        return ('if', self.boolean(d - 1, env), self.nseq(d - 1, env), self.nseq(d - 1, env))

    # ---- numeric tower ------------------------------------------------------------------------
    DYADIC_DEC = ['0.5', '1.5', '2.25', '0.125', '3.0', '-0.75', '2.50', '1.0', '0.0']
    OTHER_DEC = ['0.1', '0.3', '1.1', '2.75', '-0.2', '10.01', '0.10']
    DOUBLES = [0.5, 1.5, 2.0, 1.0, -0.25, 2.25, 3.0, 0.0, -0.0, 8.0]

    def numlit(self, flavour: str):
        rng = self.rng
        k = rng.random()
        if flavour == 'dec':                # integers and decimals: sums are exact decimals
            return self.int_lit() if k < 0.4 else Q(rng.choice(self.DYADIC_DEC + self.OTHER_DEC))
        if flavour == 'dbl':                # integers, dyadic decimals and short doubles: sums are exact doubles
            if k < 0.3:
                return self.int_lit()
            if k < 0.5:
                return Q(rng.choice(self.DYADIC_DEC))
            if k < 0.95:
                return Dx(rng.choice(self.DOUBLES))
            return Dd(rng.choice(['nan', 'inf', '-inf']))
        return Dx(rng.choice(self.DOUBLES))

    def numseq(self, d: int, env: Env, flavour=None):
        rng = self.rng
        flavour = flavour or rng.choice(['dec', 'dbl'])
        r = rng.random()
        if d <= 0 or r < 0.45:
            return seq([self.numlit(flavour) for _ in range(rng.choice([0, 1, 2, 3, 3, 4, 5]))])
        if r < 0.55:
            return ('comma', self.numseq(d - 1, env, flavour), self.numseq(d - 1, env, flavour))
        if r < 0.65:
            return F(rng.choice(['reverse', 'tail', 'distinct-values']), self.numseq(d - 1, env, flavour))
        if r < 0.75:
            return F('subsequence', self.numseq(d - 1, env, flavour), self.number(d - 1, env))
        if r < 0.85:
            f = env.with_focus()
            return ('filter', self.numseq(d - 1, env, flavour),
                    ('cmp', rng.choice(['lt', 'le', 'gt', 'ge', 'eq', 'ne']), ('dot',), self.numlit(flavour)))
        if r < 0.92:
            return ('comma', self.numseq(d - 1, env, flavour), self.iseq(d - 1, env))
        vid = self.fresh(env)
        return ('for', [(vid, self.iseq(d - 1, env))], self.numseq(d - 1, env.bind(vid), flavour))

    def numeric(self, d: int, env: Env):
        """one numeric value (or empty) of any of the three types"""
        rng = self.rng
        flavour = rng.choice(['dec', 'dbl'])
        r = rng.random()
        if d <= 0 or r < 0.2:
            return self.numlit(flavour)
        if r < 0.12:
            # aggregates over nodes / untypedAtomic values: atomization and the cast to xs:double
            src = self.nseq(d - 1, env) if rng.random() < 0.6 else \
                seq([rng.choice([U('2'), U('1.5'), U(' 3 '), U('1e1'), U('-0'), U('INF'), I(2), Dx(0.5), U('x')])
                     for _ in range(rng.randint(1, 4))])
            if rng.random() < 0.5:
                src = ('filter', src, ('cmp', 'ne', ('dot',), S('x')))
            return F(rng.choice(['sum', 'avg', 'min', 'max']), src)
        if r < 0.7:
            return F(rng.choice(['sum', 'avg', 'min', 'max', 'sum', 'avg']), self.numseq(d - 1, env, flavour))
        if r < 0.8:
            # operands stay short: the 28-digit rounding of xs:decimal products is not modelled
            return ('ar', rng.choice(['+', '-', '*']), self.numlit(flavour),
                    F(rng.choice(['sum', 'min', 'max']), self.numseq(d - 1, env, flavour)) if rng.random() < 0.6
                    else self.numlit(flavour))
        if r < 0.9:
            return F('round', self.numeric(d - 1, env))
        return F('head', self.numseq(d - 1, env, flavour))

    def top(self, d: int):
        env = Env()
        r = self.rng.random()
        if r < 0.5:
            return self.iseq(d, env)
        if r < 0.62:
            return self.boolean(d, env)
        if r < 0.7:
            return self.integer(d, env)
        if r < 0.82:
            k = self.rng.random()
            n = self.nseq(d, env)
            if k < 0.6:
                return n
            if k < 0.7:
                return F('distinct-values', n)
            if k < 0.8:
                return F('index-of', n, S(self.rng.choice(['x', '1', '2.5'])))
            if k < 0.9:
                return ('map', n, seq([('pos',), ('last',)]))
            return F('string-join', n, S('|'))
        if r < 0.92:
            k = self.rng.random()
            if k < 0.5:
                return self.numeric(d, env)
            ns = self.numseq(d, env)
            if k < 0.7:
                return ns
            if k < 0.85:
                return F('index-of', ns, self.numlit(self.rng.choice(['dec', 'dbl'])))
            return F('distinct-values', ns)
        return ('cmp', self.rng.choice(['eq', 'lt', 'le', 'ne']), self.numeric(d - 1, env), self.numeric(d - 1, env))

    def ctx(self):
        rng = self.rng
        size = rng.randint(1, 5)
        return (('i', rng.randint(0, 9)), rng.randint(1, size), size,
                {0: [('i', rng.randint(0, 6)) for _ in range(rng.randint(0, 4))], 1: [('i', rng.randint(0, 5))],
                 2: [('n', rng.randint(0, 8)) for _ in range(rng.randint(0, 5))]})


def loop_var_in_range(e) -> bool:
    """python twin of `Expr.loopVarInRange` (only used to keep the random stream off finding F08b;
    tagging uses the driver's flag)"""
    def tokens(x):
        for y in subexprs(x):
            if y[0] == 'var':
                yield y[1]
            elif y[0] in ('for', 'some', 'every'):
                for vid, _ in y[1]:
                    yield vid
    for x in subexprs(e):
        if x[0] in ('for', 'some', 'every'):
            for vid, be in x[1]:
                if vid in set(tokens(be)):
                    return True
    return False


MAX_LEN, MAX_ABS = 4000, 100000


def bounds(e, env):
    """sound upper bounds (length of the value, absolute value of its integers) of an expression;
    env: {'vars': {id: (len, abs)}, 'dot': abs, 'size': n}.  Used to keep the random stream within
    what the interpreted Lean driver evaluates without deep recursion."""
    t = e[0]
    if t == 'lit':
        a = e[1]
        return (1, abs(a[1]) if a[0] == 'i' else (abs(a[1][0]) if a[0] == 'q' else 8))
    if t == 'empty':
        return (0, 0)
    if t == 'var':
        return env['vars'].get(e[1], (6, 9))
    if t == 'dot':
        return (1, env['dot'])
    if t in ('pos', 'last'):
        return (1, env['size'])
    if t == 'comma':
        a, b = bounds(e[1], env), bounds(e[2], env)
        return (a[0] + b[0], max(a[1], b[1]))
    if t == 'to':
        a, b = bounds(e[1], env), bounds(e[2], env)
        return (a[1] + b[1] + 1, max(a[1], b[1]))
    if t in ('filter', 'map'):
        a = bounds(e[1], env)
        inner = dict(env, dot=a[1], size=max(a[0], 1))
        if t == 'filter':
            bounds(e[2], inner)
            return a
        b = bounds(e[2], inner)
        return (a[0] * b[0], b[1])
    if t in ('for', 'some', 'every'):
        env2 = dict(env, vars=dict(env['vars']))
        n = 1
        for vid, be in e[1]:
            b = bounds(be, env2)
            n *= max(b[0], 1)
            env2['vars'][vid] = (1, b[1])
        body = bounds(e[2], env2)
        if t == 'for':
            return (n * body[0], body[1])
        return (min(n, MAX_LEN + 1) if n > MAX_LEN else 1, 1)
    if t == 'f':
        args = [bounds(a, env) for a in e[2]]
        name = e[1]
        a = args[0]
        if name in ('count',):
            return (1, a[0])
        if name in ('sum',):
            return (1, max(a[0] * a[1], args[1][1] if len(args) > 1 else 0))
        if name in ('avg', 'min', 'max', 'round'):
            return (1, a[1])
        if name in ('empty', 'exists', 'not', 'boolean', 'string-join'):
            return (1, 1)
        if name == 'index-of':
            return (a[0], a[0])
        if name == 'insert-before':
            return (a[0] + args[2][0], max(a[1], args[2][1]))
        return a                      # subsequence, remove, reverse, head, tail, distinct-values, cardinality
    if t in ('cmp', 'and', 'or'):
        for k in e[1:]:
            if isinstance(k, tuple):
                bounds(k, env)
        return (1, 1)
    if t == 'ar':
        a, b = bounds(e[2], env), bounds(e[3], env)
        return (1, a[1] * b[1] if e[1] == '*' else a[1] + b[1])
    if t == 'if':
        bounds(e[1], env)
        a, b = bounds(e[2], env), bounds(e[3], env)
        return (max(a[0], b[0]), max(a[1], b[1]))
    raise ValueError(e)


class TooBig(Exception):
    pass


def within_bounds(e, ctx) -> bool:
    """every subexpression stays below MAX_LEN items / MAX_ABS"""
    item, pos, size, variables = ctx
    env = {'vars': {k: (len(v), max([abs(a[1]) for a in v if a[0] == 'i'] + [1])) for k, v in variables.items()},
           'dot': abs(item[1]) if item[0] == 'i' else 8, 'size': size}
    # bounds() recurses through all subexpressions with the right environments; wrap it so that
    # every intermediate result is checked
    global bounds
    plain = bounds
    try:
        def wrapped(x, env):
            b = plain(x, env)
            if b[0] > MAX_LEN or b[1] > MAX_ABS:
                raise TooBig()
            return b
        bounds = wrapped
        try:
            wrapped(e, env)
            return True
        except TooBig:
            return False
    finally:
        bounds = plain


def random_cases(rng, n: int, maxdepth: int):
    g = Gen(rng)
    out = []
    while len(out) < n:
        d = rng.randint(2, maxdepth)
        e = g.top(d)
        if loop_var_in_range(e):
            continue
        if rng.random() < 0.3:
            # canaries: focus and variables of the caller must be untouched after E
            e = seq([e, ('dot',), ('pos',), ('last',), ('var', 0), ('var', 1)])
        ctx = g.ctx()
        if not within_bounds(e, ctx):
            continue
        out.append(Case(e, ctx, kind='random', strict=False))
    return out


def kernel_probe(run: Run):
    """the shared arithmetic primitives of model and spec against CPython: `rnd` = float(Fraction),
    `roundSig28` = Decimal division in the default 28-digit context"""
    rng = run.rng
    pairs = []
    specials = [1, 3, 7, 10, 2 ** 52, 2 ** 53, 2 ** 53 + 1, 2 ** 53 - 1, 2 ** 54 + 2, 10 ** 22, 10 ** 23, 2 ** 1023, 2 ** 1024,
                2 ** 1074, 10 ** 308, 10 ** 309, 5, 9007199254740993, 3 * 2 ** 52 + 1]
    for n in specials:
        for d in specials:
            pairs.append((n, d)); pairs.append((-n, d))
    for _ in range(run.scale(900, 15000)):
        nb, db = rng.choice([8, 30, 53, 54, 64, 120, 1100]), rng.choice([1, 8, 30, 53, 64, 120, 1100])
        pairs.append((rng.getrandbits(nb) * rng.choice([1, -1]), rng.getrandbits(db) + 1))
        k = rng.randint(0, 30)
        pairs.append((rng.randint(-10 ** 20, 10 ** 20), 10 ** k))          # decimals
    lines = [f'rnd={n}/{d}' for n, d in pairs]
    ans = run.driver('C08', lines)
    for (n, d), a in zip(pairs, ans):
        run.stats.case({'rnd': f'{n}/{d}'}, nontrivial=False)
        run.stats.count('kernel:rnd')
        try:
            exp = canon_item(float(Fraction(n, d)))
        except OverflowError:
            exp = 'd:inf' if n > 0 else 'd:-inf'
        if exp == 'd:0/0' and n < 0:
            exp = 'd:-0'                                            # float(Fraction) drops the sign of an underflow
        if a != exp:
            run.disagree(Disagreement({'kernel': 'rnd', 'n': n, 'd': d}, impl=exp, model=a, what='kernel-rnd',
                                      site='EPV.Seq.rnd vs float(Fraction)'))
    lex = ['1', '2.5', '-0', '+1.', '.5', ' 1e1 ', 'INF', '-INF', '+INF', 'NaN', 'inf', 'nan', 'Infinity', '', ' ', 'x', '1_0',
           '0x10', '1e', 'e1', '1.2.3', '--1', '+-1', '1 2', '1e400', '-1e400', '1e-400', '-1e-400', '0.1', '1E5', '1e+5',
           '.', '+', '-.5e-3', '\t12\n', '12\u00a0', '9007199254740993', '0.1000000000000000055511151231257827',
           '123456789012345678901234567890', '1.7976931348623157e308', '1.7976931348623159e308', '4.9e-324', '2.4e-324']
    for _ in range(run.scale(300, 3000)):
        k = rng.random()
        body = ''.join(rng.choice('0123456789') for _ in range(rng.randint(0, 6)))
        if k < 0.5:
            body += '.' + ''.join(rng.choice('0123456789') for _ in range(rng.randint(0, 6)))
        if rng.random() < 0.4:
            body += rng.choice('eE') + rng.choice(['', '+', '-']) + ''.join(rng.choice('0123456789') for _ in range(rng.randint(0, 3)))
        lex.append(rng.choice(['', '-', '+', ' ']) + body + rng.choice(['', '', ' ', 'x']))
    from elementpath.helpers import get_double
    ans = run.driver('C08', ['lex=' + ('.'.join(format(ord(ch), 'x') for ch in t) or '-') for t in lex])
    for t, a in zip(lex, ans):
        run.stats.case({'lex': t}, nontrivial=False)
        run.stats.count('kernel:lex')
        try:
            exp = canon_item(get_double(t, '1.1'))
        except ValueError:
            exp = 'ERR:FORG0001'
        if a != exp:
            run.disagree(Disagreement({'kernel': 'lexDouble', 'text': t}, impl=exp, model=a, what='kernel-lex',
                                      site='EPV.Seq.lexDouble vs helpers.get_double'))
    dpairs = [(rng.randint(-10 ** rng.randint(1, 25), 10 ** rng.randint(1, 25)), rng.randint(1, 10 ** rng.randint(1, 12)))
              for _ in range(run.scale(800, 8000))]
    # quotients with more than 28 integer digits (fn:avg of big integers), incl. exact ties at the 28th digit
    dpairs += [(rng.choice([1, -1]) * rng.randint(10 ** 28, 10 ** rng.randint(29, 70)), rng.randint(1, 10 ** rng.randint(0, 6)))
               for _ in range(run.scale(200, 2000))]
    dpairs += [(10 ** 30 + 1, 2), (-(10 ** 30) - 1, 3), (10 ** 29 + 5, 1), (10 ** 29 + 15, 1), (3 * 10 ** 28 + 5, 2),
               (10 ** 28 - 1, 1), (10 ** 28, 1), (10 ** 28 + 1, 2), (2 * 10 ** 28 - 1, 2), (10 ** 400, 3)]
    ans = run.driver('C08', [f'sig28={n}/{d}' for n, d in dpairs])
    for (n, d), a in zip(dpairs, ans):
        run.stats.case({'sig28': f'{n}/{d}'}, nontrivial=False)
        run.stats.count('kernel:sig28')
        exp = canon_item(Decimal(n) / Decimal(d))
        if a != exp:
            run.disagree(Disagreement({'kernel': 'sig28', 'n': n, 'd': d}, impl=exp, model=a, what='kernel-sig28',
                                      site='EPV.Seq.roundSig28 vs Decimal division'))


# a few node-sequence probes: the structural functions are polymorphic, nodes are compared by index
def collation_probe(run: Run):
    """engine-only metamorphic check, also for the functions / item types outside the Lean fragment (fn:deep-equal,
    xs:anyURI items): with DEFAULT collation html-ascii-case-insensitive the form without collation argument, the
    form with `default-collation()` and the form with the URI (under either default collation) give the same result;
    and the kernel's collation key is the engine's (`CollationManager.strcoll`)"""
    rng = random.Random(run.seed * 7919 + 17)
    words = COLL_STRINGS

    def lit(w):
        q = "'" + w.replace("'", "''") + "'"
        r = rng.random()
        return q if r < 0.6 else f'xs:untypedAtomic({q})' if r < 0.8 else f'xs:anyURI({q})'

    def swap(w):
        return ''.join(ch.swapcase() if ch.isascii() and rng.random() < 0.6 else ch for ch in w)

    n = 0
    for _ in range(run.scale(60, 1200)):
        ws = [rng.choice(words) for _ in range(rng.randint(0, 4))]
        s1 = '(' + ', '.join(lit(w) for w in ws) + ')'
        ws2 = [swap(w) for w in ws]
        if ws2 and rng.random() < 0.2:
            ws2[rng.randrange(len(ws2))] = rng.choice(words)
        s2 = '(' + ', '.join(lit(w) for w in ws2) + ')'
        x = lit(swap(rng.choice(ws)) if ws and rng.random() < 0.7 else rng.choice(words))
        forms = [('index-of', f'index-of({s1}, {x}'), ('distinct-values', f'distinct-values(({s1}, {s2})'),
                 ('deep-equal', f'deep-equal({s1}, {s2}'), ('max', f'max({s1}'), ('min', f'min(({s1}, {s2})'),
                 ('deep-equal', f'deep-equal(reverse({s1}), reverse({s2})')]
        for name, head in forms:
            t2, td, tu = head + ')', head + ', default-collation())', head + f", '{CI_URI}')"
            for pv in ('31', '30', '20'):
                res = {'no-argument, default=ci': run_impl(t2, DEFAULT_CTX, pv, 'ci'),
                       'default-collation(), default=ci': run_impl(td, DEFAULT_CTX, pv, 'ci'),
                       'URI, default=ci': run_impl(tu, DEFAULT_CTX, pv, 'ci'),
                       'URI, default=codepoint': run_impl(tu, DEFAULT_CTX, pv, 'cp')}
                n += 1
                run.stats.case({'collation': t2, 'pv': pv}, nontrivial=True)
                run.stats.count('collation-metamorphic:' + name)
                ref = res['URI, default=codepoint']
                for k, v in res.items():
                    if v != ref:
                        run.disagree(Disagreement({'collation-metamorphic': name, 'xpath': t2, 'variant': k,
                                                   'reference': tu + '  (default collation: code points)',
                                                   'default_collation': CI_URI, 'parser': pv},
                                                  impl=v, spec=ref, what='collation', site=f'fn:{name}'))
    # kernel: the collation key of the Lean side vs the engine's CollationManager
    from elementpath.collations import CollationManager
    pairs = [(a, b) for a in words for b in words if rng.random() < (0.25 if run.quick else 1.0)]
    for _ in range(run.scale(200, 2000)):
        mk = lambda: ''.join(rng.choice('aAbBzZ[_^`{@ \u00e9\u00c9\u0131IiK\u212a1') for _ in range(rng.randint(0, 4)))
        pairs.append((mk(), mk()))
    hx = lambda t: '.'.join(format(ord(ch), 'x') for ch in t) or '-'
    ans = run.driver('C08', [f'ckey={hx(a)},{hx(b)}' for a, b in pairs])
    with CollationManager(CI_URI) as cm:
        for (a, b), got in zip(pairs, ans):
            r = cm.strcoll(a, b)
            exp = f'ceq={1 if r == 0 else 0} clt={1 if r < 0 else 0}'
            run.stats.case({'ckey': [a, b]}, nontrivial=False)
            run.stats.count('kernel:collation-key')
            if got != exp:
                run.disagree(Disagreement({'kernel': 'collKey', 'strings': [a, b]}, impl=exp, model=got, what='kernel-collation',
                                          site='EPV.Seq.collEq/collLt vs CollationManager.strcoll'))


def node_probe(run: Run):
    import elementpath
    from xml.etree import ElementTree as ET
    root = ET.fromstring('<r>' + ''.join(f'<a n="{i}"/>' for i in range(1, 8)) + '</r>')
    elems = list(root)
    for pv in ('20', '31'):
        for a in (-1, 0, 0.5, 1, 1.5, 2.5, 7, 8, 'INF', '-INF', 'NaN'):
            for b in (0, 0.5, 1, 2.5, 7, 'INF', 'NaN'):
                def num(v):
                    return f"xs:double('{v}')" if isinstance(v, str) else repr(v)
                for tmpl, ints in ((f'subsequence(a, {num(a)}, {num(b)})', f'subsequence(1 to 7, {num(a)}, {num(b)})'),
                                   (f'reverse(subsequence(a, {num(a)}))', f'reverse(subsequence(1 to 7, {num(a)}))'),
                                   (f'remove(a, {int(a) if not isinstance(a, str) else 3})', f'remove(1 to 7, {int(a) if not isinstance(a, str) else 3})'),
                                   (f'insert-before(a, {int(a) if not isinstance(a, str) else 3}, a[{num(b)}])',
                                    f'insert-before(1 to 7, {int(a) if not isinstance(a, str) else 3}, (1 to 7)[{num(b)}])')):
                    try:
                        r1 = elementpath.select(root, tmpl, parser=parser_class(pv))
                        r1 = [elems.index(x) + 1 for x in r1]
                    except Exception as e:
                        r1 = f'ERR:{type(e).__name__}'
                    try:
                        r2 = elementpath.select(root, ints, parser=parser_class(pv))
                    except Exception as e:
                        r2 = f'ERR:{type(e).__name__}'
                    run.stats.case({'node-probe': tmpl, 'parser': pv})
                    run.stats.count('node-sequence-probe')
                    if r1 != r2:
                        run.disagree(Disagreement({'xpath': tmpl, 'same-on-integers': ints, 'parser': pv}, impl=str(r1),
                                                  spec=str(r2), what='nodes-vs-integers', site='sequence functions'))


# --------------------------------------------------------------------------------------
# compare
# --------------------------------------------------------------------------------------
def parse_answer(ans: str) -> dict:
    return dict(kv.split('=', 1) for kv in ans.split(' ') if '=' in kv)


ALL_ROUTES = False        # the shrinker evaluates every candidate through every route


def evaluate(run: Run, cases: list[Case], stats=True, answers=None) -> list[dict]:
    """runs every case through the driver and the engine; returns one record per case.  Besides the
    primary route (`elementpath.select`, every parser class) each case goes through ONE other route
    (chosen from a checksum of the case, so a re-run takes the same one)"""
    if answers is None:
        answers = run.driver('C08', [c.line() for c in cases])
    elif not isinstance(answers, list):
        # a pending driver call (see run_cases): the engine works while the Lean driver runs
        impl_first = [impl_results(c) for c in cases]
        answers = answers.result()
        return [assemble(c, ans, impl) for c, ans, impl in zip(cases, answers, impl_first)]
    return [assemble(c, ans, None) for c, ans in zip(cases, answers)]


QUICK_PRIMARY = False     # quick tier: primary route under XPath31Parser and ONE of the older parser classes


def impl_results(c: Case) -> dict:
    import zlib
    t = text(c.expr)
    pvs = parsers_for(c.expr)
    h = zlib.crc32(c.line().encode())
    primary = pvs
    if QUICK_PRIMARY and not ALL_ROUTES and len(pvs) > 2:
        primary = [pvs[0], pvs[1 + (h >> 8) % (len(pvs) - 1)]]
    impl = {pv: run_impl(t, c.ctx, pv, c.coll) for pv in primary}
    routes = routes_for(c.expr, pvs)
    if not ALL_ROUTES:
        routes = [routes[h % len(routes)]]
    for pv, route in routes:
        impl[f'{pv}/{route}'] = run_any(c.expr, c.ctx, pv, route, c.coll)
    return impl


def assemble(c: Case, ans: str, impl) -> dict:
    rec = {'case': c, 'answer': ans}
    if ans.startswith('bad-'):
        rec['bad'] = True
        return rec
    f = parse_answer(ans)
    model, spec = f['model'], f['spec']
    rec['model'], rec['spec'], rec['k'] = model, spec, f.get('k', '0')
    rec['lazy'] = f.get('lazy', spec)
    rec['m'] = f.get('m', '1')
    rec['errs'] = set() if f.get('errs', '_') == '_' else set(f['errs'].split(','))
    rec['impl'] = impl if impl is not None else impl_results(c)
    return rec


def judge(run: Run, rec: dict, stats=True) -> list[Disagreement]:
    """turn one record into disagreements (empty list = agreement)"""
    c: Case = rec['case']
    st = run.stats
    out = []
    if rec.get('bad'):
        return [Disagreement(c.describe(), impl='driver:' + rec['answer'], what='protocol')]
    model, spec = rec['model'], rec['spec']
    if stats:
        st.case(c.describe()['xpath'] + '|' + ctx_fields(c.ctx) + ('|default-collation=ci' if c.coll == 'ci' else ''),
                nontrivial=depth(c.expr) > 1)
        st.count('kind:' + c.kind.split(':')[0])
        for ft in features(c.expr):
            st.count(ft)
        for nt in nesting(c.expr):
            st.count(nt)
        st.count(f'depth:{min(depth(c.expr), 12)}')
        st.count('spec-result:' + (spec if spec.startswith('ERR') else ('empty' if spec == '_' else 'value')))
    if rec.get('m') == '0':
        # the hypothesis of theorem min_max_fo_literal (monotone promotion to xs:double) fails on the
        # argument of a top-level fn:max / fn:min: the kernel function `rnd` is not what it is trusted to be
        out.append(Disagreement(c.describe(), impl='promotionMonotoneOn=false', model=None, spec=None,
                                what='hypothesis', site=site_of(c.expr)))
    elif stats and c.expr[0] == 'f' and c.expr[1] in ('min', 'max'):
        st.count('hypothesis-checked:promotionMonotoneOn')
    if 'UNSUPPORTED' in model or 'UNSUPPORTED' in spec or 'ERR:UNSUPPORTED' in rec.get('errs', ()):
        if stats:
            st.count('outside-modelled-fragment')
        if model != spec:
            out.append(Disagreement(c.describe(), impl=model, model=model, spec=spec, what='model-vs-spec-unsupported'))
        return out
    for pv, impl in rec['impl'].items():
        if stats:
            st.count(('route:' + pv.split('/', 1)[1]) if '/' in pv else 'parser:' + pv)
        if impl == spec and impl == model:
            continue
        errs, lazy = rec['errs'], rec['lazy']
        if errs and rec.get('k') != '1':
            # some subexpression raises: XPath 3.1 2.3.4 / 3.12 permit the value of the lazy evaluation
            # and every reachable error code (Spec.Permitted, computed by the driver) -- nothing else
            if impl == lazy and not lazy.startswith('ERR'):
                if stats:
                    st.count('permitted:lazy-value')
                continue
            if impl in errs:
                if stats:
                    st.count('permitted:other-reachable-error' if impl != spec else 'permitted:strict-error')
                continue
            spec = f'{spec} [permitted: value {lazy if not lazy.startswith("ERR") else "none"}; errors {",".join(sorted(errs))}]'
        d = c.describe()
        names = {'20': 'XPath2Parser', '30': 'XPath30Parser', '31': 'XPath31Parser'}
        d['parser'] = names[pv] if pv in names else names[pv.split('/')[0]] + ' route ' + pv.split('/', 1)[1]
        if pv.startswith(('30/call:', '31/call:')):
            d['xpath_as_evaluated'] = text(c.expr, pv.split('call:')[1])
        what = 'value' if impl != spec else 'model'
        # F08b: trigger predicate `Expr.loopVarInRange` computed by the driver from the expression
        tags = ['F08b'] if rec.get('k') == '1' and impl == 'ERR:XPST0008' else []
        for tg in tags:
            if stats:
                st.count('finding:' + tg)
        out.append(Disagreement(d, impl=impl, model=model, spec=spec, what=what,
                                site="for/some/every nud" if tags == ['F08b'] else site_of(c.expr), tags=tags))
    return out


def site_of(e) -> str:
    t = e[0]
    if t == 'f':
        return f'fn:{e[1]}'
    return {'filter': "'[' select_with_focus", 'map': "'!' operator", 'for': "for / iter_product",
            'some': 'some / iter_product', 'every': 'every / iter_product', 'to': "'to' operator",
            'comma': "',' operator"}.get(t, t)


def run_cases(run: Run, cases: list[Case], stats=True) -> list[Disagreement]:
    from concurrent.futures import ThreadPoolExecutor
    from harness.common import ensure_driver_built
    ensure_driver_built('C08')
    out = []
    chunks = [cases[i:i + 2500] for i in range(0, len(cases), 2500)]
    # the Lean driver (a subprocess per chunk, at most three at a time) runs while this process evaluates
    # the same chunk with the engine
    pool = ThreadPoolExecutor(max_workers=3)
    pending = [pool.submit(run.driver, 'C08', [c.line() for c in chunk]) for chunk in chunks]
    pool.shutdown(wait=False)
    for chunk, fut in zip(chunks, pending):
        recs = evaluate(run, chunk, answers=fut)
        byid = {id(r['case']): r for r in recs}
        for r in recs:
            out += judge(run, r, stats)
            c = r['case']
            if c.pair is not None and not r.get('bad'):
                r2 = byid.get(id(c.pair))
                if r2 is None or r2.get('bad'):
                    continue
                if stats:
                    run.stats.count('equivalence-pairs')
                for pv in r['impl']:
                    if pv in r2['impl'] and r['impl'][pv] != r2['impl'][pv]:
                        l, rr = r['impl'][pv], r2['impl'][pv]
                        if l.startswith('ERR') and rr.startswith('ERR') and 'OTHER' not in l + rr:
                            continue
                        out.append(Disagreement({'equivalence': c.kind, 'lhs': c.describe(), 'rhs': c.pair.describe(),
                                                 'parser': pv}, impl=l, spec=rr, what='equivalence',
                                                site=site_of(c.expr)))
    return out


# --------------------------------------------------------------------------------------
# shrink / search
# --------------------------------------------------------------------------------------
def reductions(e):
    """one-step simplifications of an expression"""
    t = e[0]
    kids = []
    if t in ('comma', 'to', 'filter', 'map', 'and', 'or'):
        kids = [(1, e[1]), (2, e[2])]
    elif t == 'f':
        kids = [(('a', i), a) for i, a in enumerate(e[2])]
    elif t in ('cmp', 'ar'):
        kids = [(2, e[2]), (3, e[3])]
    elif t == 'if':
        kids = [(1, e[1]), (2, e[2]), (3, e[3])]
    elif t in ('for', 'some', 'every'):
        kids = [(('b', i), be) for i, (_, be) in enumerate(e[1])] + [(2, e[2])]
        if len(e[1]) > 1:
            for i in range(len(e[1])):
                yield (t, e[1][:i] + e[1][i + 1:], e[2])
    for _, k in kids:
        yield k                                  # replace by a child
    if t not in ('lit', 'empty'):
        yield I(1)
        yield EMPTY
    for key, k in kids:
        for k2 in reductions(k):
            if isinstance(key, tuple) and key[0] == 'a':
                args = list(e[2]); args[key[1]] = k2
                yield (t, e[1], args)
            elif isinstance(key, tuple) and key[0] == 'b':
                bs = list(e[1]); bs[key[1]] = (bs[key[1]][0], k2)
                yield (t, bs, e[2])
            else:
                l = list(e); l[key] = k2
                yield tuple(l)


def make_shrink(run: Run):
    def shrink(d: Disagreement) -> Disagreement:
        case = d.case
        if not isinstance(case, dict) or 'driver_line' not in case or d.what == 'equivalence':
            return d
        cur = getattr(d, '_case_obj', None)
        if cur is None:
            return d
        best = d
        for _ in range(12):
            cands = []
            seen = set()
            for e2 in reductions(cur.expr):
                key = repr(e2)
                if key not in seen and len(cands) < 400:
                    seen.add(key)
                    cands.append(Case(e2, cur.ctx, kind=cur.kind, strict=cur.strict, coll=cur.coll))
            if not cands:
                break
            sub = Run(PROP, run.tier, run.seed)
            found = None
            global ALL_ROUTES
            try:
                ALL_ROUTES = True
                recs = evaluate(sub, cands)
            except DriverError:
                break
            finally:
                ALL_ROUTES = False
            for r in sorted(recs, key=lambda r: len(r['case'].line())):
                ds = [x for x in judge(sub, r, stats=False) if x.kind == best.kind and x.what == best.what]
                if ds:
                    found = (r['case'], ds[0])
                    break
            if found is None or len(found[0].line()) >= len(cur.line()):
                break
            cur, best = found
            best._case_obj = cur
        return best
    return shrink


def attach(ds: list[Disagreement], cases_by_line: dict):
    for d in ds:
        if isinstance(d.case, dict) and d.case.get('driver_line') in cases_by_line:
            d._case_obj = cases_by_line[d.case['driver_line']]


def small_scope_cases():
    """exhaustive: sequences of length <= 3 over {1, 2} x boundary arguments x every construct"""
    import itertools
    out = []
    add = lambda e: out.append(Case(e, kind='small-scope'))
    nums = [Dd(v) for v in (-1, 0, 0.5, 1, 1.5, 2, 2.5, 3, 3.5, 4, 'inf', '-inf', 'nan')] + [I(v) for v in (-1, 0, 1, 2, 3, 4)]
    ints = [I(v) for v in (-1, 0, 1, 2, 3, 4, 5)]
    for n in range(4):
        for tup in itertools.product([1, 2], repeat=n):
            s = seq([I(x) for x in tup])
            for a in nums:
                add(F('subsequence', s, a)); add(('filter', s, a))
                for b in nums:
                    add(F('subsequence', s, a, b))
            for p in ints:
                add(F('remove', s, p))
                add(F('insert-before', s, p, seq([I(8), I(9)])))
                add(F('index-of', s, p))
                add(('filter', s, ('cmp', 'le', ('pos',), p)))
            for f in ('count', 'empty', 'exists', 'head', 'tail', 'reverse', 'zero-or-one', 'one-or-more',
                      'exactly-one', 'distinct-values', 'sum', 'avg', 'min', 'max', 'string-join'):
                add(F(f, s))
            add(('map', s, seq([('dot',), ('pos',), ('last',)])))
            add(('filter', s, ('cmp', 'eq', ('pos',), ('last',))))
            for tup2 in itertools.product([1, 2], repeat=min(n, 2)):
                s2 = seq([I(x) for x in tup2])
                add(('for', [(5, s), (6, s2)], ('ar', '+', ('ar', '*', ('var', 5), I(10)), ('var', 6))))
                add(('for', [(5, s), (6, ('to', I(1), ('var', 5)))], seq([('var', 5), ('var', 6)])))
                add(('some', [(5, s), (6, s2)], ('cmp', 'lt', ('var', 5), ('var', 6))))
                add(('every', [(5, s), (6, s2)], ('cmp', 'le', ('var', 5), ('var', 6))))
                add(('comma', s, s2))
    for a in range(-2, 4):
        for b in range(-2, 5):
            add(('to', I(a), I(b)))
    return out


def search(run: Run):
    sub = Run(PROP, run.tier, run.seed + 7919)
    cases = small_scope_cases() + random_cases(sub.rng, 4000, 5)
    ds = run_cases(sub, cases, stats=False)
    attach(ds, {c.line(): c for c in cases})
    run.notes.append(f'search: {len(cases)} small-scope + random cases, {len(ds)} disagreements')
    return ds


# --------------------------------------------------------------------------------------
# ---- fn:deep-equal on sequences of atomic items (phase 5): model = engine = specification -----------------
DEQ_HUGE = 10 ** 400
DEQ_EDGE = (1 << 1024) - (1 << 970)          # the least integer whose conversion to float overflows


def deq_wire(a) -> str:
    return 'a:' + '.'.join(format(ord(c), 'x') for c in a[1]) if a[0] == 'a' else atom_wire(a)


def deq_text(a) -> str:
    if a[0] == 'a':
        return "xs:anyURI('" + a[1].replace("'", "''") + "')"
    return atom_text(a)


def deq_dbl(x):
    """the xs:double nearest to a rational / integer, as an atom"""
    try:
        f = float(x)
    except OverflowError:
        return ('d', 'inf' if x > 0 else '-inf')
    if math.isinf(f):
        return ('d', 'inf' if f > 0 else '-inf')
    return Dx(f)[1]


def deq_norm(a):
    """the constructor xs:anyURI collapses white space (whiteSpace facet): only collapsed strings as xs:anyURI values"""
    return ('a', ' '.join(a[1].split())) if a[0] == 'a' else a


def deq_pool(rng):
    r = rng.random()
    if r < 0.22:
        return ('i', rng.choice([-1, 0, 1, 1, 2, 3, 1 << 53, (1 << 53) + 1, DEQ_HUGE, -DEQ_HUGE, DEQ_EDGE, DEQ_EDGE - 1,
                                 rng.randint(-5, 5)]))
    if r < 0.38:
        return ('q', rng.choice([(10, 1), (1, 1), (25, 1), (-10, 1), (0, 0), (10000000000000000055, 20),
                                 (1000000000000000055511151231257827, 34), (DEQ_HUGE, 0), (-DEQ_HUGE, 0),
                                 (rng.randint(-50, 50), rng.randint(0, 2))]))
    if r < 0.62:
        return rng.choice([('d', 'nan'), ('d', 'nan'), ('d', 'inf'), ('d', '-inf'), ('d', '-0'), Dx(0.0)[1], Dx(1.0)[1],
                           Dx(0.1)[1], Dx(2.5)[1], Dx(float(1 << 53))[1], Dx(1.7976931348623157e308)[1], Dx(5e-324)[1],
                           Dx(float(rng.randint(-5, 5)))[1], Dx(rng.randint(-40, 40) / 8)[1]])
    if r < 0.90:
        w = rng.choice(COLL_STRINGS + ['1', '1.0', 'NaN', 'true'])
        return deq_norm((rng.choice('sssuua'), w))
    return ('b', rng.random() < 0.5)


def deq_variant(a, rng):
    """an item that is (mostly) `eq` to `a` in another type / spelling"""
    t, v = a
    r = rng.random()
    if r < 0.3:
        return a
    if t == 'i':
        return ('q', (v, 0)) if r < 0.6 else deq_dbl(v)
    if t == 'q':
        fr = Fraction(v[0], 10 ** v[1])
        if fr.denominator == 1 and r < 0.6:
            return ('i', fr.numerator)
        return deq_dbl(fr)
    if t == 'd':
        if v == 'nan':
            return a
        if v in ('inf', '-inf'):
            sg = 1 if v == 'inf' else -1
            return rng.choice([a, ('i', sg * DEQ_HUGE), ('q', (sg * DEQ_HUGE, 0)), ('i', sg * DEQ_EDGE)])
        if v == '-0':
            return rng.choice([Dx(0.0)[1], ('i', 0), ('q', (0, 1))])
        m, k = v
        if k == 0 and r < 0.6:
            return ('i', m)
        return ('q', (m * 5 ** k, k))
    if t in 'sua':
        w = ''.join(ch.swapcase() if ch.isascii() and rng.random() < 0.5 else ch for ch in v) if r < 0.6 else v
        return deq_norm((rng.choice('sua'), w))
    return a


def deq_classify(a) -> str:
    t, v = a
    if t == 'd':
        return 'nan' if v == 'nan' else 'inf' if v in ('inf', '-inf') else 'dbl'
    return {'i': 'int', 'q': 'dec', 's': 'str', 'u': 'untyped', 'a': 'uri', 'b': 'bool'}[t]


DEQ_CORPUS = [
    ([('d', 'nan')], [('d', 'nan')], 'cp'), ([('d', 'nan')], [('i', DEQ_HUGE)], 'cp'), ([('i', DEQ_HUGE)], [('d', 'nan')], 'cp'),
    ([('d', 'inf')], [('i', DEQ_HUGE)], 'cp'), ([('q', (-DEQ_HUGE, 0))], [('d', '-inf')], 'cp'),
    ([('d', 'inf')], [('i', DEQ_EDGE)], 'cp'), ([('d', 'inf')], [('i', DEQ_EDGE - 1)], 'cp'),
    ([('d', 'nan')], [('i', DEQ_EDGE - 1)], 'cp'), ([('d', 'nan')], [('i', DEQ_EDGE)], 'cp'),
    ([('i', 1)], [('q', (10, 1))], 'cp'), ([('q', (1, 1))], [Dx(0.1)[1]], 'cp'), ([Dx(0.1)[1]], [('q', (1, 1))], 'cp'),
    ([('i', (1 << 53) + 1)], [Dx(float(1 << 53))[1]], 'cp'), ([('i', (1 << 53) + 1)], [('i', 1 << 53)], 'cp'),
    ([Dx(0.0)[1]], [('d', '-0')], 'cp'), ([('u', 'a')], [('s', 'a')], 'cp'), ([('a', 'a')], [('u', 'a')], 'cp'),
    ([('s', 'a')], [('a', 'A')], 'ci'), ([('s', 'a')], [('s', 'A')], 'cp'), ([('u', '1')], [('i', 1)], 'cp'),
    ([('b', True)], [('i', 1)], 'cp'), ([('b', True)], [('b', True)], 'cp'), ([('b', True)], [('b', False)], 'cp'),
    ([('s', 'true')], [('b', True)], 'cp'), ([('d', 'nan')], [('s', 'NaN')], 'cp'), ([('s', '1')], [Dx(1.0)[1]], 'cp'),
    ([], [], 'cp'), ([('i', 1)], [], 'cp'), ([], [('i', 1)], 'cp'), ([('i', 1), ('i', 2)], [('i', 1), ('i', 2), ('i', 3)], 'cp'),
    ([('i', 1), ('i', 2)], [('i', 2), ('i', 1)], 'cp'), ([('d', 'inf')], [('d', '-inf')], 'cp'),
    ([('s', 'K')], [('s', 'K')], 'ci'), ([('a', 'ss')], [('s', 'ß')], 'ci'),
]


def deep_equal_cases(run: Run):
    """fn:deep-equal on two sequences of atomic items (the C08 atoms and xs:anyURI): Lean model `deepEqual`,
    Lean specification `DSpec.deepEqual` (F&O 15.3.1) and the engine, under both modelled collations, as default
    collation or as third argument"""
    rng = random.Random(run.seed * 104729 + 5)
    cases = list(DEQ_CORPUS)
    for _ in range(run.scale(1200, 12000)):
        xs = [deq_pool(rng) for _ in range(rng.choice([0, 1, 1, 2, 2, 3, 4]))]
        ys = [deq_variant(a, rng) for a in xs]
        r = rng.random()
        if ys and r < 0.12:
            ys[rng.randrange(len(ys))] = deq_pool(rng)
        elif ys and r < 0.17:
            ys.pop()
        elif r < 0.22:
            ys.append(deq_pool(rng))
        elif len(ys) > 1 and r < 0.26:
            ys[0], ys[-1] = ys[-1], ys[0]
        if rng.random() < 0.5:
            xs, ys = ys, xs
        cases.append((xs, ys, 'ci' if rng.random() < 0.4 else 'cp'))
    lines = ['deq=' + (','.join(map(deq_wire, xs)) or '_') + ';' + (','.join(map(deq_wire, ys)) or '_') +
             (' coll=ci' if cl == 'ci' else '') for xs, ys, cl in cases]
    answers = run.driver('C08', lines)
    canon = {'b:1': '1', 'b:0': '0'}
    for n, ((xs, ys, cl), ans) in enumerate(zip(cases, answers)):
        rec = parse_answer(ans)
        if 'model' not in rec:
            run.broken.append(f'driver:C08 deq answer {ans!r}')
            continue
        s1, s2 = ('(' + ', '.join(map(deq_text, q)) + ')' for q in (xs, ys))
        forms = [(f'deep-equal({s1}, {s2})', cl),
                 (f"deep-equal({s1}, {s2}, '{CI_URI if cl == 'ci' else CP_URI}')", 'cp' if cl == 'ci' else 'ci'),
                 (f'deep-equal({s1}, {s2}, default-collation())', cl)]
        pvs = ('31', '30', '20') if not run.quick or n < len(DEQ_CORPUS) else ('31', ('30', '20')[n % 2])
        chosen = forms if not run.quick or n < len(DEQ_CORPUS) else [forms[0], forms[1 + n % 2]]
        case = {'deep-equal': [list(map(deq_text, xs)), list(map(deq_text, ys))], 'collation': cl, 'line': lines[n]}
        run.stats.case(case, nontrivial=bool(xs or ys))
        run.stats.count('deep-equal:' + rec.get('b', '?'))
        run.stats.count('deep-equal:result:' + rec['model'])
        run.stats.count('deep-equal:collation:' + cl)
        if rec.get('tn') == '1':
            run.stats.count('deep-equal:input-of-fixed-F08ab')
        if rec.get('ti') == '1':
            run.stats.count('deep-equal:input-of-fixed-F08ac')
        for a in xs + ys:
            run.stats.count('deep-equal:item:' + deq_classify(a))
        for text_, dflt in chosen:
            for pv in pvs:
                impl = run_impl(text_, DEFAULT_CTX, pv, dflt)
                impl = canon.get(impl, impl)
                if impl == rec['model'] and impl == rec['spec']:
                    continue
                run.disagree(Disagreement(dict(case, xpath=text_, parser=pv, default_collation=dflt), impl=impl,
                                          model=rec['model'], spec=rec['spec'], what='deep-equal',
                                          site='elementpath/compare.py deep_equal (sequence_deep_equal)'))


def body(run: Run) -> int:
    run.trusted_base += ['harness/c08.py: AST printers (XPath text / Polish notation), canonicalisers',
                         'EPV/Model/SeqFunsNum.lean `rnd` / `roundSig28` / `lexDouble` / `collKey` (shared by model and specification) as '
                         'IEEE 754 round-to-nearest-even, 28-digit decimal division, the xs:double lexical mapping and the '
                         'html-ascii-case-insensitive collation key: '
                         'compared with CPython float / Decimal on every run (kernel probe), not proved']
    run.assumptions += [
        'items are xs:integer (unbounded), xs:decimal (exact), xs:double (exact binary value, NaN, +-INF, -0), '
        'xs:string, xs:boolean, xs:untypedAtomic and element nodes (identified by document order, string value '
        'from the document); xs:float, dates, durations, QNames, xs:anyURI, maps, arrays are outside the model',
        'collations: the code-point collation and html-ascii-case-insensitive, as default collation of the parser '
        'and as collation argument of index-of / distinct-values / min / max / deep-equal (locale and UCA collations are '
        'outside; xs:anyURI items of index-of / distinct-values / min / max are covered by the engine-only metamorphic check '
        'f(S, x) = f(S, x, default-collation()) = f(S, x, URI)); value comparisons (eq, lt) are generated '
        'under the code-point default only',
        'fn:deep-equal (phase 5): two literal sequences of atomic items (the atoms above and xs:anyURI, white space '
        'collapsed); nodes, maps, arrays and function items inside fn:deep-equal are outside (maps / arrays: C15); '
        'the call is a top-level expression, not composed with the other constructs',
        'xs:decimal arithmetic stays within the 28 significant digits of the decimal context (the generator '
        'bounds the operands); `xs:double op integer beyond the double range` (FOAR0002 in the engine) is not generated',
        'double eq double is exact equality (elementpath applies a 1e-7 relative tolerance: C07; the generated '
        'doubles are farther apart)',
        'errors: when some subexpression can raise, the engine must deliver the value of the laziest evaluation '
        'or one of the reachable error codes (Spec.Permitted, XPath 3.1 2.3.4); otherwise the value is compared '
        'exactly; nothing is only counted',
        'every xs:double item is a binary64 value (Spec.goodItem, checked by the driver on every fn:max / fn:min '
        'argument): the type D of the model also has dyadics with more than 53 bits']
    run.prove(['EPV.Props.C08', 'EPV.Props.C08DeepEq'], ['EPV.Spec.FOSeq', 'EPV.Spec.FODeepEq'])
    rng = run.rng
    global QUICK_PRIMARY
    QUICK_PRIMARY = run.quick
    try:
        cases = probe_cases(not run.quick, rng)
        cases += equivalence_cases(rng, not run.quick)
        cases += collation_cases(rng, not run.quick)
        cases = [c for c in cases if c is not None]
        cases += random_cases(rng, run.scale(6000, 70000), 6 if run.quick else 7)
        run.stats.rule = ('an evaluation = one expression in one dynamic context (item, position, size, variables) '
                          'evaluated by the Lean model, the Lean specification and the real engine: `elementpath.select` under '
                          'the parser classes that have the syntax (3.1, 3.0, 2.0; the quick tier takes 3.1 and one of the '
                          'other two per case) and one further evaluation route per case; distinct = distinct (expression, '
                          'context) with at least one operator or function')
        ds = run_cases(run, cases)
        attach(ds, {c.line(): c for c in cases})
        for d in ds:
            run.disagree(d)
        node_probe(run)
        kernel_probe(run)
        collation_probe(run)
        deep_equal_cases(run)
    except DriverError as e:
        run.broken.append('driver:C08 ' + str(e)[:400])
    return run.finish('proof', shrink=make_shrink(run), search=search)


if __name__ == '__main__':
    cli(PROP, body)

"""
C20 — schema-aware evaluation assigns sound XSD types and never changes node selection.

 prove     : EPV.Props.C20 (cache transparency, apply_schema = declarative typing, typed-value
             classes, instance-of closure, selection type erasure + kernel-checked counter-examples)
 correspond: generated schemas (reduced XSD: builtin atomic types, restrictions, lists, unions,
             simple-content extensions, nillable, defaults, xsi:type, substitution groups, wildcards;
             XSD 1.0 and 1.1) x valid instances generated from the schema x path expressions.
             Real code (elementpath + xmlschema proxy) vs Lean model vs Lean spec:
               type_name / xsd_element of every element, lazily typed attribute nodes,
               typed values (class + value), value vs xmlschema's own decode,
               `instance of element(*, T)` for base and non-base types, arithmetic on typed nodes,
               node selection with vs without the schema (pre-order indices).
 search    : small exhaustive family (every builtin/derived type shape x every vocabulary text,
             every path shape on a fixed instance) run when something broke.
xmlschema and the proxy protocol are TRUSTED (the schema processor of the property statement).
"""
from __future__ import annotations

import sys
from decimal import Decimal
from pathlib import Path

sys.path.insert(0, str(Path(__file__).resolve().parent.parent))
from harness.common import (Run, Disagreement, cli, DriverError)  # noqa: E402
from harness.c20_decoder import decoder_probe  # noqa: E402  (phase 5: direct decoder probe, any number of tokens)

PROP = 'C20'
NS = 'urn:t'
ONS = 'urn:o'
XSD_NS = 'http://www.w3.org/2001/XMLSchema'
XSI_NS = 'http://www.w3.org/2001/XMLSchema-instance'
XSI_TYPE = '{%s}type' % XSI_NS
XSI_NIL = '{%s}nil' % XSI_NS

BUILTINS = ['anyType', 'anySimpleType', 'anyAtomicType', 'untypedAtomic', 'string', 'normalizedString',
            'token', 'boolean', 'decimal', 'integer', 'nonPositiveInteger', 'negativeInteger', 'long',
            'int', 'short', 'byte', 'nonNegativeInteger', 'unsignedLong', 'unsignedInt',
            'unsignedShort', 'unsignedByte', 'positiveInteger', 'double', 'date', 'anyURI',
            'dateTime', 'gYear', 'gYearMonth']
INT_BOUNDS = {
    'integer': (None, None), 'nonPositiveInteger': (None, 0), 'negativeInteger': (None, -1),
    'long': (-2 ** 63, 2 ** 63 - 1), 'int': (-2 ** 31, 2 ** 31 - 1), 'short': (-2 ** 15, 2 ** 15 - 1),
    'byte': (-128, 127), 'nonNegativeInteger': (0, None), 'unsignedLong': (0, 2 ** 64 - 1),
    'unsignedInt': (0, 2 ** 32 - 1), 'unsignedShort': (0, 65535), 'unsignedByte': (0, 255),
    'positiveInteger': (1, None)}
ATOMIC_LEAVES = ['string', 'normalizedString', 'token', 'boolean', 'decimal', 'integer', 'nonPositiveInteger',
                 'negativeInteger', 'long', 'int', 'short', 'byte', 'nonNegativeInteger', 'unsignedLong',
                 'unsignedInt', 'unsignedShort', 'unsignedByte', 'positiveInteger', 'double', 'date', 'anyURI',
                 'dateTime', 'gYear', 'gYearMonth', 'date', 'dateTime']
# python class name of an atomic value -> builtin local name
CLASS_OF = {'bool': 'boolean', 'str': 'string', 'Decimal': 'decimal', 'float': 'double',
            'UntypedAtomic': 'untypedAtomic', 'XsdToken': 'token', 'NormalizedString': 'normalizedString',
            'AnyURI': 'anyURI', 'Integer': 'integer', 'Long': 'long',
            'Int': 'int', 'Short': 'short', 'Byte': 'byte', 'NonPositiveInteger': 'nonPositiveInteger',
            'NegativeInteger': 'negativeInteger', 'NonNegativeInteger': 'nonNegativeInteger',
            'PositiveInteger': 'positiveInteger', 'UnsignedLong': 'unsignedLong', 'UnsignedInt': 'unsignedInt',
            'UnsignedShort': 'unsignedShort', 'UnsignedByte': 'unsignedByte'}


# date-like prototypes depend on the XSD version of the schema (decoder._ATOMIC_VALUES['1.0'/'1.1'])
DATE_CLASSES = {'1.0': {'Date10': 'date', 'DateTime10': 'dateTime', 'GregorianYear10': 'gYear',
                        'GregorianYearMonth10': 'gYearMonth'},
                '1.1': {'Date': 'date', 'DateTime': 'dateTime', 'GregorianYear': 'gYear',
                        'GregorianYearMonth': 'gYearMonth'}}
DATE_LIKE = ('date', 'dateTime', 'gYear', 'gYearMonth')
CUR_VERSION = ['1.0']       # version of the schema whose values are being canonicalised


def enc(s: str) -> str:
    return '=' + '.'.join(str(ord(c)) for c in s)


def clark(local: str, ns: str = NS) -> str:
    return '{%s}%s' % (ns, local) if ns else local


# ======================================================================================
# schema representation (python side) and its two renderings: XSD text, driver tokens
#   stype : ('B', local) | ('R', name, base, facets) | ('L', name, item) | ('U', name, [members])
#   facets: {'enum': [str]|None, 'min': int|None, 'max': int|None}
#   ctype : {'name', 'content': ('cs', stype)|'ce'|'cm'|'cz', 'particles': [...], 'attrs': [...],
#            'base': id|None (complex extension), 'own_particles', 'own_attrs'}
#   elem  : {'name' (local), 'ty': ('TS', stype)|('TC', id), 'nillable', 'default', 'global', 'subst_of'}
#   particle: ('PE', elem, [subst local names], occurs) | ('PA', None|[ns], occurs) | ('G', kind, [particles], occurs)
# ======================================================================================
class Schema:
    def __init__(self, version: str):
        self.version = version
        self.named_stypes: list = []      # stypes with a name, in definition order
        self.ctypes: list[dict] = []
        self.globals: list[dict] = []     # global element declarations

    # ---------------------------------------------------------------- XSD text
    def st_ref(self, st) -> str | None:
        if st[0] == 'B':
            return 'xs:' + st[1]
        if st[1] is not None:
            return 't:' + st[1]
        return None

    def st_xsd(self, st, name_attr: bool) -> str:
        """definition of a (named or anonymous) user simple type"""
        nm = f' name="{st[1]}"' if name_attr and st[1] else ''
        if st[0] == 'R':
            base = st[2]
            ref = self.st_ref(base)
            f = st[3]
            fx = ''
            for v in (f.get('enum') or []):
                fx += f'<xs:enumeration value="{v}"/>'
            if f.get('min') is not None:
                fx += f'<xs:minInclusive value="{f["min"]}"/>'
            if f.get('max') is not None:
                fx += f'<xs:maxInclusive value="{f["max"]}"/>'
            if ref:
                return f'<xs:simpleType{nm}><xs:restriction base="{ref}">{fx}</xs:restriction></xs:simpleType>'
            return (f'<xs:simpleType{nm}><xs:restriction>{self.st_xsd(base, False)}{fx}'
                    f'</xs:restriction></xs:simpleType>')
        if st[0] == 'L':
            ref = self.st_ref(st[2])
            if ref:
                return f'<xs:simpleType{nm}><xs:list itemType="{ref}"/></xs:simpleType>'
            return f'<xs:simpleType{nm}><xs:list>{self.st_xsd(st[2], False)}</xs:list></xs:simpleType>'
        if st[0] == 'U':
            refs = [self.st_ref(m) for m in st[2]]
            named = ' '.join(r for r in refs if r)
            anon = ''.join(self.st_xsd(m, False) for m, r in zip(st[2], refs) if not r)
            # memberTypes come first in the member order, then the anonymous children: the generator
            # keeps anonymous members last so that the order is the one written here
            mt = f' memberTypes="{named}"' if named else ''
            return f'<xs:simpleType{nm}><xs:union{mt}>{anon}</xs:union></xs:simpleType>'
        raise ValueError(st)

    def attr_xsd(self, a) -> str:
        ref = self.st_ref(a['type'])
        d = f' default="{a["default"]}"' if a.get('default') is not None and not a.get('fixed') else ''
        if a.get('default') is not None and a.get('fixed'):
            d = f' fixed="{a["default"]}"'
        use = ' use="required"' if a.get('required') else ''
        if ref:
            return f'<xs:attribute name="{a["name"]}" type="{ref}"{d}{use}/>'
        return f'<xs:attribute name="{a["name"]}"{d}{use}>{self.st_xsd(a["type"], False)}</xs:attribute>'

    @staticmethod
    def occ_xsd(occ) -> str:
        lo, hi = occ
        s = ''
        if lo != 1:
            s += f' minOccurs="{lo}"'
        if hi != 1:
            s += f' maxOccurs="{"unbounded" if hi is None else hi}"'
        return s

    def particle_xsd(self, p) -> str:
        if p[0] == 'PE':
            e, _, occ = p[1], p[2], p[3]
            if e.get('global'):
                return f'<xs:element ref="t:{e["name"]}"{self.occ_xsd(occ)}/>'
            return self.elem_xsd(e, self.occ_xsd(occ))
        if p[0] == 'PA':
            ns = '##any' if p[1] is None else ' '.join('##targetNamespace' if n == NS else n for n in p[1])
            if p[1] == ['##other']:
                ns = '##other'
            pc = p[3] if len(p) > 3 else 'lax'
            return f'<xs:any namespace="{ns}" processContents="{pc}"{self.occ_xsd(p[2])}/>'
        if p[0] == 'G':
            inner = ''.join(self.particle_xsd(q) for q in p[2])
            return f'<xs:{p[1]}{self.occ_xsd(p[3])}>{inner}</xs:{p[1]}>'
        raise ValueError(p)

    def ctype_body(self, ct) -> str:
        attrs = ''.join(self.attr_xsd(a) for a in ct['own_attrs'])
        c = ct['content']
        if isinstance(c, tuple):
            ref = self.st_ref(c[1])
            if ref is None:
                raise ValueError('simple content needs a named or builtin base')
            return f'<xs:simpleContent><xs:extension base="{ref}">{attrs}</xs:extension></xs:simpleContent>'
        group = '<xs:sequence>' + ''.join(self.particle_xsd(p) for p in ct['own_particles']) + '</xs:sequence>'
        if c == 'cz':
            group = ''
        asr = f'<xs:assert test="{esc(ct["assert"])}"/>' if ct.get('assert') else ''
        if ct.get('base') is not None:
            b = self.ctypes[ct['base']]
            return (f'<xs:complexContent><xs:extension base="t:{b["name"]}">{group}{attrs}{asr}'
                    f'</xs:extension></xs:complexContent>')
        return group + attrs + asr

    def ctype_xsd(self, ct, name_attr: bool) -> str:
        nm = f' name="{ct["name"]}"' if name_attr and ct['name'] else ''
        mixed = ' mixed="true"' if ct['content'] == 'cm' else ''
        return f'<xs:complexType{nm}{mixed}>{self.ctype_body(ct)}</xs:complexType>'

    def elem_xsd(self, e, occ: str = '') -> str:
        extra = ''
        if e.get('nillable'):
            extra += ' nillable="true"'
        if e.get('default') is not None:
            extra += f' default="{e["default"]}"'
        if e.get('subst_of'):
            extra += f' substitutionGroup="t:{e["subst_of"]}"'
        ty = e['ty']
        if ty[0] == 'TS':
            ref = self.st_ref(ty[1])
            if ref:
                return f'<xs:element name="{e["name"]}" type="{ref}"{extra}{occ}/>'
            return f'<xs:element name="{e["name"]}"{extra}{occ}>{self.st_xsd(ty[1], False)}</xs:element>'
        ct = self.ctypes[ty[1]]
        if ct['name']:
            return f'<xs:element name="{e["name"]}" type="t:{ct["name"]}"{extra}{occ}/>'
        return f'<xs:element name="{e["name"]}"{extra}{occ}>{self.ctype_xsd(ct, False)}</xs:element>'

    def xsd(self) -> str:
        out = [f'<xs:schema xmlns:xs="{XSD_NS}" xmlns:t="{NS}" targetNamespace="{NS}" '
               f'elementFormDefault="qualified">']
        for st in self.named_stypes:
            out.append(self.st_xsd(st, True))
        for ct in self.ctypes:
            if ct['name']:
                out.append(self.ctype_xsd(ct, True))
        for e in self.globals:
            out.append(self.elem_xsd(e))
        out.append('</xs:schema>')
        return ''.join(out)

    # ---------------------------------------------------------------- driver tokens
    def st_tok(self, st) -> list[str]:
        if st[0] == 'B':
            return ['B', st[1]]
        nm = clark(st[1]) if st[1] else '~'
        if st[0] == 'R':
            f = st[3]
            ft = (['~'] if f.get('enum') is None else [str(len(f['enum']))] + [enc(v) for v in f['enum']])
            ft += ['~' if f.get('min') is None else str(f['min']), '~' if f.get('max') is None else str(f['max'])]
            return ['R', nm] + self.st_tok(st[2]) + ft
        if st[0] == 'L':
            return ['L', nm] + self.st_tok(st[2])
        if st[0] == 'U':
            out = ['U', nm, str(len(st[2]))]
            for m in st[2]:
                out += self.st_tok(m)
            return out
        raise ValueError(st)

    def ty_tok(self, ty) -> list[str]:
        return ['TS'] + self.st_tok(ty[1]) if ty[0] == 'TS' else ['TC', str(ty[1])]

    def elem_tok(self, e) -> list[str]:
        return ['D', clark(e['name'])] + self.ty_tok(e['ty']) + ['1' if e.get('nillable') else '0',
                                                                  '~' if e.get('default') is None else enc(e['default'])]

    def flat_particles(self, ps) -> list:
        out = []
        for p in ps:
            if p[0] == 'G':
                out += self.flat_particles(p[2])
            else:
                out.append(p)
        return out

    def all_particles(self, ct) -> list:
        base = self.all_particles(self.ctypes[ct['base']]) if ct.get('base') is not None else []
        return base + self.flat_particles(ct['own_particles'])

    def all_attrs(self, ct) -> list:
        base = self.all_attrs(self.ctypes[ct['base']]) if ct.get('base') is not None else []
        return base + ct['own_attrs']

    def tokens(self) -> list[str]:
        out = [str(len(self.ctypes))]
        for ct in self.ctypes:
            c = ct['content']
            out += ['C', clark(ct['name']) if ct['name'] else '~']
            out += (['cs'] + self.st_tok(c[1])) if isinstance(c, tuple) else [c]
            ps = [] if isinstance(c, tuple) else self.all_particles(ct)
            out.append(str(len(ps)))
            for p in ps:
                if p[0] == 'PE':
                    out += ['PE'] + self.elem_tok(p[1]) + [str(len(p[2]))] + [clark(n) for n in p[2]]
                else:
                    sk = '1' if (len(p) > 3 and p[3] == 'skip') else '0'
                    out += ['PA', sk, '~'] if p[1] is None else ['PA', sk, str(len(p[1]))] + [ONS if n == '##other' else n for n in p[1]]
            ats = self.all_attrs(ct)
            out.append(str(len(ats)))
            for a in ats:
                out += ['A', a['name']] + self.st_tok(a['type']) + ['~' if a.get('default') is None else enc(a['default'])]
        out.append(str(len(self.globals)))
        for e in self.globals:
            out += self.elem_tok(e)
        named = [(clark(st[1]), ['TS'] + self.st_tok(st)) for st in self.named_stypes]
        named += [(clark(ct['name']), ['TC', str(i)]) for i, ct in enumerate(self.ctypes) if ct['name']]
        out.append(str(len(named)))
        for n, t in named:
            out += [n] + t
        return out


# ======================================================================================
# generators
# ======================================================================================
STR_VOCAB = ['zz', 'a b', ' a  b ', 'x', 'true', '7', '-3', '1.5', 'NaN', 'INF', 'inf', 'nan', 'Infinity', '1e5',
             '2001-01-01', '300', 'hello world', 'tab\there', '0', '1', 'false', '']
INT_SAMPLES = [0, 1, -1, 7, 42, 100, 127, 128, -128, -129, 255, 256, 300, 32767, 32768, 65535, 65536,
               2 ** 31 - 1, 2 ** 31, -2 ** 31, 2 ** 32 - 1, 2 ** 63 - 1, 2 ** 63, 10 ** 20, -5, 99999999999]


def in_bounds(b: str, v: int) -> bool:
    lo, hi = INT_BOUNDS[b]
    return (lo is None or lo <= v) and (hi is None or v <= hi)


def ws_wrap(rng, s: str) -> str:
    r = rng.random()
    if r < 0.75:
        return s
    return rng.choice([' ', '  ', '\n', ' \t']) + s + rng.choice([' ', '', '\n '])


def gen_builtin_text(rng, b: str) -> str:
    """a valid literal of builtin b (collapse types may get surrounding white space)"""
    if b in INT_BOUNDS:
        cand = [v for v in INT_SAMPLES if in_bounds(b, v)] or [0]
        v = rng.choice(cand)
        s = str(v)
        if v >= 0 and rng.random() < 0.1:
            s = '+' + s
        if rng.random() < 0.08:
            s = s.replace('-', '-00') if s.startswith('-') else '00' + s.lstrip('+')
        return ws_wrap(rng, s)
    if b == 'boolean':
        return ws_wrap(rng, rng.choice(['true', 'false', '1', '0']))
    if b == 'decimal':
        return ws_wrap(rng, rng.choice(['1.50', '0', '-0', '.5', '5.', '+3.25', '100', '-12.000', '007.10',
                                        '123456789012345678901234567890.5']))
    if b == 'double':
        return ws_wrap(rng, rng.choice(['1e3', '1.5', '-0', 'INF', '-INF', 'NaN', '0', '12', '1E-2', '.5', '4.']))
    if b in DATE_LIKE:
        v11 = CUR_VERSION[0] == '1.1'
        years = ['2001', '1999', '2020', '0001', '-0001', '-0044', '12345', '-12345'] + (['0000', '0000'] if v11 else [])
        y = rng.choice(years)
        tz = rng.choice(['', '', 'Z', '+05:30', '-08:00'])
        leap = y in ('2020', '0000')
        md = rng.choice(['01-01', '12-31', '03-15', '02-28'] + (['02-29'] if leap else []))
        if b == 'date':
            t = f'{y}-{md}{tz}'
        elif b == 'dateTime':
            t = f'{y}-{md}T{rng.choice(["00:00:00", "12:30:15", "23:59:59.5", "09:26:54.125"])}{tz}'
        elif b == 'gYear':
            t = y + tz
        else:
            t = f'{y}-{md[:2]}{tz}'
        return ws_wrap(rng, t)
    if b == 'anyURI':
        return ws_wrap(rng, rng.choice(['http://example.com/a', 'urn:x:y', 'a/b', '']))
    if b == 'token':
        return rng.choice(['a b', ' a   b ', 'x', '', 'tok\n en'])
    if b == 'normalizedString':
        return rng.choice(['a b', ' a \t b ', 'x', '', 'line\nbreak'])
    if b in ('string', 'anySimpleType', 'anyAtomicType', 'untypedAtomic', 'anyType'):
        return rng.choice(STR_VOCAB)
    raise ValueError(b)


def st_leaf(st) -> str | None:
    """builtin at the bottom of an atomic restriction chain"""
    while st[0] == 'R':
        st = st[2]
    return st[1] if st[0] == 'B' else None


def has_union(st) -> bool:
    if st[0] == 'B':
        return False
    if st[0] == 'U':
        return True
    return has_union(st[2])


def has_datelike(st) -> bool:
    if st[0] == 'B':
        return st[1] in DATE_LIKE
    if st[0] == 'U':
        return any(has_datelike(m) for m in st[2])
    return has_datelike(st[2])


def st_variety(st) -> str:
    while st[0] == 'R':
        st = st[2]
    return {'B': 'atomic', 'L': 'list', 'U': 'union'}[st[0]]


def gen_text(rng, st, depth=0) -> str:
    """a literal valid for simple type st"""
    if st[0] == 'B':
        return gen_builtin_text(rng, st[1])
    if st[0] == 'R':
        f = st[3]
        if f.get('enum'):
            return ws_wrap(rng, rng.choice(f['enum'])) if st_leaf(st) not in ('string', 'normalizedString') else rng.choice(f['enum'])
        if f.get('min') is not None or f.get('max') is not None:
            leaf = st_leaf(st)
            lo, hi = f.get('min'), f.get('max')
            cand = [v for v in INT_SAMPLES if in_bounds(leaf, v) and (lo is None or v >= lo) and (hi is None or v <= hi)]
            # nested restrictions: respect the inner bounds too
            inner = st[2]
            while inner[0] == 'R':
                g = inner[3]
                cand = [v for v in cand if (g.get('min') is None or v >= g['min']) and (g.get('max') is None or v <= g['max'])]
                inner = inner[2]
            return ws_wrap(rng, str(rng.choice(cand or [lo if lo is not None else hi])))
        return gen_text(rng, st[2], depth)
    if st[0] == 'L':
        n = rng.choice([0, 1, 2, 2, 3, 4])
        items = []
        for _ in range(n):
            for _try in range(4):
                t = ' '.join(gen_text(rng, st[2], depth + 1).split())
                if t and ' ' not in t:
                    items.append(t)
                    break
        sep = rng.choice([' ', ' ', '  ', '\n'])
        return ws_wrap(rng, sep.join(items))
    if st[0] == 'U':
        m = rng.choice(st[2])
        if rng.random() < 0.3 and any(x[0] == 'B' and x[1] in ('string', 'token', 'normalizedString') for x in st[2]):
            return rng.choice(STR_VOCAB)
        return gen_text(rng, m, depth + 1)
    raise ValueError(st)


class Gen:
    def __init__(self, rng, version: str, quick: bool = True):
        CUR_VERSION[0] = version
        self.rng = rng
        self.sch = Schema(version)
        self.n = 0
        self.quick = quick

    def fresh(self, prefix: str) -> str:
        self.n += 1
        return f'{prefix}{self.n}'

    def local_name(self, used: set) -> str:
        """a local element name: new, or (30%) one already used in ANOTHER content model — legal XSD,
        and the case the per-content-model match cache must keep apart"""
        pool = [n for n in getattr(self, 'local_names', []) if n not in used]
        if pool and self.rng.random() < 0.3:
            n = self.rng.choice(pool)
        else:
            n = self.fresh('e')
            self.__dict__.setdefault('local_names', []).append(n)
        used.add(n)
        return n

    # ------------------------------------------------------------- simple types
    def atomic_builtin(self) -> tuple:
        r = self.rng
        return ('B', r.choice(ATOMIC_LEAVES + ['int', 'boolean', 'decimal', 'string', 'integer', 'double', 'token']))

    def union_member_builtin(self) -> tuple:
        """date-like members are left out of unions: their Python constructors depend on the XSD
        version at the year bounds (the decoder model is version-agnostic there)"""
        while True:
            b = self.atomic_builtin()
            if b[1] not in DATE_LIKE:
                return b

    def restriction(self, base, named: bool) -> tuple:
        r = self.rng
        leaf = st_leaf(base)
        f = {'enum': None, 'min': None, 'max': None}
        if st_variety(base) == 'atomic' and leaf in INT_BOUNDS and r.random() < 0.7:
            lo, hi = INT_BOUNDS[leaf]
            cand = [v for v in INT_SAMPLES if in_bounds(leaf, v)]
            if base[0] == 'R':
                g = base[3]
                cand = [v for v in cand if (g.get('min') is None or v >= g['min']) and (g.get('max') is None or v <= g['max'])]
            cand = sorted(cand) or [0]
            a, b = sorted([r.choice(cand), r.choice(cand)])
            if r.random() < 0.5:
                f['max'] = b
            else:
                f['min'], f['max'] = a, b
        elif st_variety(base) == 'atomic' and leaf in ('string', 'token', 'normalizedString') and r.random() < 0.7 and base[0] == 'B':
            f['enum'] = r.sample(['a b', 'c', 'x y z', 'zz', 'true', '7'], r.randint(1, 3))
        st = ('R', self.fresh('rt') if named else None, base, f)
        if named:
            self.sch.named_stypes.append(st)
        return st

    def simple_type(self, depth=0, allow=('atomic', 'list', 'union'), named=None) -> tuple:
        r = self.rng
        force = named is True
        if named is None:
            named = r.random() < 0.6
        k = r.random()
        if depth >= 2 or k < 0.40 or 'list' not in allow and 'union' not in allow:
            b = self.atomic_builtin()
            if r.random() < 0.35 or 'builtin' in allow and False:
                st = self.restriction(b, named)
                if r.random() < 0.25:
                    st = self.restriction(st, named=(force or r.random() < 0.6))
                return st
            return b
        if k < 0.65 and 'list' in allow:
            item = self.simple_type(depth + 1, allow=('atomic', 'union') if r.random() < 0.25 else ('atomic',))
            if item[0] != 'B' and item[1] is None and r.random() < 0.5:
                pass
            st = ('L', self.fresh('lt') if named else None, item)
            if named:
                self.sch.named_stypes.append(st)
            if r.random() < 0.15 and named:
                st = ('R', self.fresh('rl'), st, {'enum': None, 'min': None, 'max': None})
                self.sch.named_stypes.append(st)
            return st
        if 'union' in allow:
            n = r.randint(2, 3)
            ms = []
            for _ in range(n):
                q = r.random()
                if q < 0.6:
                    ms.append(self.union_member_builtin())
                elif q < 0.8:
                    ms.append(self.restriction(self.union_member_builtin(), named=True))
                else:
                    allow = ('atomic', 'list') if q < 0.9 and depth == 0 else ('atomic', 'union')
                    while True:
                        m = self.simple_type(depth + 1, allow=allow, named=True)
                        if not has_datelike(m):
                            break
                    ms.append(m)
            if r.random() < 0.6:
                ms.append(('B', r.choice(['string', 'token', 'string'])))
            # named/builtin members (memberTypes=) first, anonymous children after: all are named here
            st = ('U', self.fresh('ut') if named else None, ms)
            if named:
                self.sch.named_stypes.append(st)
            if r.random() < 0.12 and named:
                st = ('R', self.fresh('ru'), st, {'enum': None, 'min': None, 'max': None})
                self.sch.named_stypes.append(st)
            return st
        return self.atomic_builtin()

    # ------------------------------------------------------------- attributes / complex types
    def attr_decls(self, with_defaults: bool) -> list:
        r = self.rng
        out = []
        for i in range(r.choice([0, 1, 1, 2, 3])):
            st = self.simple_type(depth=1, allow=('atomic', 'list'))
            a = {'name': f'a{i}', 'type': st, 'default': None, 'required': r.random() < 0.3}
            if with_defaults and not a['required'] and not has_union(st) and r.random() < 0.5:
                a['default'] = ' '.join(gen_text(r, st).split())
                a['fixed'] = r.random() < 0.3
            out.append(a)
        return out

    def new_ctype(self, content, particles=(), attrs=(), name=None, base=None) -> int:
        ct = {'name': name, 'content': content, 'own_particles': list(particles), 'own_attrs': list(attrs), 'base': base}
        self.sch.ctypes.append(ct)
        return len(self.sch.ctypes) - 1

    def simple_content_type(self, with_defaults: bool) -> int:
        r = self.rng
        st = self.simple_type(depth=1, allow=('atomic', 'list'), named=True)   # extension base must be referable
        return self.new_ctype(('cs', st), attrs=self.attr_decls(with_defaults),
                              name=self.fresh('sc') if r.random() < 0.6 else None)

    def local_elem(self, name: str, depth: int, with_defaults: bool) -> dict:
        r = self.rng
        k = r.random()
        e = {'name': name, 'nillable': False, 'default': None}
        if k < 0.55 or depth >= 2:
            st = self.simple_type()
            e['ty'] = ('TS', st)
            if r.random() < 0.2:
                e['nillable'] = True
            if r.random() < 0.15 and not has_union(st):
                e['default'] = ' '.join(gen_text(r, st).split())
        elif k < 0.72:
            e['ty'] = ('TC', self.simple_content_type(with_defaults))
            if r.random() < 0.2:
                e['nillable'] = True
        elif k < 0.90:
            e['ty'] = ('TC', self.element_only_type(depth + 1, with_defaults))
        elif k < 0.95:
            ps = [('PE', self.local_elem(self.fresh('m'), 2, with_defaults), [], (0, None))]
            e['ty'] = ('TC', self.new_ctype('cm', ps, self.attr_decls(with_defaults)))
        else:
            e['ty'] = ('TC', self.new_ctype('cz', (), self.attr_decls(with_defaults)))
        return e

    def occurs(self):
        return self.rng.choice([(1, 1), (0, 1), (0, None), (1, 3), (0, 2), (1, None)])

    def element_only_type(self, depth: int, with_defaults: bool, name=None) -> int:
        r = self.rng
        ps = []
        used: set = set()
        for _ in range(r.randint(1, 3 if depth else 6)):
            e = self.local_elem(self.local_name(used), depth, with_defaults)
            p = ('PE', e, [], self.occurs())
            if r.random() < 0.15:
                e2 = self.local_elem(self.local_name(used), 2, with_defaults)
                p = ('G', 'choice', [p, ('PE', e2, [], (1, 1))], (0, None))
            ps.append(p)
        if name is None and r.random() < 0.35:
            name = self.fresh('ct')
        return self.new_ctype('ce', ps, self.attr_decls(with_defaults) if r.random() < 0.5 else [], name=name)

    # ------------------------------------------------------------- whole schema
    def schema(self) -> Schema:
        r, s = self.rng, self.sch
        with_defaults = r.random() < 0.25
        s.with_defaults = with_defaults
        ps = []
        used: set = set()
        for _ in range(r.randint(3, 7)):
            ps.append(('PE', self.local_elem(self.local_name(used), 0, with_defaults), [], self.occurs()))
        # an element whose declared type can be overridden by xsi:type
        s.xsi_elems = []
        if r.random() < 0.7:
            e = {'name': self.fresh('x'), 'ty': ('TS', ('B', r.choice(['decimal', 'integer', 'anySimpleType', 'string']))),
                 'nillable': False, 'default': None}
            ps.append(('PE', e, [], (0, 3)))
            s.xsi_elems.append(e)
        if r.random() < 0.5:
            base = self.element_only_type(1, with_defaults, name=self.fresh('bt'))
            extra = [('PE', self.local_elem(self.fresh('e'), 2, with_defaults), [], (1, 1))]
            der = self.new_ctype('ce', extra, [{'name': 'k', 'type': ('B', 'int'), 'default': None, 'required': False}],
                                 name=self.fresh('dt'), base=base)
            e = {'name': self.fresh('x'), 'ty': ('TC', base), 'nillable': False, 'default': None, 'derived': der}
            ps.append(('PE', e, [], (0, 2)))
            s.xsi_elems.append(e)
        # substitution group
        if r.random() < 0.5:
            hb = r.choice(['decimal', 'integer', 'string', 'anySimpleType'])
            head = {'name': self.fresh('h'), 'ty': ('TS', ('B', hb)), 'global': True, 'nillable': False, 'default': None}
            sub_b = {'decimal': ['decimal', 'integer', 'int'], 'integer': ['integer', 'long', 'byte'],
                     'string': ['string', 'token'], 'anySimpleType': ['boolean', 'int', 'date']}[hb]
            members = []
            for _ in range(r.randint(1, 2)):
                members.append({'name': self.fresh('s'), 'ty': ('TS', ('B', r.choice(sub_b))), 'global': True,
                                'subst_of': head['name'], 'nillable': False, 'default': None})
            s.globals += [head] + members
            ps.append(('PE', head, [m['name'] for m in members], (0, None)))
        # XSD 1.1: a complex type with an assertion over its typed children (evaluated by xmlschema
        # through elementpath with a proxy whose base element is the xs:assert)
        s.assert_elems = []
        if s.version == '1.1' and r.random() < 0.6:
            b = r.choice(['int', 'integer', 'decimal', 'short', 'unsignedByte', 'long', 'nonNegativeInteger'])
            lo = {'name': 'lo', 'ty': ('TS', ('B', b)), 'nillable': False, 'default': None}
            hi = {'name': 'hi', 'ty': ('TS', ('B', b)), 'nillable': False, 'default': None}
            test = r.choice(['t:lo le t:hi', 't:hi ge t:lo', '(t:hi - t:lo) ge 0', 'not(t:lo gt t:hi)'])
            cid_ = self.new_ctype('ce', [('PE', lo, [], (1, 1)), ('PE', hi, [], (1, 1))],
                                  [{'name': 'k', 'type': ('B', 'int'), 'default': None, 'required': False}],
                                  name=self.fresh('rg'))
            s.ctypes[cid_]['assert'] = test
            s.ctypes[cid_]['assert_builtin'] = b
            e = {'name': self.fresh('r'), 'ty': ('TC', cid_), 'nillable': False, 'default': None}
            ps.insert(r.randint(0, len(ps)), ('PE', e, [], (0, 2)))
            s.assert_elems.append(e)
        # a mixed / anyType element
        if r.random() < 0.3:
            ps.append(('PE', {'name': self.fresh('y'), 'ty': ('TS', ('B', 'anyType')), 'nillable': False,
                              'default': None}, [], (0, 1)))
        # wildcard (last particle)
        s.wild = None
        if r.random() < 0.55:
            if s.version == '1.1' and r.random() < 0.65:
                g = {'name': self.fresh('g'), 'ty': ('TS', self.simple_type(depth=1, allow=('atomic',))), 'global': True,
                     'nillable': False, 'default': None}
                s.globals.append(g)
                s.wild = ('target', g)
                # XSD 1.1: the wildcard may stand anywhere, also BEFORE element particles it overlaps with
                nss = lambda: r.choice([None, None, [NS], [NS, ONS], [ONS, NS]])
                pcs = lambda: r.choice(['lax', 'lax', 'strict', 'skip'])
                if r.random() < 0.5:
                    # SEVERAL wildcards accepting the same names, different processContents, in every
                    # order, mixed with the declarations (the earlier ones with a fixed occurrence:
                    # Unique Particle Attribution); the FIRST matching particle decides the typing
                    i = r.randint(0, len(ps))
                    ps.insert(i, ('PA', nss(), r.choice([(1, 1), (1, 1), (2, 2)]), pcs()))
                    if r.random() < 0.4:
                        i = r.randint(i + 1, len(ps))
                        ps.insert(i, ('PA', nss(), (1, 1), pcs()))
                    ps.insert(r.randint(i + 1, len(ps)), ('PA', nss(), (0, 2), pcs()))
                else:
                    ps.insert(r.randint(0, len(ps)), ('PA', nss(), (0, 2), pcs()))
            else:
                s.wild = ('other', None)
                ps.append(('PA', ['##other'], (0, None), r.choice(['lax', 'lax', 'skip'])))
        root_ct = self.new_ctype('ce', ps, self.attr_decls(with_defaults) if r.random() < 0.4 else [])
        s.root = {'name': 'root', 'ty': ('TC', root_ct), 'global': True, 'nillable': False, 'default': None}
        s.globals.insert(0, s.root)
        return s


# ======================================================================================
# instances
#   node = {'name': clark, 'attrs': [(clark-or-plain name, value)], 'kids': [node | str], 'xsi': lexical|None}
# ======================================================================================
class InstGen:
    def __init__(self, rng, sch: Schema):
        self.rng, self.sch = rng, sch
        self.budget = 60

    def attrs_for(self, ct) -> list:
        r = self.rng
        out = []
        for a in self.sch.all_attrs(ct):
            if a.get('required') or r.random() < (0.4 if a.get('default') is not None else 0.55):
                v = a['default'] if a.get('fixed') else ' '.join(gen_text(r, a['type']).split())
                out.append((a['name'], v))
        r.shuffle(out)
        return out

    def content_for_simple(self, st, e) -> list:
        r = self.rng
        if e.get('default') is not None and r.random() < 0.5:
            return []
        t = gen_text(r, st)
        return [t] if t != '' else []

    def particles_content(self, ct, depth) -> list:
        r = self.rng
        kids = []

        def walk(ps):
            for p in ps:
                if p[0] == 'G':
                    lo, hi = p[3]
                    for _ in range(r.randint(lo, min(2, hi if hi is not None else 2))):
                        if p[1] == 'choice':
                            walk([r.choice(p[2])])
                        else:
                            walk(p[2])
                    continue
                lo, hi = p[3] if p[0] == 'PE' else p[2]
                n = r.randint(lo, max(lo, min(hi if hi is not None else 3, 3)))
                if self.budget <= 0:
                    n = lo
                for _ in range(n):
                    if p[0] == 'PE':
                        e = p[1]
                        if p[2] and r.random() < 0.6:
                            pick = r.choice(p[2])
                            e = next(g for g in self.sch.globals if g['name'] == pick)
                        kids.append(self.elem(e, depth + 1))
                    else:  # wildcard
                        kind, g = self.sch.wild
                        # apply_schema attributes a name to the FIRST particle of the content model that
                        # accepts it (whatever the position of the element): its processContents decides
                        def first_pc(ns_):
                            for q in self.sch.all_particles(ct):
                                if q[0] == 'PA' and (q[1] is None or ns_ in q[1] or (ns_ == ONS and q[1] == ['##other'])):
                                    return q[3] if len(q) > 3 else 'lax'
                            return None
                        here_other = p[1] is None or ONS in (p[1] or []) or p[1] == ['##other']
                        other_ok = here_other and (p[3] if len(p) > 3 else 'lax') != 'strict' and first_pc(ONS) != 'strict'
                        pc = first_pc(NS) or 'lax'
                        if kind == 'target' and (r.random() < 0.7 or not other_ok):
                            node = self.elem(g, depth + 1)
                            if pc == 'skip':
                                node['ty'] = None         # not assessed: expected xs:untyped
                                if (p[3] if len(p) > 3 else 'lax') == 'skip' and r.random() < 0.5 and \
                                        not any(not isinstance(k, str) for k in node['kids']):
                                    node['kids'] = ['not even valid']
                            kids.append(node)
                        else:
                            kids.append({'name': clark('q', ONS), 'attrs': [('z', '1')] if r.random() < 0.3 else [],
                                         'kids': [r.choice(['zz', '5'])] + ([{'name': clark('qq', ONS), 'attrs': [], 'kids': ['1'], 'xsi': None}] if r.random() < 0.3 else []),
                                         'xsi': None})
        walk(self.sch.all_particles_tree(ct))
        return kids

    def elem(self, e, depth=0) -> dict:
        r, s = self.rng, self.sch
        self.budget -= 1
        node = {'name': clark(e['name']), 'attrs': [], 'kids': [], 'xsi': None}
        ty = e['ty']
        node['decl'] = e
        # xsi:type override
        if e in getattr(s, 'xsi_elems', []) and r.random() < 0.6:
            if ty[0] == 'TC':
                ty = ('TC', e['derived'])
                node['xsi'] = r.choice(['t:', '']) + s.ctypes[e['derived']]['name']
            else:
                b = ty[1][1]
                opts = {'decimal': ['xs:decimal', 'xs:integer', 'xs:int', 'xs:byte'], 'integer': ['xs:int', 'xs:long', 'xs:nonNegativeInteger'],
                        'anySimpleType': ['xs:boolean', 'xs:int', 'xs:string', 'xs:date', 'xs:double'], 'string': ['xs:token', 'xs:string']}[b]
                user = [st for st in s.named_stypes if st_variety(st) == 'atomic' and
                        (b == 'anySimpleType' or self.derives(st_leaf(st), b))] if r.random() < 0.5 else []
                if b == 'anySimpleType' and r.random() < 0.3:
                    user = [st for st in s.named_stypes]
                if user:
                    st = r.choice(user)
                    node['xsi'] = r.choice(['t:', '', 't:']) + st[1]
                    ty = ('TS', st)
                else:
                    q = r.choice(opts)
                    if r.random() < 0.06:
                        node['xsi'] = 'undeclared:' + q.split(':')[1]      # unresolvable prefix (invalid instance)
                    else:
                        node['xsi'] = q
                    ty = ('TS', ('B', q.split(':')[1]))
            node['attrs'].append((XSI_TYPE, node['xsi']))
        node['ty'] = ty
        if e.get('nillable') and r.random() < 0.35:
            node['attrs'].append((XSI_NIL, r.choice(['true', '1'])))
            if ty[0] == 'TC':
                node['attrs'] += self.attrs_for(s.ctypes[ty[1]])
            return node
        if e.get('nillable') and r.random() < 0.15:
            node['attrs'].append((XSI_NIL, 'false'))
        if ty[0] == 'TS':
            st = ty[1]
            if st == ('B', 'anyType'):
                node['kids'] = [r.choice(['zz', '7'])] + ([{'name': clark('q', ONS), 'attrs': [], 'kids': [], 'xsi': None}] if r.random() < 0.4 else [])
            else:
                node['kids'] = self.content_for_simple(st, e)
            return node
        ct = s.ctypes[ty[1]]
        node['attrs'] += self.attrs_for(ct)
        c = ct['content']
        if isinstance(c, tuple):
            node['kids'] = self.content_for_simple(c[1], e)
        elif c == 'ce' and ct.get('assert'):
            b = ct['assert_builtin']
            if b == 'decimal':
                pool = [Decimal(x) for x in ('-12.5', '0', '1.50', '9', '10', '100.25')]
            else:
                pool = [v for v in (-7, 0, 1, 9, 10, 42, 100, 127, 255) if in_bounds(b, v)]
            a_, b_ = sorted([r.choice(pool), r.choice(pool)])
            mk = lambda nm, v: {'name': clark(nm), 'attrs': [], 'kids': [str(v)], 'xsi': None,
                                'decl': next(p[1] for p in ct['own_particles'] if p[1]['name'] == nm),
                                'ty': ('TS', ('B', b))}
            node['kids'] = [mk('lo', a_), mk('hi', b_)]
            node['range'] = (a_, b_)
        elif c == 'ce':
            node['kids'] = self.particles_content(ct, depth) if depth < 4 else self.particles_content(ct, depth)
        elif c == 'cm':
            ks = self.particles_content(ct, depth)
            out = []
            for k in ks:
                if r.random() < 0.6:
                    out.append(r.choice(['txt', ' a ', '5']))
                out.append(k)
            if r.random() < 0.6:
                out.append('end')
            node['kids'] = out
        return node

    BASES = {'integer': 'decimal', 'nonPositiveInteger': 'integer', 'negativeInteger': 'nonPositiveInteger',
             'long': 'integer', 'int': 'long', 'short': 'int', 'byte': 'short', 'nonNegativeInteger': 'integer',
             'unsignedLong': 'nonNegativeInteger', 'unsignedInt': 'unsignedLong', 'unsignedShort': 'unsignedInt',
             'unsignedByte': 'unsignedShort', 'positiveInteger': 'nonNegativeInteger', 'normalizedString': 'string',
             'token': 'normalizedString'}

    def derives(self, a: str | None, b: str) -> bool:
        while a is not None:
            if a == b:
                return True
            a = self.BASES.get(a)
        return False


def _all_particles_tree(self, ct):
    base = _all_particles_tree(self, self.ctypes[ct['base']]) if ct.get('base') is not None else []
    return base + ct['own_particles']


Schema.all_particles_tree = _all_particles_tree

XML_PREFIXES = {NS: None, ONS: 'o', XSI_NS: 'xsi', XSD_NS: 'xs'}


def esc(t: str) -> str:
    return t.replace('&', '&amp;').replace('<', '&lt;').replace('>', '&gt;').replace('"', '&quot;')


def qname_xml(name: str) -> str:
    if name.startswith('{'):
        ns, local = name[1:].split('}')
        pre = XML_PREFIXES[ns]
        return local if pre is None else f'{pre}:{local}'
    return name


def to_xml(node, top=True) -> str:
    tag = qname_xml(node['name'])
    ns = (f' xmlns="{NS}" xmlns:t="{NS}" xmlns:o="{ONS}" xmlns:xsi="{XSI_NS}" xmlns:xs="{XSD_NS}"' if top else '')
    attrs = ''.join(f' {qname_xml(n)}="{esc(v)}"' for n, v in node['attrs'])
    if not node['kids']:
        return f'<{tag}{ns}{attrs}/>'
    inner = ''.join(esc(k) if isinstance(k, str) else to_xml(k, False) for k in node['kids'])
    return f'<{tag}{ns}{attrs}>{inner}</{tag}>'


NSMAP = {'': NS, 't': NS, 'o': ONS, 'xsi': XSI_NS, 'xs': XSD_NS}


def resolve_xsi(lex: str) -> list[str]:
    """driver tokens of the xsi:type attribute (what get_expanded_name(xsi_type, nsmap) gives)"""
    lex = lex.strip()
    if ':' in lex:
        pre, local = lex.split(':', 1)
        if pre not in NSMAP:
            return ['u']
        return ['n', '{%s}%s' % (NSMAP[pre], local)]
    return ['n', '{%s}%s' % (NSMAP[''], lex)]


def forest_tokens(elem, tail_of=None) -> list[str]:
    """tokens of the sibling forest starting at etree element `elem` alone (root) — recursive on children"""
    def one(e) -> list[str]:
        out = ['E', e.tag, str(len(e.attrib))]
        for n, v in e.attrib.items():
            out += [n, enc(v)]
        out += resolve_xsi(e.attrib[XSI_TYPE]) if XSI_TYPE in e.attrib else ['a']
        # kids forest
        kids = []
        if e.text:
            kids.append(('t', e.text))
        for c in e:
            if callable(c.tag):
                kids.append(('c', c.text or ''))
            else:
                kids.append(('e', c))
            if c.tail:
                kids.append(('t', c.tail))
        out += seq(kids)
        return out

    def seq(items) -> list[str]:
        if not items:
            return ['N']
        k, v = items[0]
        if k == 'e':
            return one(v) + seq(items[1:])
        return ['X', k, enc(v)] + seq(items[1:])

    return one(elem) + ['N']


def index_tree(root) -> tuple[dict, dict]:
    """pre-order indices: element -> idx, (element idx, attr name) -> idx (text/comment leaves counted)"""
    eidx, aidx = {}, {}
    i = 0

    def walk(e):
        nonlocal i
        eidx[e] = i
        me = i
        i += 1
        for k, n in enumerate(e.attrib):
            aidx[(me, n)] = i
            i += 1
        aidx[(me, None)] = i          # position shared by defaulted attributes
        if e.text:
            i += 1
        for c in e:
            if callable(c.tag):
                i += 1
            else:
                walk(c)
            if c.tail:
                i += 1
    walk(root)
    return eidx, aidx


# ======================================================================================
# path expressions:  ('h',) ('r',) ('s', p, ax, test, q1, q2) ('t',) ('p', n) ('l',) ('le', n)
#                    ('ex', p) ('cg', p, n) ('no', q) ('an', q, r) ('or', q, r)
# ======================================================================================
def expr_tokens(e) -> list[str]:
    k = e[0]
    if k in ('h', 'r', 't', 'l'):
        return [k]
    if k in ('p', 'le'):
        return [k, str(e[1])]
    if k in ('ex', 'no'):
        return [k] + expr_tokens(e[1])
    if k == 'cg':
        return [k] + expr_tokens(e[1]) + [str(e[2])]
    if k in ('an', 'or'):
        return [k] + expr_tokens(e[1]) + expr_tokens(e[2])
    if k == 's':
        test = ['n', e[3][1]] if e[3][0] == 'n' else (['se', str(len(e[3][1]))] + list(e[3][1]) if e[3][0] == 'se' else [e[3][0]])
        return ['s'] + expr_tokens(e[1]) + [e[2]] + test + expr_tokens(e[4]) + expr_tokens(e[5])
    raise ValueError(e)


def name_xpath(n: str) -> str:
    if n.startswith('{'):
        ns, local = n[1:].split('}')
        return {NS: 't', ONS: 'o', XSI_NS: 'xsi'}[ns] + ':' + local
    return n


def test_xpath(ax: str, t) -> str:
    if t[0] == 'n':
        return name_xpath(t[1])
    if t[0] == 'se':
        return f'schema-element({name_xpath(t[1][0])})'
    return {'*': '*', 'nd': 'node()'}[t[0]]


def pred_xpath(q, top=True) -> str:
    k = q[0]
    if k == 'p':
        return str(q[1]) if top else f'position() = {q[1]}'
    if k == 'l':
        return 'last()' if top else 'position() = last()'
    if k == 'le':
        return f'position() <= {q[1]}'
    if k == 'ex':
        return path_xpath(q[1])
    if k == 'cg':
        return f'count({path_xpath(q[1])}) > {q[2]}'
    if k == 'no':
        return f'not({pred_xpath(q[1], False)})'
    if k in ('an', 'or'):
        return f'({pred_xpath(q[1], False)}) {"and" if k == "an" else k} ({pred_xpath(q[2], False)})'
    raise ValueError(q)


def path_xpath(e) -> str:
    """render; a step ('s', p, 'ds', ('nd',), t, t) directly followed by a child/attribute step is `//`"""
    if e[0] == 'h':
        return '.'
    if e[0] == 'r':
        return '/'
    _, p, ax, t, q1, q2 = e
    preds = ''.join(f'[{pred_xpath(q)}]' for q in (q1, q2) if q != ('t',))
    if ax == 'c':
        step = test_xpath(ax, t)
    elif ax == 'a':
        step = '@' + test_xpath(ax, t)
    else:
        step = {'d': 'descendant', 'ds': 'descendant-or-self', 's': 'self', 'pa': 'parent', 'an': 'ancestor',
                'fs': 'following-sibling', 'ps': 'preceding-sibling'}[ax] + '::' + test_xpath(ax, t)
        if ax == 'pa' and t == ('nd',) and not preds:
            step = '..'
    step += preds
    # `//` abbreviation
    if ax in ('c', 'a') and p[0] == 's' and p[2] == 'ds' and p[3] == ('nd',) and p[4] == ('t',) and p[5] == ('t',) and p[6:] == ('abbr',):
        pp = p[1]
        if pp[0] == 'r':
            return '//' + step
        if pp[0] == 'h':
            return './/' + step
        return path_xpath(pp) + '//' + step
    if p[0] == 'r':
        return '/' + step
    if p[0] == 'h':
        return step
    return path_xpath(p) + '/' + step


def strip_abbr(e):
    if e[0] == 's':
        return ('s', strip_abbr(e[1]), e[2], e[3], strip_abbr(e[4]), strip_abbr(e[5]))
    if e[0] in ('ex', 'no'):
        return (e[0], strip_abbr(e[1]))
    if e[0] == 'cg':
        return ('cg', strip_abbr(e[1]), e[2])
    if e[0] in ('an', 'or'):
        return (e[0], strip_abbr(e[1]), strip_abbr(e[2]))
    return e


class PathGen:
    def __init__(self, rng, elem_names: list[str], attr_names: list[str], globals_: list | None = None):
        self.rng = rng
        self.globals = globals_ or []      # [[head, member, ...], ...] clark names of global declarations
        self.en = elem_names + [clark('nosuch')]
        self.an = attr_names + ['nosuch']

    def test(self, ax: str):
        r = self.rng
        if ax == 'a':
            return ('*',) if r.random() < 0.4 else ('n', r.choice(self.an))
        k = r.random()
        if self.globals and ax in ('c', 'd', 'ds', 'fs', 'ps', 'an') and r.random() < 0.08:
            return ('se', tuple(r.choice(self.globals)))        # schema-element(N): N or a member of its group
        if k < 0.45:
            return ('n', r.choice(self.en))
        if k < 0.9:
            return ('*',)
        return ('nd',)

    def pred(self, depth: int):
        r = self.rng
        k = r.random()
        if depth >= 2 or k < 0.35:
            return r.choice([('p', 1), ('p', 2), ('l',), ('le', 2), ('p', 3)])
        if k < 0.6:
            return ('ex', self.rel(depth + 1))
        if k < 0.7:
            return ('cg', self.rel(depth + 1), r.choice([0, 1, 2]))
        if k < 0.8:
            return ('no', self.pred(depth + 1))
        return (r.choice(['an', 'or']), self.pred(depth + 1), self.pred(depth + 1))

    def steps(self, start, n: int, depth: int, at_doc: bool):
        r = self.rng
        e = start
        for i in range(n):
            first_at_doc = at_doc and i == 0
            k = r.random()
            if k < 0.3 and (i > 0 or start[0] in ('r', 'h')):
                e = ('s', e, 'ds', ('nd',), ('t',), ('t',), 'abbr')     # `//`
                ax = 'c' if r.random() < 0.8 else 'a'
            elif k < 0.75:
                ax = 'c'
            elif k < 0.85:
                ax = 'a' if not first_at_doc else 'c'
            elif k < 0.90:
                ax = r.choice(['d', 'ds'])
            elif k < 0.97:
                ax = r.choice(['pa', 'pa', 'an', 'fs', 'ps']) if not first_at_doc else 'd'
            else:
                ax = 's' if not first_at_doc else 'd'
            t = self.test(ax)
            if first_at_doc and t == ('nd',):
                t = ('*',)      # explicit axis::node() from the dummy document is C01's business
            q1 = self.pred(depth) if r.random() < 0.35 else ('t',)
            q2 = self.pred(depth) if q1 != ('t',) and r.random() < 0.2 else ('t',)
            if ax == 'a':       # attribute nodes: positional predicates only
                q1 = r.choice([('t',), ('t',), ('p', 1), ('l',)])
                q2 = ('t',)
            e = ('s', e, ax, t, q1, q2)
            if ax == 'a':
                break
        return e

    def rel(self, depth: int):
        return self.steps(('h',), self.rng.randint(1, 2), depth, False)

    def path(self):
        r = self.rng
        if r.random() < 0.75:
            return self.steps(('r',), r.randint(1, 4), 0, True)
        return self.steps(('h',), r.randint(1, 3), 0, False)


# ======================================================================================
# running the real code
# ======================================================================================
PNS = {'t': NS, 'o': ONS, 'xsi': XSI_NS, 'xs': XSD_NS}
XS = '{%s}' % XSD_NS


def expected_type_names(sch: Schema, node, out: list, known=True):
    """declarative oracle from the generator: the declared type of the declaration every element was
    generated from (xsi:type override applied); '?' = not checked (below a wildcard / xs:anyType)"""
    ty = node.get('ty')
    if not known or ty is None:
        out.append('?' if not known else XS + 'untyped')
        for k in node['kids']:
            if not isinstance(k, str):
                expected_type_names(sch, k, out, False)
        return
    if node['xsi'] is not None and node['xsi'].startswith('undeclared:'):
        out.append(XS + 'untyped')
        for k in node['kids']:
            if not isinstance(k, str):
                expected_type_names(sch, k, out, False)
        return
    if ty[0] == 'TS':
        st = ty[1]
        out.append(XS + st[1] if st[0] == 'B' else (clark(st[1]) if st[1] else None))
        sub_known = st != ('B', 'anyType')
    else:
        nm = sch.ctypes[ty[1]]['name']
        out.append(clark(nm) if nm else None)
        sub_known = True
    for k in node['kids']:
        if not isinstance(k, str):
            expected_type_names(sch, k, out, sub_known)


def expected_attr_types(sch: Schema, node, out: list, known=True):
    """per element (pre-order): {attribute name: declared type name} from the generator's own record of
    the governing complex type; None = element not checked"""
    ty = node.get('ty')
    ok = known and ty is not None and not (node['xsi'] or '').startswith('undeclared:')
    if ok and ty[0] == 'TC':
        d = {}
        for a in sch.all_attrs(sch.ctypes[ty[1]]):
            st = a['type']
            d[a['name']] = XS + st[1] if st[0] == 'B' else (clark(st[1]) if st[1] else '~')
        out.append(d)
    else:
        out.append(None)
    sub = ok and not (ty[0] == 'TS' and ty[1] == ('B', 'anyType'))
    for k in node['kids']:
        if not isinstance(k, str):
            expected_attr_types(sch, k, out, sub)


def canon_dec(d: Decimal) -> str:
    t = format(d, 'f')
    neg = t.startswith('-')
    t = t.lstrip('+-')
    ip, _, fp = t.partition('.')
    ip = ip.lstrip('0') or '0'
    fp = fp.rstrip('0')
    zero = ip == '0' and not fp
    return ('-' if neg and not zero else '') + ip + ('.' + fp if fp else '')


import re  # noqa: E402
XSD_DEC_RE = re.compile(r'^[+-]?([0-9]+(\.[0-9]*)?|\.[0-9]+)$')
WS = ' \t\n\r'


def canon_atom(v, toks: list[str], i: int, exact: bool) -> str:
    name = type(v).__name__
    cls = CLASS_OF.get(name) or DATE_CLASSES[CUR_VERSION[0]].get(name) or '?' + name
    if exact and i < len(toks):
        cands = [toks[i]]
    elif isinstance(i, tuple):      # (preferred position, all tokens): partial-yield lists (F20g)
        cands = [toks[i[0]]] + list(toks) if i[0] < len(toks) else list(toks)
    else:
        cands = list(toks)
    if isinstance(v, bool):
        val = 'true' if v else 'false'
    elif isinstance(v, int):
        val = str(int(v))
    elif isinstance(v, Decimal):
        val = None
        for t in cands:
            t = t.strip(WS)
            try:
                same = (Decimal(t) == v) or (Decimal(t).is_nan() and v.is_nan())
            except Exception:
                same = False
            if same:
                val = canon_dec(v) if XSD_DEC_RE.match(t) else 'py:' + t.lower()
                break
        if val is None:
            val = canon_dec(v) if v.is_finite() else 'py:?'
    elif isinstance(v, float):
        val = None
        for t in cands:
            t = t.strip(WS)
            try:
                f = float(t)
            except Exception:
                continue
            if f.hex() == v.hex() or (f != f and v != v):
                val = t
                break
        if val is None:
            val = 'hex:' + v.hex()
    elif cls in DATE_LIKE or hasattr(type(v), 'fromstring') and not isinstance(v, str):
        val = None
        for t in cands:
            t = t.strip(WS)
            try:
                if type(v).fromstring(t) == v:
                    val = t
                    break
            except Exception:
                continue
        if val is None:
            val = 'repr:' + repr(v)
    elif cls == 'untypedAtomic':
        val = v.value
    else:
        val = str(v)
    return cls + enc(val)


def canon_tv(node_tv, text: str | None, is_list_hint: bool) -> str:
    vs = node_tv if isinstance(node_tv, list) else [node_tv]
    text = text or ''
    toks = text.split() if is_list_hint else [text]
    exact = len(toks) == len(vs)
    if not exact and not is_list_hint and len(vs) > 1:
        # a union whose LIST member decoded the text: the atoms follow the tokens
        is_list_hint, toks = True, text.split()
        exact = len(toks) == len(vs)
    if not exact and not is_list_hint:
        toks = [text] + text.split()
    if exact or not is_list_hint or not toks:
        return 'ok[' + ','.join(canon_atom(v, toks, i, exact) for i, v in enumerate(vs)) + ']'
    # a list decoded prototype by prototype: every prototype restarts at the first token; follow it
    out, j = [], 0
    for v in vs:
        a = canon_atom(v, toks, (j,), False)
        b = canon_atom(v, toks, (0,), False)
        if j < len(toks) and canon_atom(v, [toks[j]], 0, True) == a and not a.endswith(enc('?')) and 'hex:' not in a and 'repr:' not in a:
            out.append(a)
            j += 1
        else:
            out.append(b)
            j = 1
    return 'ok[' + ','.join(out) + ']'


def impl_err(e: Exception) -> str:
    from elementpath.exceptions import ElementPathError
    if isinstance(e, ElementPathError):
        return 'err'
    return 'ERR:OTHER:' + type(e).__name__


class Impl:
    """one (schema, instance) pair loaded into the real code"""

    def __init__(self, case: dict, xs=None, proxy=None, validate=None):
        import xmlschema
        import lxml.etree as LE
        from xml.etree import ElementTree as ET
        from elementpath import XPath2Parser, XPathContext, get_node_tree
        self.case = case
        cls = xmlschema.XMLSchema10 if case['version'] == '1.0' else xmlschema.XMLSchema11
        self.xs = cls(case['xsd']) if xs is None else xs
        self.proxy = self.xs.xpath_proxy if proxy is None else proxy
        self.lib = case['lib']
        self.mod = LE if self.lib == 'lxml' else ET
        self.XPath2Parser, self.XPathContext, self.get_node_tree = XPath2Parser, XPathContext, get_node_tree
        if validate is None:
            validate = xs is None           # helper instances over a shared schema do not re-validate
        try:
            self.valid = bool(self.xs.built) and (not validate or not list(self.xs.iter_errors(case['xml'])))
        except Exception:
            self.valid = False
        self.parser_s = XPath2Parser(namespaces=dict(PNS), schema=self.proxy, variable_types={'v': 'item()'})
        self.parser_p = XPath2Parser(namespaces=dict(PNS))
        self.tok_cache: dict = {}

    def parse_xml(self):
        return self.mod.fromstring(self.case['xml'].encode())

    def ctx_namespaces(self):
        # ElementTree elements carry no nsmap: the in-scope namespaces of the instance are given
        return dict(PNS, **{'': NS}) if self.lib == 'etree' else dict(PNS)

    def tree(self, with_schema: bool, as_doc: bool):
        root = self.parse_xml()
        top = self.mod.ElementTree(root) if as_doc else root
        nt = self.get_node_tree(top, namespaces=self.ctx_namespaces())
        ctx = self.XPathContext(nt, namespaces=self.ctx_namespaces(), schema=self.proxy if with_schema else None)
        return root, nt, ctx

    def token(self, expr: str, with_schema: bool):
        key = (expr, with_schema)
        if key not in self.tok_cache:
            self.tok_cache[key] = (self.parser_s if with_schema else self.parser_p).parse(expr)
        return self.tok_cache[key]


def elem_text_for(node, elem) -> str:
    """the text the decoder is given (elem.text, else the declaration's value constraint)"""
    if elem.text is not None:
        return elem.text
    return getattr(node.xsd_element, 'value_constraint', None) or ''


def xs_decode(xsd_type, text: str):
    try:
        return ('ok', xsd_type.decode(text))
    except Exception as e:  # the trusted processor refuses the text
        return ('err', type(e).__name__)


def same_value(a, b) -> bool:
    """impl typed value vs the value xmlschema decodes (python values; no float compared as float)"""
    if isinstance(a, list) != isinstance(b, list):
        a = a if isinstance(a, list) else [a]
        b = b if isinstance(b, list) else [b]
    if isinstance(a, list):
        return len(a) == len(b) and all(same_value(x, y) for x, y in zip(a, b))
    if isinstance(a, bool) != isinstance(b, bool):
        return False
    if isinstance(a, float) or isinstance(b, float):
        if not (isinstance(a, float) and isinstance(b, float)):
            return False
        return a.hex() == b.hex() or (a != a and b != b)
    if isinstance(a, Decimal) != isinstance(b, Decimal):
        return False
    if isinstance(b, str) and hasattr(type(a), 'fromstring') and not isinstance(a, str):
        try:        # xmlschema leaves date items of a list undecoded
            return type(a).fromstring(b.strip()) == a
        except Exception:
            return False
    if type(a).__name__ == 'AnyURI':
        a = str(a)
    if type(b).__name__ == 'AnyURI':
        b = str(b)
    if isinstance(a, str) != isinstance(b, str):
        return False
    try:
        return bool(a == b)
    except Exception:
        return False


def node_index_maps(root, nt):
    """pre-order index of every XPath node of the tree `nt` built over etree `root`"""
    from elementpath.xpath_nodes import ElementNode, TextNode, CommentNode, DocumentNode
    eidx, aidx = index_tree(root)
    idx_of = {}
    # leaves: walk the XPath node tree in parallel
    top = nt
    if isinstance(top, DocumentNode):
        top = next(c for c in top.children if isinstance(c, ElementNode))

    def walk(n, start):
        idx_of[id(n)] = start
        i = start + 1 + len(n.elem.attrib)
        for c in n.children:
            if isinstance(c, ElementNode):
                i = walk(c, i)
            else:
                idx_of[id(c)] = i
                i += 1
        return i
    walk(top, 0)
    return eidx, aidx, idx_of, top


def run_select(impl: Impl, path: str, with_schema: bool, dummy: bool):
    from elementpath.xpath_nodes import AttributeNode, DocumentNode, XPathNode
    try:
        root, nt, ctx = impl.tree(with_schema, as_doc=not dummy)
        eidx, aidx, idx_of, _ = node_index_maps(root, nt)
        tok = impl.token(path, with_schema)
        out = []
        before = (ctx.item, ctx.axis)
        items = list(tok.select(ctx))
        if ctx.item is not before[0] or ctx.axis != before[1]:
            return 'ERR:context-not-restored'
        for x in items:
            if isinstance(x, DocumentNode):
                continue
            if isinstance(x, AttributeNode):
                owner = idx_of[id(x.parent)]
                out.append(aidx.get((owner, x.name), aidx[(owner, None)]))
            elif isinstance(x, XPathNode):
                out.append(idx_of[id(x)])
            else:
                return 'ERR:non-node:' + type(x).__name__
        return ','.join(str(i) for i in sorted(set(out))) or '_'
    except Exception as e:  # noqa
        from elementpath.exceptions import ElementPathError
        if isinstance(e, ElementPathError):
            return 'ERR:' + (getattr(e, 'code', None) or type(e).__name__).split(':')[-1]
        return 'ERR:OTHER:' + type(e).__name__


def impl_records(impl: Impl, reuse=None, mode='ctx') -> dict:
    """type names, declarations, typed values of every element / attribute node, schema applied"""
    from elementpath.xpath_nodes import ElementNode
    if reuse is None:
        root, nt, ctx = impl.tree(True, as_doc=False)
    else:       # a NEW context over an EXISTING node tree (mode: 'ctx' | 'direct' | 'none')
        root, nt = reuse
        if mode == 'direct':        # apply_schema called on the typed tree, no clear_types() before
            nt.apply_schema(impl.proxy)
            ctx = None
        else:
            ctx = impl.XPathContext(nt, namespaces=impl.ctx_namespaces(),
                                    schema=None if mode in ('none', 'keep') else impl.proxy)
            if mode == 'none':
                ctx.schema = None       # the setter's clearing branch (the constructor does not clear)
    eidx, aidx, idx_of, top = node_index_maps(root, nt)
    recs = {}
    nodes = {}
    for elem, i in eidx.items():
        node = nt.tree.elements[elem]
        nodes['n%d' % i] = (node, elem)
        try:
            tn = node.type_name
        except Exception as e:
            tn = impl_err(e)
        is_list = bool(node.xsd_type is not None and node.xsd_type.is_list())
        txt = elem_text_for(node, elem)
        try:
            tv = node.typed_value
            m = canon_tv(tv, txt, is_list)
        except Exception as e:
            tv, m = None, impl_err(e)
        recs['n%d' % i] = {'T': '~' if tn is None else tn, 'E': '1' if node.xsd_element is not None else '0',
                           'M': m, 'tv': tv, 'text': txt}
        try:
            attrs = list(node.attributes)
        except Exception as e:
            recs['a%d.ERR' % i] = {'N': impl_err(e)}
            attrs = []
        for k, a in enumerate(attrs):
            try:
                atn = a.type_name
            except Exception as e:
                atn = impl_err(e)
            al = bool(a.xsd_type is not None and a.xsd_type.is_list())
            try:
                atv = a.typed_value
                am = canon_tv(atv, a.value, al)
            except Exception as e:
                atv, am = None, impl_err(e)
            key = 'a%d.%d' % (i, k)
            recs[key] = {'N': a.name, 'T': '~' if atn is None else atn, 'D': '0' if a.name in elem.attrib else '1',
                         'M': am, 'tv': atv, 'text': a.value}
            nodes[key] = (a, elem)
    return {'recs': recs, 'nodes': nodes, 'ctx': ctx, 'nt': nt, 'root': root}


def parse_answer(ans: str) -> dict:
    out = {}
    for rec in ans.split(';'):
        parts = rec.split('|')
        key = parts[0]
        if key == 'c':
            out['c'] = parts[1:]
            continue
        d = {}
        for f in parts[1:]:
            k, _, v = f.partition('=')
            d[k] = v
        out[key] = d
    return out


def eval_on(impl: Impl, info: dict, node, expr: str):
    import copy
    tok = impl.token(expr, True)
    ctx = copy.copy(info['ctx'])
    ctx.item = node
    ctx.axis = None
    ctx.position = ctx.size = 1
    ctx.variables = dict(ctx.variables or {}, v=node)
    return tok.evaluate(ctx)


def check_case(run: Run, case: dict, ans: str, impl: Impl) -> None:
    st = run.stats
    CUR_VERSION[0] = case['version']
    A = parse_answer(ans)
    cid = {'xsd': case['xsd'], 'xml': case['xml'], 'version': case['version'], 'lib': case['lib']}

    def dis(what, impl_v, model=None, spec=None, tags=(), site='', extra=None):
        c = dict(cid, where=what, **(extra or {}))
        run.disagree(Disagreement(c, impl=impl_v, model=model, spec=spec, what=what.split(':')[0], site=site, tags=list(tags)))

    valid = impl.valid
    st.count('instance:valid' if valid else 'instance:invalid')
    st.count('xsd:' + case['version'])
    st.count('lib:' + case['lib'])
    if A.get('c', ['1'])[0] != '1':
        dis('cache', 'n/a', model='cached-walk != cache-less walk', spec=None)
    try:
        info = impl_records(impl)
    except Exception as e:
        dis('apply-schema-crash', impl_err(e), model='ok', spec='ok', site='xpath_nodes.apply_schema')
        return
    recs = info['recs']
    mkeys = [k for k in A if k[0] in 'na']
    if sorted(mkeys) != sorted(recs):
        dis('node-set', ' '.join(sorted(recs)), model=' '.join(sorted(mkeys)), spec=None, site='attributes')
        st.count('tie-break:node-set')
    expected = case['expected_types']
    for key in mkeys:
        if key not in recs:
            continue
        m, r = A[key], recs[key]
        flags = [f for f in m.get('K', '').split(',') if f]
        for f in flags:
            st.count('trigger:' + f)
        is_elem = key[0] == 'n'
        # ---- type name / declaration ------------------------------------------------------
        if r['T'] != m['T']:
            dis(f'type-name:{key}', r['T'], model=m['T'], site='xpath_nodes.apply_schema')
        if is_elem:
            st.count('content:' + m['C'])
            exp = expected[int(key[1:])] if int(key[1:]) < len(expected) else '?'
            if valid and exp != '?':
                e = '~' if exp is None else exp
                if r['T'] != e:
                    dis(f'declared-type:{key}', r['T'], model=m['T'], spec=e, site='xpath_nodes.apply_schema')
                st.count('declared-type-checked')
            if r['E'] != m['E']:
                dis(f'xsd-element:{key}', r['E'], model=m['E'], site='xpath_nodes.apply_schema')
        else:
            if r['N'] != m['N'] or r['D'] != m['D']:
                dis(f'attribute-node:{key}', f"{r['N']}/{r['D']}", model=f"{m['N']}/{m['D']}", site='xpath_nodes.attributes')
            if m['D'] == '1':
                st.count('attr:defaulted')
            owner = key[1:].split('.')[0]
            decl = case.get('expected_attrs', {}).get(owner)
            if valid and decl is not None and r['N'] in decl:
                st.count('attr:declared-type-checked')
                if r['T'] != decl[r['N']]:
                    dis(f'declared-attr-type:{key}', r['T'], model=m['T'], spec=decl[r['N']], site='xpath_nodes.attributes')
        # ---- typed value --------------------------------------------------------------------
        mv, sv, iv = m['M'], m['S'], r['M']
        if mv == 'via':
            st.count('tv:via-schema')
        elif iv != mv:
            dis(f'typed-value-model:{key}', iv, model=mv, site='decoder.get_atomic_sequence')
        in_scope = (not is_elem) or m['C'] in 's'
        nil = is_elem and info['nodes'][key][1].get(XSI_NIL) in ('true', '1')
        if valid and in_scope and sv != 'none':
            st.count('tv:compared-with-spec')
            st.count('tv:kind:' + (sv[3:].split('=')[0] if sv.startswith('ok[') and len(sv) > 4 else 'empty'))
            if iv != sv:
                dis(f'typed-value:{key}', iv, model=mv, spec=sv, tags=flags, site='decoder.get_atomic_sequence',
                    extra={'text': r['text'], 'type': r['T']})
        elif valid and in_scope:
            st.count('tv:spec-undefined')
        # ---- the schema processor's own decode --------------------------------------------
        node, elem = info['nodes'][key]
        xt = node.xsd_type
        if valid and in_scope and xt is not None and r['tv'] is not None and not nil:
            simple = xt if xt.is_simple() else xt.simple_type
            if simple is not None and simple.name not in (XS + 'anyType', XS + 'anySimpleType', XS + 'anyAtomicType'):
                kind, dv = xs_decode(simple, r['text'])
                if kind == 'ok':
                    st.count('tv:compared-with-xmlschema')
                    if not same_value(r['tv'], dv):
                        dis(f'value-vs-xmlschema:{key}', repr(r['tv']), model=None, spec=repr(dv), tags=flags,
                            site='decoder.get_atomic_sequence', extra={'text': r['text'], 'type': r['T']})
        # ---- instance of / arithmetic --------------------------------------------------------
        if valid and in_scope and not nil and m.get('IS', '~') != '~' and iv == sv and run.rng.random() < case['iof_rate']:
            bitsS, bitsM = m['IS'], m['IM']
            trues = [i for i, b in enumerate(bitsS) if b == '1' and i >= 4]
            picks = set(run.rng.sample(trues, min(2, len(trues)))) | {run.rng.randrange(4, len(BUILTINS))}
            for ti in picks:
                T = BUILTINS[ti]
                kt = 'element' if is_elem else 'attribute'
                expr = f'. instance of {kt}(*, xs:{T})'
                try:
                    res = eval_on(impl, info, node, expr)
                    got = '1' if res is True else '0' if res is False else repr(res)
                except Exception as e:
                    got = impl_err(e)
                st.count('instance-of:checked')
                st.count('instance-of:' + ('true' if bitsS[ti] == '1' else 'false'))
                if got != bitsS[ti] or got != (bitsM[ti] if bitsM != '~' else got):
                    dis(f'instance-of:{key}:{T}', got, model=bitsM[ti] if bitsM != '~' else None, spec=bitsS[ti],
                        tags=flags, site='_xpath2_operators.element/attribute kind test', extra={'expr': expr})
            # named kind tests and the `T?` form (same answer as element(*, T) for a non-nilled node)
            ti = run.rng.choice(sorted(picks))
            T = BUILTINS[ti]
            kt = 'element' if is_elem else 'attribute'
            own = name_xpath(node.name)
            for expr, want in ((f'$v instance of {kt}({own}, xs:{T})', bitsS[ti]),
                               (f'$v instance of {kt}(t:nosuchname, xs:{T})', '0'),
                               (f'count(self::{kt}({own}, xs:{T}))', bitsS[ti])) + \
                    (((f'$v instance of element(*, xs:{T}?)', bitsS[ti]),) if is_elem else ()):
                try:
                    res = eval_on(impl, info, node, expr)
                    got = '1' if res in (True, 1) and res is not False else '0' if res in (False, 0) else repr(res)
                except Exception as e:
                    got = impl_err(e)
                st.count('kind-test:named/optional')
                if got != want:
                    dis(f'kind-test:{key}:{T}', got, model=bitsM[ti] if bitsM != '~' and 'nosuch' not in expr else want,
                        spec=want, tags=flags, site='_xpath2_operators kind tests', extra={'expr': expr})
        # nilled elements: element(*, T?) must hold exactly for the declared type and its base types
        if valid and is_elem and nil and m.get('NS', '~') != '~' and run.rng.random() < max(case['iof_rate'], 0.5):
            ti = run.rng.randrange(4, len(BUILTINS))
            T = BUILTINS[ti]
            for expr in (f'$v instance of element(*, xs:{T}?)', f'count(self::element(*, xs:{T}?))'):
                try:
                    res = eval_on(impl, info, node, expr)
                    got = '1' if res in (True, 1) and res is not False else '0'
                except Exception as e:
                    got = impl_err(e)
                st.count('kind-test:nilled')
                if got != m['NS'][ti] or got != m['NM'][ti]:
                    dis(f'kind-test-nilled:{key}:{T}', got, model=m['NM'][ti], spec=m['NS'][ti],
                        tags=[], site='_xpath2_operators.select__element_kind_test',
                        extra={'expr': expr})
        # operators on the typed node: `+` and `=` use the typed value (driver: OM / OS)
        if valid and in_scope and not nil and m.get('OS', '-') != '-' and iv == mv and run.rng.random() < case['iof_rate']:
            oS, oM = m['OS'].split(','), m['OM'].split(',') if m['OM'] != '-' else None
            for k, expr in enumerate(('$v + 1', '$v = 7', '$v = true()', "$v = 'abc'")):
                if oS[k] in ('n/a', '?') or (oM and oM[k] in ('n/a', '?')):
                    st.count('operator:outside-fragment')
                    continue
                try:
                    res = eval_on(impl, info, node, expr)
                    if res is True or res is False:
                        got = 'true' if res else 'false'
                    elif isinstance(res, Decimal):
                        got = 'decimal=' + canon_dec(res)
                    elif isinstance(res, int):
                        got = 'integer=' + str(int(res))
                    else:
                        got = repr(res)
                except Exception as e:
                    got = impl_err(e)
                st.count('operator:checked')
                st.count('operator:' + ('err' if oS[k] == 'err' else 'value'))
                if got != oS[k] or (oM and got != oM[k]):
                    dis(f'operator:{key}:{expr}', got, model=oM[k] if oM else None, spec=oS[k], tags=flags,
                        site='arithmetic / comparison on a typed node', extra={'expr': expr})
    # ---- a predicate that READS the typed value: //*[. = 'lit'] (does not erase; model tie) --------
    for k, lit in enumerate(case.get('valeq', [])):
        m = A.get('v%d' % k)
        if m is None or "'" in lit:
            continue
        xp = f"//*[not(*)][. = '{lit}']"
        with_s = run_select(impl, xp, True, False)
        without = run_select(impl, xp, False, False)
        with_s = 'err' if with_s.startswith('ERR') else with_s
        without = 'err' if without.startswith('ERR') else without
        st.count('value-comparison:checked')
        st.count('value-comparison:' + ('same' if with_s == without else 'differs-with-schema'))
        if with_s != m['M'] or without != m['S']:
            dis(f'value-comparison-model:{k}', f'{with_s}|{without}', model=f"{m['M']}|{m['S']}", spec=None,
                site='atomization of typed nodes in a general comparison', extra={'path': xp})
    # ---- node selection with / without the schema ----------------------------------------------
    for k, (dummy, xp, _toks) in enumerate(case['paths']):
        m = A.get('p%d' % k)
        if m is None:
            dis(f'path-missing:{k}', 'n/a', model='missing')
            continue
        flags = [f for f in m.get('K', '').split(',') if f]
        with_s = run_select(impl, xp, True, dummy)
        if 'schema-element(' in xp:
            # needs the in-scope schema definitions: no schema-less counterpart; the Lean model and the
            # Lean spec (name of the declaration or of a member of its substitution group) are the oracles
            st.count('path:schema-element')
            if with_s != m['M'] or with_s != m['S']:
                dis(f'schema-element-selection:{k}', with_s, model=m['M'], spec=m['S'], tags=flags,
                    site='_xpath2_operators.select__schema_element_kind_test', extra={'path': xp, 'root_as': 'element' if dummy else 'document'})
            continue
        without = run_select(impl, xp, False, dummy)
        st.count('path:checked')
        st.count('path:root-as-element' if dummy else 'path:root-as-document')
        st.count('path:nonempty' if without not in ('_',) and not without.startswith('ERR') else 'path:empty-or-error')
        for f in flags:
            st.count('trigger:' + f)
        ext = {'path': xp, 'root_as': 'element' if dummy else 'document'}
        if without != m['S']:
            dis(f'plain-selection:{k}', without, model=m['S'], spec=None, site='path evaluator model', extra=ext)
        if with_s != m['M']:
            dis(f'typed-selection-model:{k}', with_s, model=m['M'], spec=None, site='AsteriskToken.select / attributes', extra=ext)
        if with_s != without:
            dis(f'selection-changed:{k}', with_s, model=m['M'], spec=without, tags=flags,
                site='AsteriskToken.select / attributes', extra=ext)


# ======================================================================================
# cases
# ======================================================================================
def finish_case(sch: Schema, inst: dict, paths: list, lib: str, iof_rate: float, valeq: tuple = ()) -> dict | None:
    import lxml.etree as LE
    xml = to_xml(inst)
    root = LE.fromstring(xml.encode())
    expected: list = []
    # expected types are indexed by pre-order *element* order; map to node indices
    names: list = []
    expected_type_names(sch, inst, names)
    eidx, _ = index_tree(root)
    by_idx = {}
    for (e, i), nm in zip(sorted(eidx.items(), key=lambda kv: kv[1]), names):
        by_idx[i] = nm
    size = (max(by_idx) + 1) if by_idx else 0
    expected = [by_idx.get(i, '?') for i in range(size)]
    anames: list = []
    expected_attr_types(sch, inst, anames)
    exp_attrs = {str(i): d for (e, i), d in zip(sorted(eidx.items(), key=lambda kv: kv[1]), anames) if d is not None}
    qs = []
    for dummy, e in paths:
        qs.append((dummy, path_xpath(e), expr_tokens(strip_abbr(e))))
    line = ' '.join(['S'] + sch.tokens() + ['T'] + forest_tokens(root) + ['Q', str(len(qs))] +
                    [t for d, _, toks in qs for t in ['P', '1' if d else '0'] + toks] +
                    (['W', str(len(valeq))] + [enc(v) for v in valeq] if valeq else []))
    return {'version': sch.version, 'xsd': sch.xsd(), 'xml': xml, 'lib': lib, 'paths': qs, 'line': line,
            'expected_types': expected, 'expected_attrs': exp_attrs, 'iof_rate': iof_rate, 'valeq': list(valeq), '_gen': (sch, inst)}


def gen_case(rng, quick: bool) -> dict | None:
    version = rng.choice(['1.0', '1.1'])
    sch = Gen(rng, version, quick).schema()
    inst = InstGen(rng, sch).elem(sch.root)
    import lxml.etree as LE
    root = LE.fromstring(to_xml(inst).encode())
    enames = sorted({e.tag for e in root.iter() if not callable(e.tag)})
    anames = sorted({n for e in root.iter() if not callable(e.tag) for n in e.attrib if not n.startswith('{')}) + ['a0', 'a1']
    gl = [[clark(g['name'])] + [clark(m['name']) for m in sch.globals if m.get('subst_of') == g['name']] for g in sch.globals]
    pg = PathGen(rng, enames, anames, gl)
    paths = []
    for _ in range(rng.randint(3, 6)):
        paths.append((rng.random() < 0.6, pg.path()))
    # two fixed probes of the `*` branch
    paths.append((True, ('s', ('s', ('r',), 'ds', ('nd',), ('t',), ('t',), 'abbr'), 'c', ('*',), ('t',), ('t',))))   # //*
    paths.append((False, ('s', ('r',), 'c', ('*',), ('t',), ('t',))))                                             # /* on a document
    valeq = (rng.choice(['a b', 'x', 'zz', '7', 'true', 'end', 'c']),) if rng.random() < 0.3 else ()
    return finish_case(sch, inst, paths, rng.choice(['lxml', 'lxml', 'etree']), 0.18, valeq=valeq)


# ======================================================================================
# proxy CONSTRUCTOR variants: explicit proxy + bind_parser, base_element = global / local element /
# xs:assert; end-to-end XMLSchema11.is_valid on asserted types
# ======================================================================================
def strip_recs(info: dict) -> dict:
    return {k: {f: v[f] for f in v if f in ('T', 'E', 'M', 'N', 'D')} for k, v in info['recs'].items()}


def sub_case(case: dict, node: dict) -> dict:
    return {'version': case['version'], 'xsd': case['xsd'], 'xml': to_xml(node), 'lib': case['lib'], 'paths': []}


def sb_line(sch: Schema, decl: dict, assertion: bool, xml: str) -> str:
    import lxml.etree as LE
    root = LE.fromstring(xml.encode())
    return ' '.join(['SB', '1' if assertion else '0'] + sch.elem_tok(decl) + sch.tokens() + ['T'] +
                    forest_tokens(root) + ['Q', '0'])


def proxy_variants(run: Run, case: dict, impl: Impl, pending: list) -> None:
    from xmlschema.xpath import XMLSchemaProxy
    import lxml.etree as LE
    st = run.stats
    sch, inst = case['_gen']
    xs = impl.xs
    cid = {'xsd': case['xsd'], 'xml': case['xml'], 'version': case['version'], 'lib': case['lib']}
    CUR_VERSION[0] = case['version']

    def dis(what, impl_v, spec, extra=None, model=None):
        run.disagree(Disagreement(dict(cid, where=what, **(extra or {})), impl=impl_v, model=model, spec=spec,
                                  what=what.split(':')[0], site='schema_proxy constructor variants / apply_schema base_element branch'))

    try:
        base = strip_recs(impl_records(impl))
    except Exception as e:
        dis('proxy-variant:default-crash', impl_err(e), 'ok')
        return
    # ---- V1: explicit proxy object, parser bound afterwards with bind_parser -------------------
    try:
        p1 = XMLSchemaProxy(xs)
        im1 = Impl(case, xs=xs, proxy=p1)
        im1.parser_s = impl.XPath2Parser(namespaces=dict(PNS), variable_types={'v': 'item()'})
        p1.bind_parser(im1.parser_s)
        got = strip_recs(impl_records(im1))
        sel = run_select(im1, '//*', True, False)
    except Exception as e:
        got, sel = {'crash': impl_err(e)}, 'crash'
    st.count('proxy-variant:bind_parser')
    if got != base or sel != run_select(impl, '//*', True, False):
        k = next((k for k in base if got.get(k) != base[k]), 'selection')
        dis(f'proxy-variant:bind_parser:{k}', json_s(got.get(k, sel)), json_s(base.get(k)))
    # ---- V2: base_element = the global declaration of the root ---------------------------------
    try:
        p2 = XMLSchemaProxy(xs, base_element=xs.elements['root'])
        got = strip_recs(impl_records(Impl(case, xs=xs, proxy=p2)))
    except Exception as e:
        got = {'crash': impl_err(e)}
    st.count('proxy-variant:base=global-root')
    if got != base:
        k = next((k for k in base if got.get(k) != base[k]), 'crash')
        dis(f'proxy-variant:base-global:{k}', json_s(got.get(k)), json_s(base.get(k)))
    pending.append((sb_line(sch, sch.root, False, case['xml']), got, dict(cid, where='base=global root')))
    # ---- V3 / V4: a child of the root as context root, base_element = its local declaration or
    #               the xs:assert of its complex type ------------------------------------------------
    full = LE.fromstring(case['xml'].encode())
    eidx, _ = index_tree(full)
    kids = [k for k in inst['kids'] if not isinstance(k, str)]
    kid_elems = [c for c in full if not callable(c.tag)]
    root_ct = xs.elements['root'].type
    for node, el in list(zip(kids, kid_elems))[:8]:
        decl = node.get('decl')
        if decl is None or decl.get('global') or node.get('xsi') or node.get('ty') is None:
            continue
        ct = sch.ctypes[node['ty'][1]] if node['ty'][0] == 'TC' else None
        asserted = bool(ct and ct.get('assert'))
        if not asserted and run.rng.random() < 0.5:
            continue
        comp = next((e for e in root_ct.content.iter_elements() if e.name == clark(decl['name'])), None)
        if comp is None:
            continue
        off = eidx[el]
        sub = sub_case(case, node)
        n_sub = sum(1 for _ in LE.fromstring(sub['xml'].encode()).iter())     # elements (comments are not generated)
        for assertion in ([False, True] if asserted else [False]):
            try:
                be = comp.type.assertions[0] if assertion else comp
                px = XMLSchemaProxy(xs, base_element=be)
                imx = Impl(sub, xs=xs, proxy=px)
                info = impl_records(imx)
                got = strip_recs(info)
            except Exception as e:
                info, got = None, {'crash': impl_err(e)}
            st.count('proxy-variant:base=' + ('assert' if assertion else 'local-element'))
            # the Lean model of the base_element branch
            pending.append((sb_line(sch, decl, assertion, sub['xml']), got,
                            dict(cid, where='base=' + ('xs:assert' if assertion else 'local element'), sub_xml=sub['xml'])))
            # the subtree must be typed exactly as inside the whole document (root: xs:anyType under an assertion)
            for key, r in got.items():
                if key == 'crash':
                    dis('proxy-variant:crash', r, 'ok', {'sub_xml': sub['xml']})
                    break
                kind, rest = key[0], key[1:]
                i = int(rest.split('.')[0])
                fkey = f'{kind}{off + i}' + ('.' + rest.split('.')[1] if '.' in rest else '')
                want = base.get(fkey)
                if assertion and key == 'n0':
                    want = dict(want or {}, T=XS + 'anyType')
                    r = dict(r, M=want.get('M'))          # the untyped root's own value is not compared
                if want is None or {f: r.get(f) for f in ('T', 'M')} != {f: want.get(f) for f in ('T', 'M')}:
                    dis(f'proxy-variant:subtree-typing:{key}', json_s(r), json_s(want),
                        {'sub_xml': sub['xml'], 'base_element': 'xs:assert' if assertion else 'local element'})
                    break
            if assertion and info is not None and 'range' in node:
                lo, hi = node['range']
                b = ct['assert_builtin']
                top = info['nt']
                for expr, want in ((ct['assert'], True), ('t:lo le t:hi', True), ('t:lo gt t:hi', lo > hi),
                                   (f't:lo instance of element(*, xs:{b})', True),
                                   (f'(t:hi - t:lo) instance of xs:{"decimal" if b == "decimal" else "integer"}', True),
                                   ('(t:hi - t:lo) instance of xs:double', False)):
                    try:
                        res = eval_on(imx, info, top, expr)
                    except Exception as e:
                        res = impl_err(e)
                    st.count('proxy-variant:assert-expression')
                    if res is not want:
                        dis(f'proxy-variant:assert-expression:{expr}', repr(res), repr(want),
                            {'sub_xml': sub['xml'], 'expr': expr})
    # ---- end to end: XMLSchema11.is_valid with assertions -----------------------------------------
    ranged = [k for k in kids if 'range' in k]
    if ranged and 'undeclared:' not in case['xml']:      # (instances with an unresolvable xsi:type prefix are invalid anyway)
        st.count('validity:asserted-instance')
        if not impl.valid:
            dis('validity:valid-instance-rejected', 'invalid', 'valid')
        k = run.rng.choice(ranged)
        lo, hi = k['range']
        if lo != hi:
            import copy as _copy
            bad = _copy.deepcopy({kk: vv for kk, vv in inst.items()})
            for kk in bad['kids']:
                if not isinstance(kk, str) and kk.get('range') == (lo, hi) and kk['name'] == k['name']:
                    kk['kids'][0]['kids'], kk['kids'][1]['kids'] = [str(hi)], [str(lo)]
                    break
            try:
                ok = xs.is_valid(to_xml(bad))
            except Exception as e:
                ok = impl_err(e)
            st.count('validity:violated-assertion')
            if ok is not False:
                dis('validity:violated-assertion-accepted', repr(ok), 'False', {'bad_xml': to_xml(bad)})


def flush_sb(run: Run, pending: list) -> None:
    if not pending:
        return
    answers = run.driver('C20', [p[0] for p in pending])
    for (line, got, cid), ans in zip(pending, answers):
        run.stats.count('proxy-variant:model-compared')
        if ans.startswith('bad-'):
            run.disagree(Disagreement(cid, 'driver:' + ans, what='protocol'))
            continue
        A = parse_answer(ans)
        for key, m in A.items():
            if key[0] not in 'na':
                continue
            r = got.get(key)
            mine = {'T': m['T'], 'M': m['M']} if key[0] == 'a' else {'T': m['T'], 'E': m['E'], 'M': m['M']}
            if m['M'] == 'via':
                continue
            if r is None or {f: r.get(f) for f in mine} != mine:
                run.disagree(Disagreement(dict(cid, node=key), impl=json_s(r), model=json_s(mine), spec=None,
                                          what='base-element-model', site='xpath_nodes.apply_schema (base_element branch)'))
                break
    pending.clear()


def compare(run: Run, cases: list[dict]) -> None:
    lines = [c['line'] for c in cases]
    answers = run.driver('C20', lines)
    for case, ans in zip(cases, answers):
        pub = {k: v for k, v in case.items() if k not in ('line', '_gen')}
        if ans.startswith('bad-'):
            run.disagree(Disagreement(pub, 'driver:' + ans, what='protocol'))
            continue
        try:
            impl = Impl(case)
        except Exception as e:
            run.stats.count('schema-rejected-by-xmlschema')
            run.stats.extra.setdefault('schema_rejections', []).append(type(e).__name__ + ': ' + str(e)[:120])
            continue
        n_before = len(run.disagreements)
        check_case(run, case, ans, impl)
        if '_gen' in case and run.rng.random() < case.get('variant_rate', 0.18):
            try:
                proxy_variants(run, case, impl, PENDING_SB)
            except Exception as e:      # a crash of the real code inside a variant is a finding, not a harness fault
                run.disagree(Disagreement({'xsd': case['xsd'], 'xml': case['xml'], 'where': 'proxy-variant'},
                                          impl=impl_err(e), spec='ok', what='proxy-variant',
                                          site='schema_proxy constructor variants'))
        run.stats.case({'xsd': case['xsd'], 'xml': case['xml'], 'paths': [p[1] for p in case['paths']]},
                       nontrivial=True, sample_every=211)
        run.stats.count('elements', case['xml'].count('</') + case['xml'].count('/>'))
        if len(run.disagreements) > n_before:
            run.stats.count('cases-with-disagreement')
    flush_sb(run, PENDING_SB)


# ======================================================================================
# corpus, search, shrink, body
# ======================================================================================
def fixed_schema(version: str = '1.0') -> tuple[Schema, dict]:
    """the ten-element probe of DESIGN.md section 5 (F20a-d) as a Schema object"""
    CUR_VERSION[0] = version
    s = Schema(version)
    ilist = ('L', 'ilist', ('B', 'int'))
    myint = ('R', 'myint', ('B', 'int'), {'enum': None, 'min': None, 'max': 100})
    u = ('U', 'u', [('B', 'int'), ('B', 'boolean'), ('B', 'string')])
    ulist = ('L', 'ulist', u)
    um = ('U', 'um', [myint, ('B', 'string')])
    mystr = ('R', 'mystr', ('B', 'token'), {'enum': ['a b', 'c'], 'min': None, 'max': None})
    lonly = ('U', 'lonly', [ilist])
    s.named_stypes += [ilist, myint, u, ulist, um, mystr, lonly]
    s.ctypes.append({'name': 'ext', 'content': ('cs', ('B', 'int')), 'own_particles': [], 'base': None,
                     'own_attrs': [{'name': 'a', 'type': ('B', 'boolean'), 'default': None, 'required': False},
                                   {'name': 'dflt', 'type': ('B', 'int'), 'default': '7', 'required': False}]})

    def el(name, st, **kw):
        return dict({'name': name, 'ty': ('TS', st), 'nillable': False, 'default': None}, **kw)
    ps = [('PE', el('b', ('B', 'boolean')), [], (0, None)), ('PE', el('i', ('B', 'int'), nillable=True), [], (0, None)),
          ('PE', el('d', ('B', 'decimal'), default='5'), [], (0, None)), ('PE', el('f', ('B', 'double')), [], (0, None)),
          ('PE', el('s', ('B', 'string')), [], (0, 1)), ('PE', el('l', ilist), [], (0, 1)),
          ('PE', el('m', myint), [], (0, 1)), ('PE', el('u', u), [], (0, None)), ('PE', el('ul', ulist), [], (0, 1)),
          ('PE', el('um', um), [], (0, None)), ('PE', el('ms', mystr), [], (0, 1)), ('PE', el('lo', lonly), [], (0, 1)),
          ('PE', el('dd', ('B', 'date')), [], (0, None)), ('PE', el('dtm', ('B', 'dateTime')), [], (0, None)),
          ('PE', el('gy', ('B', 'gYear')), [], (0, None)), ('PE', el('gym', ('B', 'gYearMonth')), [], (0, None)),
          ('PE', {'name': 'e', 'ty': ('TC', 0), 'nillable': False, 'default': None}, [], (0, None))]
    s.ctypes.append({'name': None, 'content': 'ce', 'own_particles': ps, 'own_attrs': [], 'base': None})
    s.root = {'name': 'root', 'ty': ('TC', 1), 'global': True, 'nillable': False, 'default': None}
    s.globals.append(s.root)
    s.wild, s.xsi_elems, s.with_defaults = None, [], True
    decl = {p[1]['name']: p[1] for p in ps}

    def nd(name, kids, attrs=()):
        return {'name': clark(name), 'attrs': list(attrs), 'kids': list(kids), 'xsi': None, 'decl': decl.get(name), 'ty': decl[name]['ty']}
    inst = {'name': clark('root'), 'attrs': [], 'xsi': None, 'ty': ('TC', 1), 'kids': [
        nd('b', ['false']), nd('b', ['true']), nd('b', ['0']), nd('b', [' 1 ']),
        nd('i', [' 42 ']), nd('i', [], [(XSI_NIL, 'true')]), nd('i', ['7'], [(XSI_NIL, 'false')]),
        nd('d', ['1.50']), nd('d', []), nd('f', ['1e3']), nd('f', ['NaN']), nd('s', [' x ']), nd('l', ['1 2 3']),
        nd('m', ['5']), nd('u', ['7']), nd('u', ['true']), nd('u', ['zz']), nd('ul', ['1 true zz']),
        nd('um', ['7']), nd('um', ['x']), nd('ms', [' a   b ']), nd('lo', ['1 2']),
        nd('dd', ['-0001-01-01']), nd('dd', ['12345-06-07Z']), nd('dtm', ['-0044-03-15T12:00:00Z']),
        nd('gy', ['-0044']), nd('gym', ['-0044-03']),
    ] + ([nd('dd', ['0000-02-29']), nd('dtm', ['0000-01-01T00:00:00']), nd('gy', ['0000']), nd('gym', ['0000-05'])]
         if version == '1.1' else []) + [
        nd('e', ['9'], [('a', '0')]), nd('e', ['8'], [('dflt', '4'), ('a', 'true')])]}
    return s, inst


def R_(*steps):
    e = ('r',)
    for st in steps:
        if st == '//':
            e = ('s', e, 'ds', ('nd',), ('t',), ('t',), 'abbr')
        else:
            ax, t, *q = st
            e = ('s', e, ax, t, q[0] if q else ('t',), q[1] if len(q) > 1 else ('t',))
    return e


def corpus_cases() -> list[dict]:
    out = []
    star, N = ('*',), lambda n: ('n', clark(n))
    paths = [
        (True, R_('//', ('c', star))),                                    # F20b  //*
        (True, R_('//', ('c', star, ('p', 1)))),                          # F20b  //*[1]
        (True, R_(('c', star))),                                          # F20b  /*
        (True, R_(('c', star), ('c', star))),                             # F20b  /*/*
        (False, R_('//', ('c', star))),                                   # same on a document: no defect
        (True, R_('//', ('a', star))),                                    # F20d  //@*
        (True, R_('//', ('c', N('e'), ('ex', ('s', ('h',), 'a', ('n', 'dflt'), ('t',), ('t',)))))),   # F20d //e[@dflt]
        (True, R_(('c', N('root')), ('c', star, ('l',)))),
        (True, R_(('c', N('root')), ('c', N('b'), ('p', 2)))),
        (True, R_(('d', star, ('cg', ('s', ('h',), 'c', star, ('t',), ('t',)), 1)))),
        (True, ('s', ('s', ('h',), 'ds', ('nd',), ('t',), ('t',), 'abbr'), 'c', N('u'), ('no', ('p', 1)), ('t',))),
    ]
    for ver in ('1.0', '1.1'):
        for lib in ('lxml', 'etree'):
            s, inst = fixed_schema(ver)
            out.append(finish_case(s, inst, paths, lib, 1.0, valeq=('a b', ' x ', '7', 'true', 'zz')))
    return out


def correspond(run: Run) -> None:
    rng = run.rng
    n = run.scale(1000, 8000)
    run.stats.rule = (
        'one case = (generated schema over 21 builtin atomic types with restrictions, lists, unions, '
        'simple-content extensions, nillable, defaults, xsi:type, substitution groups, wildcards; XSD 1.0 or 1.1) '
        'x (instance generated from it, parsed by lxml or ElementTree; xmlschema confirms validity) x (5-8 path '
        'expressions: child/descendant/descendant-or-self/self/attribute steps, //, names, *, node(), positional, '
        'existence, count and boolean predicates; root passed as element or as document). Compared per element and '
        'attribute node: type_name, xsd_element, typed value (class+value) against the Lean model and the Lean spec, '
        'the typed value against xmlschema\'s decode of the same text, instance of element/attribute(*, T), $v + 1 / '
        '$v = true(); per path: indices selected with vs without the schema and vs the Lean evaluator. '
        'distinct = distinct (schema, instance, paths) triples')
    cases = corpus_cases()
    made = 0
    while made < n:
        c = gen_case(rng, run.quick)
        if c is not None:
            cases.append(c)
            made += 1
    for i in range(0, len(cases), 400):
        compare(run, cases[i:i + 400])


def search(run: Run):
    """systematic small family: the fixed probe schema x every lexical of the vocabulary in every
    element of simple type, every path shape over it, both libraries and both XSD versions"""
    sub = Run(PROP, run.tier, run.seed)
    cases = corpus_cases()
    rng = sub.rng
    star = ('*',)
    for ver in ('1.0', '1.1'):
        s, inst = fixed_schema(ver)
        base_kids = inst['kids']
        for k, kid in enumerate(base_kids):
            st = kid['ty'][1] if kid['ty'][0] == 'TS' else None
            if st is None:
                continue
            for _ in range(6):
                try:
                    t = gen_text(rng, st)
                except Exception:
                    continue
                kids = list(base_kids)
                kids[k] = dict(kid, kids=[t] if t else [])
                paths = [(True, R_('//', ('c', star))), (True, R_(('c', ('n', clark('root'))), ('c', ('n', kid['name']))))]
                cases.append(finish_case(s, dict(inst, kids=kids), paths, rng.choice(['lxml', 'etree']), 1.0))
    for _ in range(150):
        cases.append(gen_case(rng, True))
    for i in range(0, len(cases), 400):
        compare(sub, cases[i:i + 400])
    decoder_probe(sub, 1200, sys.modules[__name__])
    run.notes.append(f'search: {len(cases)} systematic cases, {len(sub.disagreements)} disagreements')
    return sub.disagreements


def shrink(d: Disagreement) -> Disagreement:
    """keep only the failing node / path in the report (the generated schema stays whole: removing
    declarations changes identities the disagreement may depend on)"""
    c = d.case
    if isinstance(c, dict) and 'xml' in c and len(c['xml']) > 4000:
        c = dict(c, xml=c['xml'][:4000] + '…')
        d = Disagreement(c, d.impl, d.model, d.spec, d.what, d.site, d.tags)
    return d


def replay(run: Run, path: str) -> int:
    import json
    data = json.loads(Path(path).read_text())
    fi = data.get('failing_input') or {}
    c = fi.get('case') or {}
    print(json.dumps({k: c.get(k) for k in ('where', 'path', 'root_as', 'text', 'type', 'expr', 'version', 'lib', 'history', 'node')}, indent=1))
    print('impl :', fi.get('impl'))
    print('model:', fi.get('model'))
    print('spec :', fi.get('spec'))
    print('xsd  :', c.get('xsd'))
    print('xml  :', c.get('xml'))
    return 0


def translate(run: Run) -> dict:
    """emit the live prototype tables of decoder._ATOMIC_VALUES (class name per builtin and XSD
    version) as Lean literals -> lean/EPV/Gen/C20Protos.lean (theorems: EPV/Props/C20Tables.lean)"""
    from harness.common import LEAN
    from elementpath import decoder
    out = ['/- GENERATED by harness/c20.py from the live elementpath/decoder.py -- do not edit -/',
           'namespace EPV.Gen.C20']
    info = {}
    for ver, nm in (('1.0', 'protos10'), ('1.1', 'protos11')):
        tbl = decoder._ATOMIC_VALUES[ver]
        rows = sorted((k.split('}')[1], type(v).__name__) for k, v in tbl.items())
        info[ver] = dict(rows)
        out.append(f'def {nm} : List (String × String) := [' + ', '.join(f'("{a}", "{b}")' for a, b in rows) + ']')
    out.append('end EPV.Gen.C20')
    gen = LEAN / 'EPV' / 'Gen' / 'C20Protos.lean'
    gen.parent.mkdir(exist_ok=True)
    text = '\n'.join(out) + '\n'
    if not gen.exists() or gen.read_text() != text:
        gen.write_text(text)
    return info


# ======================================================================================
# proxy-lifecycle histories: ONE proxy object over several evaluations
# ======================================================================================
def reuse_snapshots(impl: Impl, fresh_proxy) -> list:
    """ONE node tree through a sequence of (re)applications; returns [(label, records, expect_typed)]"""
    CUR_VERSION[0] = impl.case['version']
    out = []
    strip = lambda i: {k: {f: v[f] for f in v if f in ('T', 'E', 'M', 'N', 'D')} for k, v in i['recs'].items()}
    try:
        info = impl_records(impl)
        tree = (info['root'], info['nt'])
        other = Impl(impl.case, xs=impl.xs, proxy=fresh_proxy)
        out.append(('context(proxy)', strip(info), True))
        out.append(('context(same proxy) again', strip(impl_records(impl, reuse=tree)), True))
        out.append(('apply_schema(same proxy) directly', strip(impl_records(impl, reuse=tree, mode='direct')), True))
        out.append(('apply_schema(another proxy) directly, attributes already built',
                    strip(impl_records(other, reuse=tree, mode='direct')), True))
        out.append(('schema-less context (constructor): types persist on the node tree',
                    strip(impl_records(impl, reuse=tree, mode='keep')), True))
        out.append(('context.schema = None', strip(impl_records(impl, reuse=tree, mode='none')), False))
        out.append(('context(first proxy) after clearing', strip(impl_records(impl, reuse=tree)), True))
        out.append(('context(another proxy)', strip(impl_records(other, reuse=tree)), True))
    except Exception as e:
        out.append(('crash', {'crash': impl_err(e)}, True))
    return out


def plain_snapshot(impl: Impl) -> dict:
    """the records of a fresh tree evaluated WITHOUT schema"""
    root = impl.parse_xml()
    nt = impl.get_node_tree(root, namespaces=impl.ctx_namespaces())
    info = impl_records(impl, reuse=(root, nt), mode='none')
    return {k: {f: v[f] for f in v if f in ('T', 'E', 'M', 'N', 'D')} for k, v in info['recs'].items()}


def snapshot(impl: Impl, paths: list) -> dict:
    """what one evaluation through impl.proxy observes: every node's type name / declaration flag /
    typed value, and the selections of the paths (schema-bound parser)"""
    CUR_VERSION[0] = impl.case['version']
    try:
        info = impl_records(impl)
        recs = {k: {f: v[f] for f in v if f in ('T', 'E', 'M', 'N', 'D')} for k, v in info['recs'].items()}
    except Exception as e:
        recs = {'crash': impl_err(e)}
    sels = [run_select(impl, xp, True, dummy) for dummy, xp, _ in paths]
    return {'recs': recs, 'sel': sels}


def nodes_to_idx(root, nt, items) -> str:
    from elementpath.xpath_nodes import AttributeNode, DocumentNode, XPathNode
    eidx, aidx, idx_of, _ = node_index_maps(root, nt)
    out = []
    for x in items:
        if isinstance(x, DocumentNode):
            continue
        if isinstance(x, AttributeNode):
            owner = idx_of[id(x.parent)]
            out.append(aidx.get((owner, x.name), aidx[(owner, None)]))
        elif isinstance(x, XPathNode):
            out.append(idx_of[id(x)])
        elif hasattr(x, 'tag'):
            out.append(eidx[x])
        else:
            return 'non-node:' + type(x).__name__
    return ','.join(str(i) for i in sorted(set(out))) or '_'


def shared_token_history(run: Run, cases: list, xs, proxy, hist_log: list) -> None:
    """ONE parser, ONE parsed token per expression, ONE Selector, evaluated over several documents in
    turn through every public path (token.select, token.evaluate, Selector.select / iter_select,
    elementpath.select / iter_select); each answer is compared with a fresh parse on a fresh proxy"""
    import elementpath
    from xmlschema.xpath import XMLSchemaProxy
    st = run.stats
    star = ('*',)
    exprs = [path_xpath(R_('//', ('c', star, ('l',)))), path_xpath(R_(('c', ('n', clark('root'))), ('c', star, ('p', 2)))),
             path_xpath(('s', R_('//', ('c', star)), 'pa', ('nd',), ('t',), ('t',))),
             '//schema-element(t:root)', 'child::schema-element(t:root)']
    impl0 = Impl(cases[0], xs=xs, proxy=proxy)
    parser = impl0.XPath2Parser(namespaces=dict(PNS), schema=proxy)
    toks = {e: parser.parse(e) for e in exprs}
    sels = {e: elementpath.Selector(e, namespaces=dict(PNS), parser=impl0.XPath2Parser, schema=proxy) for e in exprs}
    for k in (0, 1, 0):
        case = cases[k]
        impl = Impl(case, xs=xs, proxy=proxy)
        for e in exprs:
            fresh = run_select(Impl(case, xs=xs, proxy=XMLSchemaProxy(xs)), e, True, True)
            got = {}
            try:
                root, nt, ctx = impl.tree(True, as_doc=False)
                got['token.select'] = nodes_to_idx(root, nt, list(toks[e].select(ctx)))
                root, nt, ctx = impl.tree(True, as_doc=False)
                res = toks[e].evaluate(ctx)
                got['token.evaluate'] = nodes_to_idx(root, nt, res if isinstance(res, list) else [res])
                root, nt, ctx = impl.tree(True, as_doc=False)
                before = (ctx.item, ctx.axis)
                got['token.get_results'] = nodes_to_idx(root, nt, toks[e].get_results(ctx))
                if ctx.item is not before[0] or ctx.axis != before[1]:
                    got['token.get_results'] = 'ERR:context-not-restored'
                before = (ctx.item, ctx.axis)
                toks[e].evaluate(ctx)
                if ctx.item is not before[0] or ctx.axis != before[1]:
                    got['token.evaluate (context)'] = 'ERR:context-not-restored'
                root = impl.parse_xml()
                nt = impl.get_node_tree(root, namespaces=impl.ctx_namespaces())
                got['Selector.select'] = nodes_to_idx(root, nt, sels[e].select(root))
                got['Selector.iter_select'] = nodes_to_idx(root, nt, list(sels[e].iter_select(root)))
                got['elementpath.select'] = nodes_to_idx(root, nt, elementpath.select(root, e, namespaces=dict(PNS), schema=proxy))
                got['elementpath.iter_select'] = nodes_to_idx(root, nt, list(elementpath.iter_select(root, e, namespaces=dict(PNS), schema=proxy)))
            except Exception as ex:
                got['crash'] = impl_err(ex)
            st.count('history:shared-token-step')
            for api, v in got.items():
                if v != fresh:
                    run.disagree(Disagreement({'xsd': case['xsd'], 'xml': case['xml'], 'version': case['version'], 'lib': case['lib'],
                                               'path': e, 'where': 'shared-token', 'history': hist_log + [f'{api} on instance {k} with the parser/token/Selector shared by all instances']},
                                              impl=v, model=None, spec=fresh, what='shared-token',
                                              site='parser / token / Selector reused across documents'))
                    return


def history_case(run: Run, rng) -> None:
    """unbuilt -> built transition, reuse after a failing evaluation, reuse across instances and
    across lxml/ElementTree; every step is compared with a FRESH proxy on a fresh context (and the
    unbuilt step with the Lean model's `anyTypeAll`)"""
    import xmlschema
    from xmlschema.xpath import XMLSchemaProxy
    from elementpath import XPathContext
    st = run.stats
    version = rng.choice(['1.0', '1.1'])
    sch = Gen(rng, version, True).schema()
    cls = xmlschema.XMLSchema10 if version == '1.0' else xmlschema.XMLSchema11
    cases = []
    for _ in range(3):
        inst = InstGen(rng, sch).elem(sch.root)
        star = ('*',)
        paths = [(True, R_(('c', ('n', clark('root'))), ('c', star))), (False, R_('//', ('c', star, ('p', 1))))]
        cases.append(finish_case(sch, inst, paths, rng.choice(['lxml', 'etree']), 0.0))
    try:
        xs = cls(cases[0]['xsd'], build=False)
    except Exception:
        st.count('schema-rejected-by-xmlschema')
        return
    proxy = XMLSchemaProxy(xs)              # THE long-lived proxy
    steps = []
    start_unbuilt = rng.random() < 0.8
    if start_unbuilt:
        steps.append(('unbuilt', 0))
        if rng.random() < 0.4:
            steps.append(('unbuilt', 1))
    steps.append(('build', None))
    for k in rng.sample([0, 1, 2], 3):
        steps.append(('built', k))
        if rng.random() < 0.4:
            steps.append(('fail', k))
    hist_log = []
    for kind, k in steps:
        if kind == 'build':
            try:
                xs.build()
            except Exception:
                st.count('schema-rejected-by-xmlschema')
                return
            hist_log.append('build()')
            continue
        case = cases[k]
        if kind == 'fail':
            # an evaluation through the same proxy that raises
            try:
                impl = Impl(case, xs=xs, proxy=proxy)
                root, nt, ctx = impl.tree(True, as_doc=False)
                impl.parser_s.parse("xs:int('x') + 1").evaluate(ctx)
            except Exception:
                pass
            hist_log.append(f'failing-eval(instance {k})')
            st.count('history:failing-step')
            continue
        try:
            got = snapshot(Impl(case, xs=xs, proxy=proxy), case['paths'])
            want = snapshot(Impl(case, xs=xs, proxy=XMLSchemaProxy(xs)), case['paths'])
        except Exception as e:
            got, want = {'crash': impl_err(e)}, {'crash': 'none'}
        hist_log.append(f'{kind}-eval(instance {k}, {case["lib"]})')
        st.count('history:step:' + kind)
        cid = {'xsd': case['xsd'], 'xml': case['xml'], 'version': version, 'lib': case['lib'],
               'history': list(hist_log), 'where': 'proxy-history'}
        if got != want:
            diff = next((key for key in want.get('recs', {}) if got.get('recs', {}).get(key) != want['recs'][key]), 'sel')
            run.disagree(Disagreement(dict(cid, node=diff), impl=json_s(got.get('recs', {}).get(diff, got.get('sel'))),
                                      model=None, spec=json_s(want.get('recs', {}).get(diff, want.get('sel'))),
                                      what='proxy-history', site='schema_proxy.AbstractSchemaProxy (state kept across evaluations)'))
        if kind == 'built' and rng.random() < 0.6:
            snaps = reuse_snapshots(Impl(case, xs=xs, proxy=proxy), XMLSchemaProxy(xs))
            st.count('history:tree-reuse')
            try:
                plain = plain_snapshot(Impl(case, xs=xs, proxy=proxy))
            except Exception as e:
                plain = {'crash': impl_err(e)}
            for label, sn, typed in snaps:
                expect = want.get('recs') if typed else plain
                if sn != expect:
                    diff = next((key for key in (expect or {}) if sn.get(key) != expect[key]), 'crash')
                    run.disagree(Disagreement(dict(cid, node=diff, history=hist_log + ['on ONE node tree: ' + label]),
                                              impl=json_s(sn.get(diff)), model=None, spec=json_s((expect or {}).get(diff)),
                                              what='tree-reuse', site='xpath_context.schema setter / apply_schema early return'))
                    break
        if kind == 'unbuilt':
            # the Lean model of the not-fully-valid branch
            line = 'SU' + case['line'][1:].split(' Q ')[0] + ' Q 0'
            PENDING_UNBUILT.append((line, got, cid))
    if rng.random() < 0.3:
        try:
            shared_token_history(run, cases, xs, proxy, hist_log)
        except Exception as e:
            run.disagree(Disagreement({'xsd': cases[0]['xsd'], 'where': 'shared-token', 'history': hist_log}, impl=impl_err(e),
                                      spec='ok', what='shared-token', site='parser / token / Selector reused across documents'))
    st.count('history:cases')
    st.case({'history': hist_log, 'xsd': cases[0]['xsd'][:300]}, nontrivial=True, sample_every=37)


def json_s(x) -> str:
    import json
    return json.dumps(x, sort_keys=True, default=str)


PENDING_UNBUILT: list = []
PENDING_SB: list = []


def histories(run: Run, n: int) -> None:
    PENDING_UNBUILT.clear()
    for _ in range(n):
        history_case(run, run.rng)
    # the Lean model of the not-fully-valid branch, one driver call for all unbuilt steps
    answers = run.driver('C20', [p[0] for p in PENDING_UNBUILT])
    for (line, got, cid), ans in zip(PENDING_UNBUILT, answers):
        A = parse_answer(ans)
        for key, m in A.items():
            if key[0] not in 'na':
                continue
            r = got.get('recs', {}).get(key)
            mine = {'T': m['T'], 'M': m['M']}
            if r is None or {'T': r['T'], 'M': r['M']} != mine:
                run.disagree(Disagreement(dict(cid, node=key), impl=json_s(r), model=json_s(mine), spec=None,
                                          what='unbuilt-typing-model', site='xpath_nodes.apply_schema (not fully valid)'))
                break
        run.stats.count('history:unbuilt-step-vs-model')


def body(run: Run) -> int:
    if getattr(run, 'replay', None):
        return replay(run, run.replay)
    run.trusted_base += [
        'xmlschema 4.x (the schema processor of the property: schema parsing, validity of the generated instances, '
        'decode() of simple types, is_instance/encode for user-defined type names) and the proxy protocol',
        'lxml / xml.etree parsers', 'the reduction of XSD in EPV/Model/SchemaTyping.lean (header comment)',
        'harness-side translation of the generated schema / instance / path into driver tokens']
    run.assumptions += [
        'instances are generated from the schema and confirmed valid by xmlschema; invalid ones (unresolvable xsi:type '
        'prefix) are used for the model tie only',
        'texts are ASCII; no underscores / non-ASCII digits in numeric literals; no comments or PIs inside simple content',
        'path language: forward axes + attribute, name/*/node() tests, positional/existence/count/boolean predicates; '
        'no value comparisons or type tests in paths (those legitimately depend on the typed value)',
        'selection compared as sets of pre-order indices (document order of results is property C01)']
    run.stats.extra['prototype_tables'] = translate(run)
    run.trusted_base.append('translator harness/c20.py::translate (prints decoder._ATOMIC_VALUES class names as Lean literals)')
    run.prove(['EPV.Props.C20', 'EPV.Props.C20Tables', 'EPV.Props.C20All'], extra_modules=[])
    try:
        correspond(run)
        decoder_probe(run, run.scale(600, 6000), sys.modules[__name__])
        histories(run, run.scale(50, 500))
    except DriverError as e:
        run.broken.append('driver:C20 ' + str(e)[:300])
    return run.finish('proof', shrink=shrink, search=search)


if __name__ == '__main__':
    cli(PROP, body, translate=translate)

"""
C16, phase 5 — arrays and maps as containers of function items (EPV/Model/Containers.lean,
EPV/Spec/ContainerSem.lean, EPV/Props/C16Containers.lean).

A container program is

    let $v.. := e return ... let $c := [m, ...] | map{k: m, ...} return let $v.. := e' return ... (use, ...)

with uses  $c?k | $c(k) | $c?k(args) | $c(k)(args) | for $f in $c?k return $f(args)   (args may be `?`).
The member / binding / argument expressions come from the typed generator of harness/c16.py; the bindings
made after the constructor re-bind the variables the members captured (70 %).
Every program: real code (three evaluations of one token tree) vs Lean model vs Lean spec.
"""
from __future__ import annotations

from harness.common import Run, Disagreement
from harness import c16 as base
from harness.c16 import I, B, IS, S, F, xp, proto, wrap, renumber, kinds, size, wellformed

CTREES: dict[str, dict] = {}
# the flags of a container answer are the three triggers of the closure model (all repaired in /repo)
CFLAG_TAGS = base.FLAG_TAGS


def klit(k: int) -> str:
    return str(k) if k >= 0 else f'(-{-k})'


def use_xp(u, is_map=False) -> str:
    kind = u[0]
    if kind == 'foreach':
        f = base.funarg(u[1])
        return f'map:for-each($c, {f})' if is_map else f'(array:for-each($c, {f})?*)'
    if kind == 'get':
        _, k, via = u
        return f'$c?{k}' if via == '?' and k >= 0 else f'$c({klit(k)})'
    if kind == 'ucall':
        _, k, args, via = u
        head = f'$c?{k}' if via == '?' and k >= 0 else f'$c({klit(k)})'
        return head + '(' + ', '.join('?' if a is None else wrap(a) for a in args) + ')'
    _, x, k, args, via = u
    head = f'$c?{k}' if via == '?' and k >= 0 else f'$c({klit(k)})'
    return f'(for $v{x} in {head} return $v{x}(' + ', '.join('?' if a is None else wrap(a) for a in args) + '))'


def member_xp(m) -> str:
    """a member is an ExprSingle: function expressions, references, calls are printed bare (the
    constructor evaluates THAT token), everything else parenthesised; a `par` node keeps its parentheses"""
    return xp(m) if m[0] in ('fn', 'tfn', 'named', 'call', 'spart', 'par') else wrap(m)


def cxp(p) -> str:
    out = ''
    for x, e in p['pre']:
        out += f'let $v{x} := {wrap(e)} return '
    if p['isMap']:
        out += 'let $c := map{' + ', '.join(f'{klit(k)}: {member_xp(m)}' for k, m in p['entries']) + '} return '
    else:
        out += 'let $c := [' + ', '.join(member_xp(m) for _, m in p['entries']) + '] return '
    for x, e in p['post']:
        out += f'let $v{x} := {wrap(e)} return '
    return out + '(' + ', '.join(use_xp(u, p['isMap']) for u in p['uses']) + ')'


def args_proto(args) -> str:
    return ' '.join([str(len(args))] + ['?' if a is None else proto(a) for a in args])


def cproto(p) -> str:
    out = [str(len(p['pre']))]
    for x, e in p['pre']:
        out += [str(x), proto(e)]
    out += ['1' if p['isMap'] else '0', str(len(p['entries']))]
    for k, m in p['entries']:
        out += [str(k), proto(m)]
    out.append(str(len(p['post'])))
    for x, e in p['post']:
        out += [str(x), proto(e)]
    out.append(str(len(p['uses'])))
    for u in p['uses']:
        if u[0] == 'get':
            out += ['get', str(u[1])]
        elif u[0] == 'foreach':
            out += ['foreach', proto(u[1])]
        elif u[0] == 'ucall':
            out += ['ucall', str(u[1]), args_proto(u[2])]
        else:
            out += ['each', str(u[1]), str(u[2]), args_proto(u[3])]
    return ' '.join(out)


def cexprs(p):
    es = [e for _, e in p['pre']] + [m for _, m in p['entries']] + [e for _, e in p['post']]
    for u in p['uses']:
        if u[0] == 'foreach':
            es.append(u[1])
        else:
            es += [a for a in (u[2] if u[0] == 'ucall' else u[3] if u[0] == 'each' else []) if a is not None]
    return es


def crenumber(p):
    """token numbers of the function expressions = order of occurrence over the whole program"""
    es = cexprs(p)
    new = list(renumber(('seqall',) + tuple(es))[1:])
    it = iter(new)

    def args(a):
        return [None if x is None else next(it) for x in a]
    q = {'isMap': p['isMap']}
    q['pre'] = [(x, next(it)) for x, _ in p['pre']]
    q['entries'] = [(k, next(it)) for k, _ in p['entries']]
    q['post'] = [(x, next(it)) for x, _ in p['post']]
    us = []
    for u in p['uses']:
        if u[0] == 'get':
            us.append(u)
        elif u[0] == 'foreach':
            us.append(('foreach', next(it)))
        elif u[0] == 'ucall':
            us.append(('ucall', u[1], args(u[2]), u[3]))
        else:
            us.append(('each', u[1], u[2], args(u[3]), u[4]))
    q['uses'] = us
    return q


def csize(p) -> int:
    return sum(size(e) for e in cexprs(p)) + 3 * len(p['uses']) + len(p['pre']) + len(p['post']) + len(p['entries'])


FTYPES = [F([], I), F([I], I), F([I], I), F([I, I], I), F([IS], I), F([I], IS), F([IS], IS), F([], IS), F([I], B)]


def gen_program(g: base.Gen, rng, d: int):
    g.tags = set()
    tags = set()
    sc = {'vars': [], 'dot': I}
    pre = []
    for _ in range(rng.choice([0, 1, 1, 2, 2, 3])):
        t = rng.choice([I, I, I, IS, B, F([I], I)])
        e = g.gen(t, sc, d - 2)
        x = g.fresh(sc)
        pre.append((x, e, t))
        sc = g.bind(sc, x, t)
    is_map = rng.random() < 0.45
    n = rng.choice([1, 1, 2, 2, 3, 4]) if rng.random() < 0.93 else 0
    if is_map:
        keys = rng.sample([1, 2, 3, 5, 7, 10, 0, -1, -4], n)
        if n >= 2 and rng.random() < 0.06:
            keys[rng.randrange(1, n)] = keys[0]
            tags.add('cont:duplicate-key')
    else:
        keys = list(range(1, n + 1))
    entries, mtypes = [], []
    uniform = rng.choice(FTYPES) if rng.random() < 0.35 else None   # all members of one function type
    if uniform is not None:
        tags.add('cont:uniform-members')
    for k in keys:
        r = rng.random()
        if uniform is not None:
            r = 0.0
        if r < 0.7:
            t = uniform or rng.choice(FTYPES)
            m = g.gen(t, sc, d - 1)
            # make the captured bindings matter: an inline function over the variables in scope
            if pre and rng.random() < 0.5:
                ps = []
                sc2 = dict(sc, dot=None, infn=True)
                for at in t[1]:
                    pv = g.fresh(sc2, avoid=ps)
                    ps.append(pv)
                    sc2 = g.bind(sc2, pv, at)
                sc2['dot'] = None
                try:
                    m = ('fn', 0, ps, g.gen(t[2], sc2, d - 1))
                    tags.add('cont:member-closure')
                except Exception:
                    pass
        elif r < 0.82:
            ft = rng.choice(FTYPES)
            t = S(ft)
            m = ('for', g.fresh(sc), ('par', ('cat', ('lit', rng.choice([1, 2, 3])), ('lit', rng.choice([4, 5])))), None)
            lv = m[1]
            m = ('for', lv, m[2], g.gen(ft, g.bind(sc, lv, I), d - 1))
            tags.add('cont:member-function-sequence')
        else:
            t = rng.choice([I, IS, B])
            m = g.gen(t, sc, d - 2)
            tags.add('cont:member-not-function')
        if m[0] in ('fn', 'tfn', 'named') and rng.random() < 0.25:
            m = ('par', m)
        entries.append((k, m))
        mtypes.append(t)
    post = []
    sc_post = sc
    for _ in range(rng.choice([0, 1, 1, 2, 2])):
        if pre and rng.random() < 0.7:
            x, _, t = rng.choice(pre)      # re-bind a variable the members may have captured
            tags.add('cont:rebind-captured')
        else:
            t = rng.choice([I, IS, B])
            x = g.fresh(sc_post)
        e = g.gen(t, sc_post, d - 2)
        post.append((x, e))
        sc_post = g.bind(sc_post, x, t)
    uses = []
    used = {v for v, _ in sc_post['vars']}
    for _ in range(rng.choice([1, 1, 2, 2, 3, 4])):
        via = rng.choice(['?', '('])
        if rng.random() < 0.18:
            # array:for-each($c, action)?* / map:for-each($c, action): the action takes the member
            # (key, member); when all members have one type the action calls / counts them
            ts = set(map(repr, mtypes))
            mt = mtypes[0] if len(ts) == 1 else None
            pm = max(used | {0}) + 1
            pk = pm + 1
            scf = dict(sc_post, dot=None, infn=True)
            if is_map:
                scf = g.bind(scf, pk, I)
            if mt is not None and base.is_fun(mt) and rng.random() < 0.8:
                scf2 = g.bind(scf, pm, mt)
                body = ('call', ('var', pm), [g.gen(at, scf2, d - 2) for at in mt[1]])
                tags.add('foreach:calls-member')
            elif mt is not None and not base.is_fun(mt) and not (base.is_seq(mt) and base.is_fun(mt[1])) \
                    and rng.random() < 0.7:
                body = g.gen(rng.choice([I, IS]), g.bind(scf, pm, mt), d - 2)
            else:
                body = ('call', ('named', 'count'), [('var', pm)])
                if is_map and rng.random() < 0.5:
                    body = ('cat', ('var', pk), body)
            ps = [pk, pm] if is_map else [pm]
            if rng.random() < 0.08:
                ps = ps[:-1] if rng.random() < 0.5 else ps + [pk + 1]     # wrong arity: XPTY0004 (also when empty: F16x, repaired)
                tags.add('foreach:wrong-arity')
            f = ('fn', 0, ps, body)
            r2 = rng.random()
            if r2 < 0.15:
                f = ('par', f)
            elif r2 < 0.25 and not is_map and len(ps) == 1:
                f = rng.choice([('named', 'count'), ('named', 'reverse'), ('named', 'exists')])
            elif r2 < 0.3:
                f = ('cat', f, f)                                        # not ONE function item
            uses.append(('foreach', f))
            tags.add('use:foreach')
            continue
        if keys and rng.random() < 0.9:
            i = rng.randrange(len(keys))
            k, t = keys[i], mtypes[i]
            if is_map and keys.index(k) != i:
                t = mtypes[keys.index(k)]
        else:
            k = rng.choice([0, len(keys) + 1, -1, 8, len(keys) + 2])
            t = None
            tags.add('cont:lookup-miss')
        if t is None:
            uses.append(rng.choice([('get', k, via), ('ucall', k, [], via)]))
            continue
        if base.is_seq(t) and base.is_fun(t[1]):
            ft = t[1]
            x = max(used | {0}) + 1 + rng.randrange(2)
            args = [g.gen(at, sc_post, d - 2) for at in ft[1]]
            if rng.random() < 0.15:
                uses.append(('get', k, via))
            else:
                uses.append(('each', x, k, args, via))
                tags.add('use:each')
            continue
        if base.is_fun(t):
            r = rng.random()
            args = [g.gen(at, sc_post, d - 2) for at in t[1]]
            if r < 0.1:
                uses.append(('get', k, via))
                tags.add('use:get-function')
            elif r < 0.25 and args:
                args[rng.randrange(len(args))] = None
                uses.append(('ucall', k, args, via))
                tags.add('use:partial')
            elif r < 0.35:
                x = max(used | {0}) + 1
                uses.append(('each', x, k, args, via))
                tags.add('use:each')
            else:
                if g.noise and rng.random() < g.noise:
                    args = args[:-1] if args and rng.random() < 0.5 else args + [('lit', 1)]
                    tags.add('noise:arity')
                uses.append(('ucall', k, args, via))
                tags.add('use:call')
            continue
        if g.noise and rng.random() < g.noise * 3:
            uses.append(('ucall', k, [], via))
            tags.add('noise:call-non-function')
        else:
            uses.append(('get', k, via))
    tags.add('cont:map' if is_map else 'cont:array')
    p = {'pre': [(x, e) for x, e, _ in pre], 'isMap': is_map, 'entries': entries, 'post': post, 'uses': uses}
    if not all(wellformed(e) for e in cexprs(p)):
        return gen_program(g, rng, d)
    return crenumber(p), sorted(tags | {t for t in g.tags if not t.startswith('parser:')})


def L(n):
    return ('lit', n)


def V(n):
    return ('var', n)


def fnx(ps, body):
    return ('fn', 0, ps, body)


def corpus():
    """the witnesses of Props/C16Containers.lean and the boundary cases"""
    out = []
    f0 = fnx([], V(0))
    f1 = fnx([1], ('add', V(1), V(0)))
    for is_map in (False, True):
        ents = [(1, f0), (2, f1)]
        for via in '?(':
            out.append({'pre': [(0, L(1))], 'isMap': is_map, 'entries': ents, 'post': [(0, L(2))],
                        'uses': [('ucall', 1, [], via), ('ucall', 2, [L(10)], via), ('get', 2, via)]})
            out.append({'pre': [(0, L(1))], 'isMap': is_map, 'entries': ents, 'post': [(0, L(2))],
                        'uses': [('ucall', 2, [None], via), ('each', 5, 2, [V(0)], via), ('each', 5, 1, [], via)]})
            for k in (0, 3, -1):
                out.append({'pre': [(0, L(1))], 'isMap': is_map, 'entries': ents, 'post': [],
                            'uses': [('ucall', 1, [], via), ('get', k, via)]})
                out.append({'pre': [(0, L(1))], 'isMap': is_map, 'entries': ents, 'post': [],
                            'uses': [('ucall', k, [('add', L(1), ('tt',))], via)]})
        stale = [(1, ('for', 0, ('par', ('cat', L(1), L(2))), fnx([], V(0))))]
        out.append({'pre': [], 'isMap': is_map, 'entries': stale, 'post': [], 'uses': [('each', 5, 1, [], '?')]})
        out.append({'pre': [], 'isMap': is_map, 'entries': [], 'post': [], 'uses': [('get', 1, '(')]})
        out.append({'pre': [], 'isMap': is_map, 'entries': [(1, ('named', 'abs')), (2, ('cat', L(1), L(2)))],
                    'post': [], 'uses': [('ucall', 1, [L(-3)], '?'), ('get', 2, '?'), ('ucall', 2, [L(1)], '(')]})
        act1 = fnx([7], ('call', V(7), [V(0)]))
        act2 = fnx([8, 7], ('call', V(7), [('add', V(0), V(8))]))
        wrong = fnx([7], V(7)) if is_map else fnx([7, 8], V(7))
        out.append({'pre': [(0, L(3))], 'isMap': is_map, 'entries': [(1, f1), (2, fnx([1], ('mul', V(1), V(0))))],
                    'post': [(0, L(100))], 'uses': [('foreach', act2 if is_map else act1)]})
        out.append({'pre': [(0, L(3))], 'isMap': is_map, 'entries': [(1, f1)], 'post': [], 'uses': [('foreach', wrong)]})
        out.append({'pre': [], 'isMap': is_map, 'entries': [], 'post': [], 'uses': [('foreach', wrong)]})   # F16x (repaired)
        out.append({'pre': [], 'isMap': is_map, 'entries': [], 'post': [],
                    'uses': [('foreach', act2 if is_map else act1), ('foreach', L(5))]})
    out.append({'pre': [], 'isMap': True, 'entries': [(1, ('named', 'abs')), (1, ('named', 'count'))], 'post': [],
                'uses': []})
    out.append({'pre': [], 'isMap': True, 'entries': [(1, ('named', 'abs')), (1, ('add', L(1), ('tt',)))], 'post': [],
                'uses': []})
    out.append({'pre': [], 'isMap': True, 'entries': [(1, L(1)), (2, L(2)), (1, L(3)), (4, ('add', L(1), ('tt',)))],
                'post': [], 'uses': []})
    return [(crenumber(p), ['corpus']) for p in out]


def compare(run: Run, cfg: str, progs: list, record=True) -> list[Disagreement]:
    texts = [cxp(p) for p, _ in progs]
    impls = [base.run_impl(t) for t in texts]
    keep = [i for i, r in enumerate(impls) if r != 'TIMEOUT']
    if record and len(keep) != len(progs):
        run.stats.count('skipped:timeout', len(progs) - len(keep))
    progs = [progs[i] for i in keep]
    impls = [impls[i] for i in keep]
    lines = [f'cfg={cfg} fuel={base.FUEL} C={cproto(p)}' for p, _ in progs]
    answers = base.safe_driver(run, lines)
    out = []
    st = run.stats
    for (p, tags), ans, impl in zip(progs, answers, impls):
        case = {'xpath': cxp(p), 'program': 'C=' + cproto(p), 'cfg': cfg, 'container': True}
        if ans is None:
            if record:
                st.count('skipped:model-timeout')
            continue
        if ans.startswith('bad-'):
            out.append(Disagreement(case, 'driver:' + ans, what='protocol'))
            continue
        model, flags, spec = base.parse_answer(ans)
        if model == 'ERR:FUEL' or spec == 'ERR:FUEL':
            if record:
                st.count('skipped:fuel')
            continue
        ftags = [tag for bit, (_, tag) in zip(flags, CFLAG_TAGS) if bit == '1']
        if record:
            st.case(case, nontrivial=bool(p['entries']) and bool(p['uses']))
            st.count('container:programs')
            for t in tags:
                st.count('gen:' + t)
            for u in p['uses']:
                st.count('container:use:' + u[0] + ('' if u[0] == 'foreach' else ':lookup' if u[-1] == '?' else ':call-form'))
            for t in ftags:
                st.count('trigger:' + t)
            st.count('container:result:' + ('error:' + impl[4:] if impl.startswith('ERR:') else
                                            ('empty' if impl == '()' else 'items')))
        if impl != spec or impl != model:
            CTREES[case['program']] = p
        if impl != spec:
            out.append(Disagreement(case, impl=impl, model=model, spec=spec, what='container-closure-semantics',
                                    site='XPathArray/XPathMap.evaluate, __call__, lookup, dynamic call', tags=ftags))
        elif impl != model:
            out.append(Disagreement(case, impl=impl, model=model, spec=spec, what='model'))
    return out


def correspond(run: Run, cfg: str) -> None:
    rng = run.rng
    n = run.scale(1500, 15000)
    g = base.Gen(rng, noise=0.0)
    gn = base.Gen(rng, noise=0.08)
    progs = corpus()
    for k in range(n):
        progs.append(gen_program(gn if k % 5 == 4 else g, rng, rng.choice([2, 3, 3, 4])))
    for i in range(0, len(progs), 1500):
        for d in compare(run, cfg, progs[i:i + 1500]):
            run.disagree(d)


def search(run: Run, cfg: str) -> list[Disagreement]:
    """systematic small container programs: array/map x lookup form x member shape x use x rebinding"""
    sub = Run(base.PROP, run.tier, run.seed)
    progs = list(corpus())
    bodies = [(fnx([], V(0)), []), (fnx([1], ('add', ('mul', V(1), L(10)), V(0))), [L(3)]),
              (('call', fnx([1, 2], ('sub', ('mul', V(1), V(0)), V(2))), [None, V(0)]), [L(4)])]
    for is_map in (False, True):
        for via in '?(':
            for m, a in bodies:
                for post in ([], [(0, L(50))]):
                    for nent in (1, 2, 3):
                        ents = [(j + 1, m) for j in range(nent)]
                        for k in range(0, nent + 2):
                            for u in (('ucall', k, a, via), ('each', 7, k, a, via), ('get', k, via)):
                                progs.append(({'pre': [(0, L(6))], 'isMap': is_map, 'entries': ents, 'post': post,
                                               'uses': [u, u]}, ['search']))
    progs = [(crenumber(p), t) for p, t in progs]
    out = []
    for i in range(0, len(progs), 3000):
        out.extend(compare(sub, cfg, progs[i:i + 3000], record=False))
    run.notes.append(f'search(containers): {len(progs)} systematic small programs, {len(out)} disagreements')
    return out


def shrink(d: Disagreement) -> Disagreement:
    p = CTREES.get(d.case.get('program'))
    if p is None:
        return d
    sub = Run(base.PROP, 'quick', 0)
    cfg = d.case.get('cfg', '001')
    best, bd = p, d
    improved, budget = True, 200
    while improved and budget > 0:
        improved = False
        cands = []
        for i in range(len(best['uses'])):
            cands.append(dict(best, uses=best['uses'][:i] + best['uses'][i + 1:]))
        for i in range(len(best['post'])):
            cands.append(dict(best, post=best['post'][:i] + best['post'][i + 1:]))
        for i in range(len(best['pre'])):
            cands.append(dict(best, pre=best['pre'][:i] + best['pre'][i + 1:]))
        if best['isMap']:
            for i in range(len(best['entries'])):
                cands.append(dict(best, entries=best['entries'][:i] + best['entries'][i + 1:]))
        elif best['entries']:
            cands.append(dict(best, entries=best['entries'][:-1]))
        for i, u in enumerate(best['uses']):
            if u[0] not in ('get', 'foreach'):
                for j, a in enumerate(u[2] if u[0] == 'ucall' else u[3]):
                    if a is not None and a[0] != 'lit':
                        na = list(u[2] if u[0] == 'ucall' else u[3])
                        na[j] = ('lit', 1)
                        nu = ('ucall', u[1], na, u[3]) if u[0] == 'ucall' else ('each', u[1], u[2], na, u[4])
                        cands.append(dict(best, uses=best['uses'][:i] + [nu] + best['uses'][i + 1:]))
        for cand in cands:
            budget -= 1
            if budget <= 0:
                break
            try:
                c = crenumber(cand)
                ds = compare(sub, cfg, [(c, [])], record=False)
            except Exception:
                continue
            ds = [x for x in ds if x.kind == d.kind and x.what == d.what and x.tags == d.tags
                  and base.sig(x) == base.sig(d)]
            if ds and csize(c) < csize(best):
                best, bd, improved = c, ds[0], True
                break
    return bd

"""
C19 — evaluation preserves process-global state: locale, lock, environment, decimal context,
entities; independent threads.

 translate : defaults of the *live* elementpath (XPathContext(allow_environment=..),
             XPath30Parser().defuse_xml, type of _locale_collate_lock)
             -> lean/EPV/Gen/C19Defaults.lean   (theorems over them: EPV/Props/C19Defaults.lean)
 prove     : EPV.Props.C19 (any availability function, any history, any number of threads, all
             interleavings), EPV.Props.C19Defaults
 correspond: `locale._setlocale` (the C function behind locale.setlocale / getlocale) is replaced
             IN THIS PROCESS by a stub with a configurable set of installed locales that records
             every request; histories of 2..10 collation-using evaluations (flat and nested, bodies
             returning or raising) run through the real `elementpath.select` under a watchdog and
             are compared step by step with the Lean model (outcome, lock, LC_COLLATE, setlocale
             request log, decimal context, os.environ) and the Lean spec (terminated, lock free,
             everything as at the start);  2..8 Selectors in concurrent threads vs sequentially;
             fn:environment-variable / fn:parse-xml gates on structured inputs.
 search    : exhaustive small scope: every history of <= 2 evaluations over a 9-collation alphabet
             x 8 availability configurations x flat/raising/nested, real code vs spec.
"""
from __future__ import annotations

import decimal
import hashlib
import locale
import os
import sys
import threading
import time
from pathlib import Path

sys.path.insert(0, str(Path(__file__).resolve().parent.parent))
from harness.common import (Run, Disagreement, cli, LEAN, DriverError)  # noqa: E402

PROP = 'C19'
UCA = 'http://www.w3.org/2013/collation/UCA'
CODEPOINT = 'http://www.w3.org/2005/xpath-functions/collation/codepoint'
HTML_ASCII = 'http://www.w3.org/2005/xpath-functions/collation/html-ascii-case-insensitive'
CASEBLIND = 'http://www.w3.org/2010/09/qt-fots-catalog/collation/caseblind'

_REAL_SETLOCALE = locale._setlocale
_REAL_STRCOLL = locale.strcoll
_REAL_STRXFRM = locale.strxfrm


# ------------------------------------------------------------------------------ encoding
def enc(s: str) -> str:
    return '_' if s == '' else '.'.join(str(ord(c)) for c in s)


def dec(s: str) -> str:
    return '' if s == '_' else ''.join(chr(int(t)) for t in s.split('.'))


def enc_coll(c) -> str:
    return 'NONE' if c is None else enc(c)


# ----------------------------------------------------------------- the C library stand-in
class LocaleStub:
    """Stand-in for the C function `setlocale` (locale._setlocale) for category LC_COLLATE.
    Exact-name semantics: a request succeeds iff the name is in `avail` ('' = the environment's
    default `envdefault`); a rejected request changes nothing.  Other categories go to the
    real function.  Records every *set* request as (resolved name, accepted)."""

    def __init__(self, avail, cur='C', envdefault='C', yield_prob=0.0, rng=None):
        self.avail = set(avail)
        self.cur = cur
        self.envdefault = envdefault
        self.log: list[tuple[str, bool]] = []
        self.queries = 0
        self.seen: dict[str, list[str]] = {}     # thread name -> LC_COLLATE at each strcoll/strxfrm
        self.yield_prob = yield_prob
        self.rng = rng
        self.nseen = 0
        self.own: dict[str, str] = {}            # thread name -> last locale that thread installed
        self.foreign: dict[str, list] = {}       # thread name -> strcoll calls that saw another one

    def _maybe_yield(self):
        if self.yield_prob and self.rng.random() < self.yield_prob:
            time.sleep(0)

    def setlocale(self, category, loc=None):
        if category != locale.LC_COLLATE:
            return _REAL_SETLOCALE(category, loc)
        self._maybe_yield()
        if loc is None:
            self.queries += 1
            return self.cur
        if not isinstance(loc, str):
            raise TypeError('stub: C-level setlocale got a non-string')
        name = self.envdefault if loc == '' else loc
        if name not in self.avail:
            self.log.append((name, False))
            raise locale.Error('unsupported locale setting')
        self.log.append((name, True))
        self.cur = name
        self.own[threading.current_thread().name] = name
        self._maybe_yield()
        return name

    def _note(self):
        self._maybe_yield()
        me = threading.current_thread().name
        cur = self.cur
        self.nseen += 1
        self.seen.setdefault(me, []).append(cur)
        if self.own.get(me) != cur:
            self.foreign.setdefault(me, []).append((cur, self.own.get(me)))

    def strcoll(self, a, b):
        self._note()
        return 0 if a == b else -1 if a < b else 1

    def strxfrm(self, s):
        self._note()
        return s


def install(stub: LocaleStub):
    from elementpath import collations
    locale._setlocale = stub.setlocale
    locale.strcoll = stub.strcoll
    locale.strxfrm = stub.strxfrm
    if hasattr(collations, '_locale_collate_lock'):
        collations._locale_collate_lock = _new_lock(collations)


_LOCK_TYPE = None


def _new_lock(collations):
    """a fresh lock of the same kind the library uses (so that a hung history cannot poison the
    next one); harness-side reset, not part of the library"""
    global _LOCK_TYPE
    if _LOCK_TYPE is None:
        _LOCK_TYPE = type(collations._locale_collate_lock)
    if _LOCK_TYPE is type(threading.RLock()):
        return threading.RLock()
    return threading.Lock()


def uninstall():
    locale._setlocale = _REAL_SETLOCALE
    locale.strcoll = _REAL_STRCOLL
    locale.strxfrm = _REAL_STRXFRM


def lock_held() -> bool:
    """is `_locale_collate_lock` held by anybody?  (`locked()` for Lock; for a reentrant lock,
    a non-blocking acquire from a helper thread)"""
    from elementpath import collations
    lk = getattr(collations, '_locale_collate_lock', None)
    if lk is None:
        return False
    if hasattr(lk, 'locked'):
        try:
            return bool(lk.locked())
        except Exception:
            pass
    res = []

    def probe():
        ok = lk.acquire(blocking=False)
        if ok:
            lk.release()
        res.append(not ok)
    th = threading.Thread(target=probe)
    th.start()
    th.join()
    return res[0]


def globals_digest() -> tuple[str, str]:
    ctx = decimal.getcontext()
    d = f'{ctx.prec}/{ctx.rounding}/{ctx.Emin}/{ctx.Emax}/{ctx.capitals}/{ctx.clamp}/' \
        f'{sorted(k.__name__ for k, v in ctx.traps.items() if v)}'
    dd = hashlib.blake2b(d.encode(), digest_size=4).hexdigest()
    e = hashlib.blake2b(repr(sorted(os.environ.items())).encode(), digest_size=4).hexdigest()
    return e, dd


# ----------------------------------------------------------------------- evaluation trees
class Ev:
    """one `with CollationManager(coll): body` evaluation; kind = the XPath function used"""
    __slots__ = ('coll', 'inner', 'raises', 'kind', 'dflt')

    def __init__(self, coll, inner=(), raises=False, kind='compare', dflt=False):
        self.coll, self.inner, self.raises, self.kind = coll, list(inner), raises, kind
        self.dflt = dflt      # collation argument omitted: `coll` is the parser's default collation

    def to_json(self):
        return {'coll': self.coll, 'kind': self.kind, 'raises': self.raises, 'default_collation': self.dflt,
                'inner': [e.to_json() for e in self.inner]}

    @staticmethod
    def from_json(j):
        return Ev(j['coll'], [Ev.from_json(x) for x in j['inner']], j['raises'], j['kind'],
                  j.get('default_collation', False))

    def tokens(self):
        out = ['E', enc_coll(self.coll), '7' if self.raises else '-', str(len(self.inner))]
        for e in self.inner:
            out += e.tokens()
        return out

    def colls(self):
        yield self.coll
        for e in self.inner:
            yield from e.colls()

    def size(self):
        return 1 + sum(e.size() for e in self.inner)


# evaluations that do not use CollationManager at all (regex caches, decimal arithmetic, the gated
# functions, date/time): in the model they are no-locale scopes; observed for the frame (decimal
# context, os.environ) and, in the thread runs, for the module-level caches shared by threads
OTHER_EXPRS = [
    "matches($a, '\\p{Lu}*\\p{IsGreek}?[\\p{L}-[aeiou]]*')",
    "xs:decimal('1.1') div 3",
    "round-half-to-even(xs:decimal('2.345'), 2)",
    "tokenize('a b  c', '\\s+')",
    "replace($a, '[\\p{L}-[aeiou]]', 'x')",
    "environment-variable('HOME')",
    "string(parse-xml('<r>t</r>'))",
    "format-number(1234.5, '#,##0.00')",
    "current-dateTime() gt xs:dateTime('2000-01-01T00:00:00')",
    "xs:float('1.5') * 2",
    "upper-case($a)",
    "normalize-unicode('\u00e9', 'NFD')",
    "xs:decimal(1) div xs:decimal(7)",
    "matches('\u03b1\u03b2', '^\\p{IsGreek}+$')",
    "xs:integer('12') idiv 5",
    "string-length(codepoints-to-string((97, 8364, 128512)))",
]

FLAT_KINDS = ['compare', 'contains', 'starts-with', 'ends-with', 'substring-before',
              'substring-after', 'index-of', 'distinct-values', 'max', 'min', 'deep-equal',
              'contains-token', 'collation-key']
# kinds whose operand is evaluated INSIDE the `with` block, with the marker that makes the body raise
RAISE_MARK = {'index-of': ('$one div $zero', 'FOAR0001'), 'distinct-values': ('$one div $zero', 'FOAR0001'),
              'deep-equal': ('$one div $zero', 'FOAR0001'), 'contains-token': ('1', 'XPTY0004'),
              'max': ('1', 'FORG0006'),
              'for-index-of': ('$one div $zero', 'FOAR0001'), 'for-distinct-values': ('$one div $zero', 'FOAR0001')}
# 'for-*': the scope is held open by a suspended generator (fn:index-of / fn:distinct-values yield from
# inside their `with` block) while the `return` expression is evaluated
NEST_KINDS = ['contains-token', 'index-of', 'distinct-values', 'deep-equal', 'for-index-of', 'for-distinct-values']


class ExprBuilder:
    def __init__(self):
        self.vars = {'a': 'a', 'b': 'b', 's': ['b', 'a', 'b'], 'one': 1, 'zero': 0}
        self.collvar: dict[str, str] = {}
        self.markers: set[str] = set()
        self.ck = False

    def cref(self, coll):
        if coll is None:
            return '()'
        if coll not in self.collvar:
            name = f'c{len(self.collvar)}'
            self.collvar[coll] = name
            self.vars[name] = coll
        return '$' + self.collvar[coll]

    def expr(self, ev: Ev) -> str:
        k = ev.kind
        if k.startswith('other:'):
            return OTHER_EXPRS[int(k[6:])]
        if ev.dflt:
            return self.expr_with(ev, '')
        return self.expr_with(ev, ', ' + self.cref(ev.coll))

    def expr_with(self, ev: Ev, c: str) -> str:
        k = ev.kind
        if ev.inner or ev.raises:
            items = [f'string(count({self.expr(e)}))' for e in ev.inner] + ["'x'"]
            if ev.raises:
                mark, code = RAISE_MARK[k]
                items.append(mark)
                self.markers.add(code)
            seq = '(' + ', '.join(items) + ')'
        else:
            seq = '$s'
        if k == 'for-index-of':
            return f'for $i in index-of($a, $a{c}) return {seq}'
        if k == 'for-distinct-values':
            return f'for $i in distinct-values($a{c}) return {seq}'
        if k == 'compare':
            return f'compare($a, $b{c})'
        if k in ('contains', 'starts-with', 'ends-with', 'substring-before', 'substring-after'):
            return f'{k}($a, $b{c})'
        if k == 'index-of':
            return f'index-of({seq}, $a{c})'
        if k == 'distinct-values':
            return f'distinct-values({seq}{c})'
        if k in ('max', 'min'):
            return f'{k}({seq}{c})'
        if k == 'deep-equal':
            return f'deep-equal({seq}, $s{c})'
        if k == 'contains-token':
            return f"contains-token({seq}, 'zz'{c})"
        if k == 'collation-key':
            self.ck = True
            return f'collation-key($a{c})'
        raise ValueError(k)


# ------------------------------------------------------------------------- running the code
def canon_exc(e: BaseException) -> str:
    from elementpath.exceptions import ElementPathError
    if isinstance(e, ElementPathError):
        code = getattr(e, 'code', None) or ''
        code = code.split(':')[-1] if code else ''
        return f'ERR:{code}' if code else f'ERR:OTHER:{type(e).__name__}'
    return f'ERR:OTHER:{type(e).__name__}'


def watchdog(fn, hang_poll=0.05, limit=20.0):
    """run fn() in a daemon thread.  Returns ('ok', value) | ('exc', exception) | ('HANG', where).
    HANG = the thread sits in CollationManager.__enter__ (blocked in acquire) on two looks
    50 ms apart, or does not finish within `limit` seconds."""
    box = {}

    def target():
        try:
            box['v'] = fn()
        except BaseException as e:   # noqa: everything the implementation raises is an outcome
            box['e'] = e
    th = threading.Thread(target=target, daemon=True)
    th.start()
    t0 = time.time()
    looks = 0
    th.join(0.02)
    while th.is_alive():
        fr = sys._current_frames().get(th.ident)
        where = ''
        if fr is not None:
            where = f'{Path(fr.f_code.co_filename).name}:{fr.f_code.co_name}'
        if where.endswith('collations.py:__enter__'):
            looks += 1
            if looks >= 2:
                return 'HANG', 'acquire'
        else:
            looks = 0
        if time.time() - t0 > limit:
            return 'HANG', where or 'unknown'
        th.join(hang_poll)
    if 'e' in box:
        return 'exc', box['e']
    return 'ok', box.get('v')


ROOT = None


def root():
    global ROOT
    if ROOT is None:
        import xml.etree.ElementTree as ET
        ROOT = ET.XML('<a><b>x</b><b>y</b></a>')
    return ROOT


def run_tree(ev: Ev):
    """evaluate one tree with the real library; returns canonical outcome text"""
    from elementpath import select
    from elementpath.xpath31 import XPath31Parser
    b = ExprBuilder()
    expr = b.expr(ev)

    def go():
        r = select(root(), expr, parser=XPath31Parser, variables=b.vars)
        return r
    kind, val = watchdog(go)
    if kind == 'HANG':
        return 'HANG' if val == 'acquire' else f'HANG:{val}', expr
    if kind == 'ok':
        return 'ok', expr
    out = canon_exc(val)
    code = out[4:]
    if code in b.markers:
        out = 'ERR:BODY'
    elif b.ck and out == 'ERR:FOCH0004':
        out = 'ERR:FOCH0002'      # collation-key re-labels every locale.Error (incl. FOCH0002)
    return out, expr


class World:
    def __init__(self, init, avail, envdefault='C'):
        self.init, self.avail, self.envdefault = init, sorted(set(avail) | {init}), envdefault

    def to_json(self):
        return {'init': self.init, 'avail': self.avail, 'envdefault': self.envdefault}

    def default_collation(self) -> str:
        """`XPath31Parser().default_collation` in a process whose LC_COLLATE is `init`"""
        if getattr(self, '_dc', None) is None:
            from elementpath.xpath31 import XPath31Parser
            stub = LocaleStub(self.avail, self.init, self.envdefault)
            install(stub)
            try:
                self._dc = XPath31Parser().default_collation
            finally:
                uninstall()
        return self._dc

    @staticmethod
    def from_json(j):
        return World(j['init'], j['avail'], j.get('envdefault', 'C'))


def impl_manager(coll):
    """(lc_collate, fallback) of the real CollationManager(coll) — or the canonical error"""
    from elementpath.collations import CollationManager
    try:
        m = CollationManager(coll)
    except BaseException as e:
        return canon_exc(e)
    return m.lc_collate, m.fallback


def req_enc(lc) -> str:
    return ('N:' + enc(lc)) if isinstance(lc, str) else ('P:' + enc(lc[0] if lc[0] is not None else ''))


def norm_name(lc, world: World) -> str:
    """the name Python's locale.setlocale hands to the C function for this request"""
    if isinstance(lc, str):
        return world.envdefault if lc == '' else lc
    return locale.normalize(locale._build_localename(lc))


def norm_table(colls, world: World) -> str:
    out = {}
    for c in colls:
        if c is None:
            continue
        m = impl_manager(c)
        if isinstance(m, str) or m[0] is None:
            continue
        try:
            out[req_enc(m[0])] = enc(norm_name(m[0], world))
        except Exception:
            pass
    out['N:' + enc('en_US.UTF-8')] = enc('en_US.UTF-8')
    return ';'.join(f'{k}>{v}' for k, v in sorted(out.items()))


def hist_line(world: World, evs: list[Ev], envd: str, decd: str) -> str:
    colls = {c for e in evs for c in e.colls()}
    toks = [t for e in evs for t in e.tokens()]
    return (f'HIST init={enc(world.init)} avail={";".join(enc(a) for a in world.avail)} '
            f'norm={norm_table(colls, world)} env={envd} dec={decd} evs={"/".join(toks)}')


def run_history_impl(world: World, evs: list[Ev], yield_prob=0.0):
    """returns list of observation strings in the driver's format (stops after a HANG)"""
    stub = LocaleStub(world.avail, world.init, world.envdefault)
    install(stub)
    obs, exprs = [], []
    try:
        for ev in evs:
            n0 = len(stub.log)
            out, expr = run_tree(ev)
            exprs.append(expr)
            envd, decd = globals_digest()
            log = ','.join(enc(n) + ('+' if ok else '-') for n, ok in stub.log[n0:])
            obs.append(f'{out}#{int(lock_held())}#{enc(stub.cur)}#{decd}#{envd}#{log}')
            if out.startswith('HANG'):
                break
    finally:
        uninstall()
    return obs, exprs


# ------------------------------------------------------------------------------ generators
LOCALES = ['de_DE.UTF-8', 'fr_FR.UTF-8', 'en_US.UTF-8', 'it_IT.UTF-8', 'sv_SE.UTF-8', 'xx.UTF-8']
INITS = ['C', 'C', 'C', 'POSIX', 'en_US.UTF-8', 'en_US', 'de_DE@euro', 'mylocale', 'C.utf8', 'de_DE.UTF-8',
         'en_US.utf-8', 'sr_RS.UTF-8@latin', 'en_US.ISO8859-1']
LANGS = ['de', 'de_DE', 'fr', 'fr_FR', 'en', 'en_US', 'it', 'sv', 'xx', 'de_DE.UTF-8', 'fr_FR.utf8', '', 'de-DE']


def gen_world(rng) -> World:
    init = rng.choice(INITS)
    r = rng.random()
    if r < 0.2:
        avail = []                               # nothing but the initial locale
    elif r < 0.3:
        avail = LOCALES
    else:
        avail = [x for x in LOCALES if rng.random() < 0.45]
    if rng.random() < 0.5 and 'C' not in avail:
        avail = list(avail) + ['C']
    envdefault = rng.choice(['C', 'en_US.UTF-8', init])
    return World(init, avail, envdefault)


def gen_coll(rng, world: World):
    inst = [a for a in world.avail if a not in ('C', 'POSIX')]
    if inst and rng.random() < 0.35:               # an installed locale, in one of its spellings
        a = rng.choice(inst)
        lang = a.split('.')[0]
        return rng.choice([a, a, UCA + '?lang=' + lang, UCA + '?lang=' + a + ';fallback=no',
                           UCA + '?fallback=no;lang=' + lang, UCA + '?lang=' + lang.split('_')[0]])
    r = rng.random()
    if r < 0.10:
        return rng.choice([CODEPOINT, HTML_ASCII, CASEBLIND])
    if r < 0.14:
        return None
    if r < 0.62:
        parts = []
        if rng.random() < 0.85:
            parts.append('lang=' + rng.choice(LANGS))
        fb = rng.choice(['fallback=yes', 'fallback=no', 'fallback=no', None, None, 'fallback=maybe',
                         'fallback=yesno', 'fallback=', 'fallback=noyes'])
        if fb:
            parts.append(fb)
        if rng.random() < 0.2:
            parts.append(rng.choice(['strength=primary', 'lang=it', 'fallback=no', 'fallback=yes', 'x', '']))
        rng.shuffle(parts)
        uri = UCA + ('?' + ';'.join(parts) if parts or rng.random() < 0.3 else '')
        r2 = rng.random()
        if r2 < 0.06:
            uri += '#frag?lang=fr;fallback=no'
        elif r2 < 0.10:
            uri = UCA + 'X?' + ';'.join(parts)
        elif r2 < 0.13:
            uri = UCA + '/' + ';'.join(parts)
        return uri
    if r < 0.90:
        return rng.choice(LOCALES + world.avail + ['zz_ZZ', 'C', 'POSIX', 'de_DE', 'en_US.utf8'])
    return rng.choice(['', 'collation/relative', 'urn:x-unknown:collation', ' ', 'lang=de', 'UCA?lang=de',
                       'http://www.w3.org/2013/collation/UC', CODEPOINT + '/', 'a b c'])


def gen_ev(rng, world: World, depth=0, allow_nest=True) -> Ev:
    if depth == 0 and rng.random() < 0.08:
        return Ev(CODEPOINT, kind=f'other:{rng.randrange(len(OTHER_EXPRS))}')
    coll = gen_coll(rng, world)
    nest = allow_nest and depth < 2 and rng.random() < (0.22 if depth == 0 else 0.3)
    raises = rng.random() < 0.2
    if nest:
        kind = rng.choice(NEST_KINDS)
        inner = [gen_ev(rng, world, depth + 1) for _ in range(rng.randint(1, 2))]
    else:
        inner = []
        kind = rng.choice([k for k in RAISE_MARK]) if raises else rng.choice(FLAT_KINDS)
    ev = Ev(coll, inner, raises, kind)
    if coll is not None and rng.random() < 0.12:
        ev.coll, ev.dflt = world.default_collation(), True
    return ev


def walk_evs(ev: Ev):
    yield ev
    for e in ev.inner:
        yield from walk_evs(e)


def fix_markers(ev: Ev):
    """keep outcomes unambiguous: no XPTY0004 body marker in a tree that has an empty-sequence
    collation; collation-key only at top level"""
    has_none = any(c is None for c in ev.colls())

    def walk(e, top):
        if e.raises and has_none and e.kind == 'contains-token':
            e.kind = 'index-of'
        if e.kind == 'collation-key' and not top:
            e.kind = 'compare'
        if e.raises and e.kind == 'max' and e.inner:
            e.kind = 'index-of'
        for x in e.inner:
            walk(x, False)
    walk(ev, True)
    return ev


def gen_history(rng, quick=True):
    world = gen_world(rng)
    n = rng.randint(2, 10)
    flat_only = rng.random() < 0.5
    evs = [fix_markers(gen_ev(rng, world, allow_nest=not flat_only)) for _ in range(n)]
    return world, evs


CORPUS_HIST = [
    # F19a: requested and fallback locale both unavailable, then any further locale-based call
    (World('C', []), [Ev(UCA + '?lang=de;fallback=yes'), Ev(UCA + '?lang=de;fallback=no'), Ev('de_DE.UTF-8')]),
    (World('C', []), [Ev(UCA), Ev(UCA, raises=True, kind='index-of'), Ev(CODEPOINT), Ev(UCA + '?lang=fr')]),
    # F19c: initial locale whose getlocale() round trip changes the name / cannot be parsed
    (World('en_US', ['de_DE.UTF-8']), [Ev('de_DE.UTF-8'), Ev('de_DE.UTF-8')]),
    (World('mylocale', ['de_DE.UTF-8']), [Ev('de_DE.UTF-8'), Ev(UCA + '?lang=de')]),
    (World('de_DE@euro', ['en_US.UTF-8']), [Ev(UCA + '?lang=zz'), Ev('zz'), Ev(UCA + '?lang=zz;fallback=no')]),
    # F19b: nested locale scopes
    (World('C', ['de_DE.UTF-8', 'fr_FR.UTF-8']),
     [Ev('de_DE.UTF-8'), Ev('de_DE.UTF-8', [Ev('fr_FR.UTF-8')], kind='contains-token'), Ev('de_DE.UTF-8')]),
    (World('C', ['de_DE.UTF-8']),
     [Ev('de_DE.UTF-8', [Ev(CODEPOINT), Ev('zz_ZZ')], kind='index-of'),      # inner FOCH0002? no: blocks first
      Ev('de_DE.UTF-8')]),
    (World('C', ['de_DE.UTF-8']),
     [Ev(CODEPOINT, [Ev('de_DE.UTF-8'), Ev('zz_ZZ')], kind='distinct-values'), Ev('de_DE.UTF-8', raises=True, kind='max')]),
    (World('C', ['en_US.UTF-8']),
     [Ev(UCA + '?lang=xx', [Ev(HTML_ASCII, raises=True, kind='index-of')], kind='deep-equal'), Ev(None), Ev('')]),
    # F19b through a suspended generator: for $i in index-of(.., C1) return compare(.., C2)
    (World('C', ['de_DE.UTF-8', 'fr_FR.UTF-8']),
     [Ev('de_DE.UTF-8', [Ev(CODEPOINT)], kind='for-index-of'), Ev('de_DE.UTF-8', [Ev('fr_FR.UTF-8')], kind='for-index-of')]),
    (World('C', ['de_DE.UTF-8']),
     [Ev('de_DE.UTF-8', [Ev('zz_ZZ', dflt=False)], raises=True, kind='for-distinct-values'), Ev('de_DE.UTF-8')]),
    (World('en_US.UTF-8', ['de_DE.UTF-8', 'C'], 'en_US.UTF-8'),
     [Ev(''), Ev(UCA + '?lang=de_DE.UTF-8;fallback=no', raises=True, kind='contains-token'), Ev(UCA + '?fallback=no;lang=')]),
]


# -------------------------------------------------------------------------- correspondence
def split_obs(o: str):
    p = o.split('#')
    return {'out': p[0], 'lock': p[1], 'lc': p[2], 'dec': p[3], 'env': p[4], 'log': p[5] if len(p) > 5 else ''}


def case_json(world, evs):
    return {'world': world.to_json(), 'history': [e.to_json() for e in evs]}


def compare_histories(run: Run, cases, tag_known=True):
    st = run.stats
    envd, decd = globals_digest()
    lines = []
    parse_colls = sorted({c for _, evs in cases for e in evs for c in e.colls() if c is not None})
    for c in parse_colls:
        lines.append(f'PARSE c={enc(c)}')
    lines.append('PARSE c=NONE')
    inits = sorted({w.init for w, _ in cases})
    for world, evs in cases:
        lines.append(hist_line(world, evs, envd, decd))
    for i in inits:
        lines.append(f'DEFCOLL lc={enc(i)}')
    answers = run.driver('C19', lines)
    for i, ans in zip(inits, answers[len(answers) - len(inits):]):
        try:
            impl = 'dc=' + enc(World(i, []).default_collation())
        except BaseException as e:
            impl = canon_exc(e)
        st.count('default-collation:' + ('locale' if UCA in dec(impl[3:]) else 'codepoint') if impl.startswith('dc=')
                 else 'default-collation:error')
        if impl != ans:
            run.disagree(Disagreement({'LC_COLLATE': i}, impl, ans, what='XPath2Parser-default-collation',
                                      site='xpath2_parser.py XPath2Parser.__init__'))
    # --- __init__ tie
    for c, ans in zip(parse_colls + [None], answers):
        m = impl_manager(c)
        if isinstance(m, str):
            impl = m
        else:
            impl = f'lc={req_enc(m[0]) if m[0] is not None else "-"} fb={int(bool(m[1]))}'
        st.count('init:' + ('error' if isinstance(m, str) else 'no-locale' if m[0] is None else
                            'pair' if not isinstance(m[0], str) else 'name') +
                 ('' if isinstance(m, str) or m[0] is None else ('+fb' if m[1] else '-fb')))
        if impl != ans:
            run.disagree(Disagreement({'collation': c}, impl, ans, what='CollationManager.__init__',
                                      site='collations.py CollationManager.__init__'))
    # --- histories
    for (world, evs), ans in zip(cases, answers[len(parse_colls) + 1:]):
        case = case_json(world, evs)
        if not ans.startswith('model='):
            run.disagree(Disagreement(case, 'driver:' + ans, what='protocol'))
            continue
        fs = dict(kv.split('=', 1) for kv in ans.split(' '))
        model = fs['model'].split('|') if fs['model'] else []
        spec = split_obs(fs['spec'] + '#')
        impl, exprs = run_history_impl(world, evs)
        st.case(case, nontrivial=True)
        st.count(f'len={len(evs)}')
        st.count('world:avail=' + str(min(len(world.avail) - 1, 6)))
        st.count('world:init=' + world.init)
        for k, ev in enumerate(evs):
            if k >= len(impl) or k >= len(model):
                if len(impl) != len(model):
                    run.disagree(Disagreement(dict(case, upto=k), f'{len(impl)} observations',
                                              f'{len(model)} observations', what='history-length'))
                break
            io, mo = split_obs(impl[k]), split_obs(model[k])
            prefix = dict(case_json(world, evs[:k + 1]), expr=exprs[k])
            st.count('out:' + io['out'])
            st.count('shape:' + ('nested' if ev.inner else 'flat') + ('+raise' if ev.raises else ''))
            st.count('kind:' + ('other' if ev.kind.startswith('other:') else ev.kind))
            if io['log']:
                st.count('setlocale-requests', len(io['log'].split(',')))
                if '-' in io['log']:
                    st.count('branch:setlocale-rejected')
                    if io['log'].count('-') == 2:
                        st.count('branch:fallback-rejected-too')
                    elif '-,' in io['log'] and io['out'] != 'ERR:FOCH0002':
                        st.count('branch:fallback-used')
            # property: terminated, lock free, LC_COLLATE / environ / decimal as at the start
            impl_state = f"T={int(not io['out'].startswith('HANG'))} lock={io['lock']} lc={io['lc']} " \
                         f"dec={io['dec']} env={io['env']}"
            model_state = f"T={int(not mo['out'].startswith('HANG'))} lock={mo['lock']} lc={mo['lc']} " \
                          f"dec={mo['dec']} env={mo['env']}"
            spec_state = f"T=1 lock={spec['lock']} lc={spec['lc']} dec={spec['dec']} env={spec['env']}"
            if impl_state != spec_state:
                tags = []
                if tag_known and mo['out'] == 'HANG' and io['out'] == 'HANG' and impl_state == model_state:
                    tags = ['F19b']      # trigger: the model itself blocks (nested locale scopes)
                    st.count('finding:F19b')
                run.disagree(Disagreement(prefix, impl_state, model_state, spec=spec_state,
                                          what='global-state-after-evaluation',
                                          site='collations.py CollationManager.__enter__/__exit__', tags=tags))
            if impl[k] != model[k] and any(e.dflt for e in walk_evs(ev)):
                # a call without collation argument is also evaluated once at parse time (static
                # evaluation enters and leaves the default collation's scope): the request log may be
                # the model's, repeated
                # (so for these calls only "the model's log is a suffix of the observed one" is checked)
                if io['log'] != mo['log'] and io['log'].endswith(',' + mo['log']) and \
                        impl[k].rsplit('#', 1)[0] == model[k].rsplit('#', 1)[0]:
                    impl[k] = model[k]
                    st.count('default-collation:static-evaluation-scope')
            if impl[k] != model[k]:
                run.disagree(Disagreement(prefix, impl[k], model[k], what='model-step',
                                          site='collations.py CollationManager'))
                break
            if io['out'].startswith('HANG'):
                break


def correspond_histories(run: Run):
    rng = run.rng
    n = run.scale(700, 7000)
    cases = list(CORPUS_HIST) + [gen_history(rng, run.quick) for _ in range(n)]
    for i in range(0, len(cases), 400):
        compare_histories(run, cases[i:i + 400])


# ---------------------------------------------------------------------------------- threads
def gen_thread_case(rng):
    nthreads = rng.randint(2, 8)
    pool = rng.sample(LOCALES, rng.randint(2, len(LOCALES)))
    avail = [x for x in pool if rng.random() < 0.8]
    world = World(rng.choice(['C', 'C', 'en_US.UTF-8', 'POSIX']), avail)
    progs = []
    for _ in range(nthreads):
        jobs = []
        for _ in range(rng.randint(1, 4)):
            r = rng.random()
            if r < 0.55:
                coll = rng.choice(pool)
            elif r < 0.8:
                coll = UCA + '?lang=' + rng.choice(pool).split('.')[0] + rng.choice(['', ';fallback=no', ';fallback=yes'])
            elif r < 0.9:
                coll = CODEPOINT
            else:
                coll = 'zz_ZZ.UTF-8'
            raises = rng.random() < 0.15     # the sequence operand is built eagerly: a raising body
            jobs.append((coll, 0 if raises else rng.randint(1, 4), raises))   # makes no strcoll call
            if rng.random() < 0.25:    # an evaluation without collation in between (shared caches)
                jobs.append((CODEPOINT, 0, False, rng.randrange(len(OTHER_EXPRS))))
        progs.append(jobs)
    return world, progs


def job_expr(job):
    if len(job) > 3:
        return OTHER_EXPRS[job[3]], {'a': 'Query', 'c': job[0]}
    coll, uses, raises = job
    seq = ', '.join(["'q'"] * uses + (['$one div $zero'] if raises else []))
    return f'index-of(({seq}), $a, $c)', {'a': 'q', 'c': coll, 'one': 1, 'zero': 0}


def thr_line(world, progs, sched):
    colls = {j[0] for p in progs for j in p}
    ps = '|'.join(','.join(f'{enc(j[0])}~{j[1]}~{int(j[2])}' for j in p) for p in progs)
    return (f'THR init={enc(world.init)} avail={";".join(enc(a) for a in world.avail)} '
            f'norm={norm_table(colls, world)} progs={ps} sched={".".join(map(str, sched))}')


def _in_enter(fr) -> bool:
    return fr is not None and fr.f_code.co_name == '__enter__' and \
        Path(fr.f_code.co_filename).name == 'collations.py'


def join_all(threads, stub, limit=20.0) -> bool:
    """wait for the threads; True = deadlock (every live thread sits in CollationManager.__enter__
    and nothing moved on three looks 20 ms apart) or nothing finished within `limit` seconds"""
    t0 = time.time()
    stable, last = 0, None
    while True:
        alive = [t for t in threads if t.is_alive()]
        if not alive:
            return False
        frames = sys._current_frames()
        blocked = all(_in_enter(frames.get(t.ident)) for t in alive)
        sig = (len(stub.log), stub.queries, stub.nseen, len(alive))
        stable = stable + 1 if (blocked and sig == last) else 0
        last = sig
        if stable >= 3 or time.time() - t0 > limit:
            return True
        time.sleep(0.02)


def run_threads_impl(world, progs, concurrent: bool, rng):
    """every thread owns its Selectors (independent objects); returns per-thread
    (outcomes, values, LC_COLLATE seen at each strcoll) and the final state"""
    from elementpath import Selector
    from elementpath.xpath31 import XPath31Parser
    stub = LocaleStub(world.avail, world.init, 'C', yield_prob=0.5 if concurrent else 0.0, rng=rng)
    install(stub)
    results = [None] * len(progs)
    idents = [None] * len(progs)
    try:
        start = threading.Barrier(len(progs)) if concurrent else None

        def work(i):
            idents[i] = threading.current_thread().name
            if start is not None:
                start.wait()
            outs = []
            for j in progs[i]:
                try:
                    # an independent Selector (own parser instance) per evaluation, built in the thread
                    expr, variables = job_expr(j)
                    sel = Selector(expr, parser=XPath31Parser)
                    v = sel.select(root(), variables=variables)
                    outs.append('ok:' + repr(v))
                except BaseException as e:
                    c = canon_exc(e)
                    outs.append('ERR:BODY' if c == 'ERR:FOAR0001' else c)
            results[i] = outs
        threads = [threading.Thread(target=work, args=(i,), daemon=True, name=f'c19-thread-{i}')
                   for i in range(len(progs))]
        old = sys.getswitchinterval()
        if concurrent:
            sys.setswitchinterval(1e-6)
            try:
                for t in threads:
                    t.start()
                join_all(threads, stub)
            finally:
                sys.setswitchinterval(old)
        else:
            for t in threads:
                t.start()
                if join_all([t], stub):
                    break                      # the rest would only queue up behind the held lock
        hung = [i for i, t in enumerate(threads) if t.is_alive() or results[i] is None]
        seen = [stub.seen.get(idents[i], []) if idents[i] is not None else [] for i in range(len(progs))]
        foreign = [stub.foreign.get(idents[i], []) if idents[i] is not None else [] for i in range(len(progs))]
        final = (int(lock_held()), stub.cur)
        return results, seen, final, hung, foreign
    finally:
        uninstall()


def compare_threads(run: Run, cases):
    st = run.stats
    rng = run.rng
    lines = []
    for world, progs in cases:
        total = sum(j[1] + 10 for p in progs for j in p)
        sched = [rng.randrange(len(progs)) for _ in range(total)]
        lines.append(thr_line(world, progs, sched))
    answers = run.driver('C19', lines)
    hung_cases = 0
    for (world, progs), ans in zip(cases, answers):
        if hung_cases >= 3:
            run.notes.append('thread phase stopped after 3 hung cases')
            break
        case = {'world': world.to_json(), 'programs': progs}
        if not ans.startswith('model='):
            run.disagree(Disagreement(case, 'driver:' + ans, what='protocol'))
            continue
        fs = dict(kv.split('=', 1) for kv in ans.split(' '))
        mlock, mlc, *mthr = fs['model'].split('#', 2)
        mthr = mthr[0].split('|')
        st.case(case, nontrivial=True)
        st.count(f'threads={len(progs)}')
        if fs['maxHolders'] not in ('0', '1') or fs['badSeen'] != '0':
            run.disagree(Disagreement(case, 'n/a', ans, what='model-schedule-invariant'))
        seq = run_threads_impl(world, progs, False, rng)
        con = run_threads_impl(world, progs, True, rng)
        spec_final = fs['spec']
        for name, (results, seen, final, hung, foreign) in (('sequential', seq), ('concurrent', con)):
            impl_final = f'{final[0]}#{enc(final[1])}'
            if hung:
                hung_cases += 1
                run.disagree(Disagreement(case, f'HANG threads={hung} final={impl_final}',
                                          f'{mlock}#{mlc}', spec=spec_final, what=f'threads-{name}-hang',
                                          site='collations.py _locale_collate_lock'))
                continue
            if impl_final != spec_final:
                run.disagree(Disagreement(case, impl_final, f'{mlock}#{mlc}', spec=spec_final,
                                          what=f'threads-{name}-final-state', site='collations.py CollationManager'))
            for i, p in enumerate(progs):
                # what each strcoll must have seen: the locale its own scope installed
                want = []
                for j in p:
                    coll, uses = j[0], j[1]
                    m = impl_manager(coll)
                    if isinstance(m, str) or m[0] is None:
                        continue
                    nm = norm_name(m[0], world)
                    tgt = nm if nm in world.avail else ('en_US.UTF-8' if m[1] and 'en_US.UTF-8' in world.avail else None)
                    if tgt is not None:
                        want += [tgt] * uses
                got = [x for x in seen[i]]
                # strcoll calls made outside locale scopes (codepoint collation) do not go through locale.strcoll
                m_done, m_outs, m_nseen = mthr[i].split(';')
                impl_outs = ','.join('ok' if o.startswith('ok:') else o for o in (results[i] or []))
                if impl_outs != m_outs:
                    run.disagree(Disagreement(dict(case, thread=i), impl_outs, m_outs,
                                              what=f'threads-{name}-outcomes'))
                if foreign[i]:
                    # property: a body's strcoll ran under a locale its own scope did not install
                    run.disagree(Disagreement(dict(case, thread=i), 'saw/own=' + repr(foreign[i][:4]), None,
                                              spec='saw/own=[]', what=f'threads-{name}-foreign-locale-seen',
                                              site='collations.py _locale_collate_lock'))
                if got != want:
                    run.disagree(Disagreement(dict(case, thread=i), 'seen=' + ','.join(got), 'seen=' + ','.join(want),
                                              what=f'threads-{name}-locale-seen',
                                              site='collations.py _locale_collate_lock'))
                elif str(len(got)) != m_nseen:
                    run.disagree(Disagreement(dict(case, thread=i), f'nseen={len(got)}', f'nseen={m_nseen}',
                                              what=f'threads-{name}-nseen'))
        # concurrent == sequential (values, not only outcome classes)
        if not seq[3] and not con[3] and seq[0] != con[0]:
            run.disagree(Disagreement(case, 'concurrent=' + repr(con[0]), None, spec='sequential=' + repr(seq[0]),
                                      what='threads-concurrent-vs-sequential'))
        st.count('thread-jobs', sum(len(p) for p in progs))


def correspond_threads(run: Run):
    n = run.scale(50, 500)
    cases = [gen_thread_case(run.rng) for _ in range(n)]
    compare_threads(run, cases)


# ------------------------------------------------------------------------------------ gates
def gen_env_case(rng):
    names = ['HOME', 'PATH', 'C19_SECRET', 'LANG', 'X Y', 'é', 'a.b', 'EMPTYVAL']
    env = {n: rng.choice(['', 'v', '/root', 's3cr3t', 'x y']) for n in names if rng.random() < 0.6}
    name = rng.choice(names + ['NOPE', ''])
    allow = rng.choice(['D', 'D', '0', '1'])
    return allow, env, name


def compare_env(run: Run, cases):
    from elementpath import XPathContext
    from elementpath.xpath31 import XPath31Parser
    st = run.stats
    lines = [f'ENV allow={a} env={";".join(enc(k) + ">" + enc(v) for k, v in sorted(env.items()))} name={enc(n)}'
             for a, env, n in cases]
    answers = run.driver('C19', lines)
    saved = dict(os.environ)
    try:
        for (allow, env, name), ans in zip(cases, answers):
            case = {'allow_environment': allow, 'env': env, 'name': name}
            fs = dict(kv.split('=', 1) for kv in ans.split(' ')) if ans.startswith('model=') else None
            if fs is None:
                run.disagree(Disagreement(case, 'driver:' + ans, what='protocol'))
                continue
            os.environ.clear()
            os.environ.update(env)
            try:
                p = XPath31Parser()
                kw = {} if allow == 'D' else {'allow_environment': allow == '1'}
                ctx = XPathContext(root(), variables={'n': name}, **kw)
                v = p.parse('environment-variable($n)').evaluate(ctx)
                v = 'EMPTY' if v == [] or v is None else enc(v)
                ctx = XPathContext(root(), **kw)
                names = p.parse('available-environment-variables()').evaluate(ctx)
                impl = v + '#' + ';'.join(sorted(enc(x) for x in names))
            except BaseException as e:
                impl = canon_exc(e)
            finally:
                os.environ.clear()
                os.environ.update(saved)
            mv, mn = fs['model'].split('#')
            model = mv + '#' + ';'.join(sorted(x for x in mn.split(';') if x))
            st.case(case, nontrivial=bool(env))
            st.count('env:allow=' + allow)
            spec = fs['spec'] if allow == 'D' else None
            if impl != model or (spec is not None and impl != spec):
                run.disagree(Disagreement(case, impl, model, spec=spec, what='environment-variable-gate',
                                          site='_xpath30_functions.py evaluate__environment_variable'))
    finally:
        os.environ.clear()
        os.environ.update(saved)


ENT_NAMES = ['e', 'ent', 'x1']


def gen_doc(rng):
    xd = rng.random() < 0.3
    leading = rng.choice([0, 0, 0, 1, 2])
    decls = []
    declared = {}
    if rng.random() < 0.75:
        ext = rng.random() < 0.12
        for _ in range(rng.choice([0, 1, 1, 2, 3])):
            r = rng.random()
            if r < 0.35:
                n = rng.choice(ENT_NAMES)
                v = rng.choice(['EXPANDED', 'boom', ''])
                decls.append(('e', n, v))
                declared.setdefault(n, v)
            elif r < 0.45:
                decls.append(('p', 'pe' + str(len(decls))))
            elif r < 0.55:
                decls.append(('x', 'xe' + str(len(decls))))
            elif r < 0.62:
                decls.append(('u', 'ue' + str(len(decls))))
            else:
                decls.append((rng.choice('EANCP'),))
        doctype = (ext, decls)
    else:
        doctype = None
    content = []
    for _ in range(rng.randint(0, 4)):
        r = rng.random()
        if r < 0.4:
            content.append(('t', rng.choice(['t', 'hello', 'a b'])))
        elif r < 0.6:
            content.append(('c', rng.choice(['<', '&', 'A'])))
        elif declared:
            content.append(('r', rng.choice(sorted(declared))))
        elif rng.random() < 0.15:
            content.append(('r', 'undeclared'))
    return xd, leading, doctype, content


def render_doc(doc) -> str:
    xd, leading, doctype, content = doc
    s = '<?xml version="1.0" encoding="utf-8"?>' if xd else ''
    for i in range(leading):
        s += '<!-- c -->' if i % 2 == 0 else '<?pi x?>'
    if doctype is not None:
        ext, decls = doctype
        body = ''
        for i, d in enumerate(decls):
            if d[0] == 'e':
                body += f'<!ENTITY {d[1]} "{d[2]}">'
            elif d[0] == 'p':
                body += f'<!ENTITY % {d[1]} "x">'
            elif d[0] == 'x':
                body += f'<!ENTITY {d[1]} SYSTEM "file:///nonexistent-c19">'
            elif d[0] == 'u':
                body += f'<!ENTITY {d[1]} SYSTEM "file:///nonexistent-c19" NDATA nt>'
            elif d[0] == 'E':
                body += '<!ELEMENT r ANY>'
            elif d[0] == 'A':
                body += f'<!ATTLIST r a{i} CDATA #IMPLIED>'
            elif d[0] == 'N':
                body += f'<!NOTATION n{i} SYSTEM "n">'
            elif d[0] == 'C':
                body += '<!-- d -->'
            elif d[0] == 'P':
                body += '<?dpi y?>'
        s += '<!DOCTYPE r' + (' SYSTEM "file:///nonexistent-c19.dtd"' if ext else '') + \
             (f' [{body}]' if decls or not ext else '') + '>'
    s += '<r>'
    for it in content:
        if it[0] == 't':
            s += it[1]
        elif it[0] == 'c':
            s += {'<': '&lt;', '&': '&amp;', 'A': '&#65;'}[it[1]]
        else:
            s += f'&{it[1]};'
    return s + '</r>'


def doc_field(doc) -> str:
    xd, leading, doctype, content = doc
    if doctype is None:
        dt = '-'
    else:
        ext, decls = doctype
        ds = []
        for d in decls:
            if d[0] == 'e':
                ds.append(f'e:{enc(d[1])}:{enc(d[2])}')
            elif d[0] in 'pxu':
                ds.append(f'{d[0]}:{enc(d[1])}')
            else:
                ds.append(d[0])
        dt = '~'.join([str(int(ext))] + ds)
    ct = '~'.join(f'{k}:{enc(v)}' for k, v in content)
    return f'{int(xd)}/{leading}/{dt}/{ct}'


def compare_xml(run: Run, cases):
    from elementpath import XPathContext
    from elementpath.xpath31 import XPath31Parser
    from elementpath.exceptions import XMLResourceForbidden
    st = run.stats
    lines = [f'XML defuse={df} doc={doc_field(doc)}' for df, doc in cases]
    answers = run.driver('C19', lines)
    for (df, doc), ans in zip(cases, answers):
        text = render_doc(doc)
        case = {'defuse_xml': df, 'xml': text}
        if not ans.startswith('xml='):
            run.disagree(Disagreement(case, 'driver:' + ans, what='protocol'))
            continue
        fs = dict(kv.split('=', 1) for kv in ans.split(' '))
        st.case(case, nontrivial=doc[2] is not None)
        st.count('xml:defuse=' + df)
        for fn, key in (('parse-xml', 'xml'), ('parse-xml-fragment', 'frag')):
            try:
                p = XPath31Parser() if df == 'D' else XPath31Parser(defuse_xml=(df == '1'))
                ctx = XPathContext(root(), variables={'x': text})
                r = p.parse(f'string({fn}($x))').evaluate(ctx)
                impl = 'ok:' + enc(r)
            except XMLResourceForbidden:
                impl = 'ERR:forbidden'
            except BaseException as e:
                impl = canon_exc(e)
            st.count(f'{fn}:' + impl.split(':')[0] + (':' + impl.split(':')[1] if impl.startswith('ERR') else ''))
            model = fs[key]
            # the property (default settings): a document declaring an entity is rejected
            spec = None
            if df == 'D' and fs['mustReject'] == '1':
                st.count('xml:entity-declared')
                spec = impl if impl.startswith('ERR:') else 'ERR:(rejected)'
            if impl != model or (spec is not None and impl != spec):
                run.disagree(Disagreement(dict(case, fn=fn), impl, model, spec=spec, what='entity-gate',
                                          site='etree.py defuse_xml / _xpath30_functions.py ' + fn))


def correspond_gates(run: Run):
    rng = run.rng
    env_cases = [('D', {'C19_SECRET': 's3cr3t'}, 'C19_SECRET'), ('1', {'C19_SECRET': 's3cr3t'}, 'C19_SECRET')] + \
                [gen_env_case(rng) for _ in range(run.scale(120, 1200))]
    compare_env(run, env_cases)
    seed_docs = [
        (False, 0, (False, [('e', 'e', 'EXPANDED')]), [('r', 'e')]),
        (False, 1, (False, [('e', 'e', 'EXPANDED')]), [('r', 'e')]),     # comment before DOCTYPE (fragment check bypass)
        (True, 0, (False, [('p', 'pe')]), [('t', 't')]),
        (False, 0, (True, []), [('t', 't')]),
        (False, 0, (False, [('u', 'ue'), ('N',)]), []),
        (False, 0, (False, [('E',), ('A',)]), [('c', '<')]),
        (False, 0, None, [('r', 'undeclared')]),
    ]
    xml_cases = [(df, d) for d in seed_docs for df in ('D', '0', '1')] + \
                [(rng.choice(['D', 'D', '0', '1']), gen_doc(rng)) for _ in range(run.scale(300, 3000))]
    compare_xml(run, xml_cases)


# ----------------------------------------------------------------------------------- search
def search(run: Run):
    """exhaustive small scope on the real code against the spec: every history of one or two
    evaluations over a 9-collation alphabet x {flat, body raises, nested under a locale scope,
    nested under a no-locale scope} x 8 availability configurations"""
    sub = Run(PROP, run.tier, run.seed)
    alphabet = [CODEPOINT, None, UCA, UCA + '?lang=de;fallback=no', UCA + '?lang=de;fallback=yes',
                'de_DE.UTF-8', 'zz_ZZ', '', UCA + '?lang=fr']
    worlds = [World('C', []), World('C', ['en_US.UTF-8']), World('C', ['de_DE.UTF-8']),
              World('C', ['de_DE.UTF-8', 'en_US.UTF-8', 'fr_FR.UTF-8']), World('en_US.UTF-8', ['de_DE.UTF-8']),
              World('en_US', ['de_DE.UTF-8']), World('mylocale', ['en_US.UTF-8']), World('POSIX', ['fr_FR.UTF-8'])]

    def shapes(c):
        yield Ev(c)
        yield Ev(c, raises=True, kind='index-of')
        yield Ev(c, [Ev('de_DE.UTF-8')], kind='contains-token')
        yield Ev(CODEPOINT, [Ev(c)], kind='index-of')
    cases = []
    for w in worlds:
        firsts = [s for c in alphabet for s in shapes(c)]
        for f in firsts:
            for c2 in alphabet:
                cases.append((w, [f, Ev(c2)]))
    done = 0
    for i in range(0, len(cases), 300):
        compare_histories(sub, cases[i:i + 300])
        done = min(len(cases), i + 300)
        if any(d.kind == 'violation' and not d.tags for d in sub.disagreements):
            break                                  # a failing input is in hand
    run.notes.append(f'search: {done} of {len(cases)} exhaustive small-scope histories on the real code, '
                     f'{len(sub.disagreements)} disagreements')
    return sub.disagreements


def shrink(d: Disagreement) -> Disagreement:
    """histories are reported as the prefix up to the first failing evaluation; drop leading
    evaluations while the same disagreement kind persists"""
    case = d.case
    if not isinstance(case, dict) or 'history' not in case:
        return d
    world = World.from_json(case['world'])
    evs = [Ev.from_json(j) for j in case['history']]
    best = d
    changed = True
    while changed and len(evs) > 1:
        changed = False
        for i in range(len(evs) - 1):
            trial = evs[:i] + evs[i + 1:]
            sub = Run(PROP, 'quick', 0)
            compare_histories(sub, [(world, trial)])
            hits = [x for x in sub.disagreements if x.kind == d.kind and x.what == d.what and x.tags == d.tags]
            if hits:
                evs, best, changed = trial, hits[0], True
                break
    return best


# -------------------------------------------------------------------------------- translate
def translate(run: Run) -> dict:
    import inspect
    from elementpath import XPathContext, collations
    from elementpath.xpath30 import XPath30Parser
    from elementpath.xpath31 import XPath31Parser
    allow = inspect.signature(XPathContext.__init__).parameters['allow_environment'].default
    defuse = bool(XPath30Parser().defuse_xml) and bool(XPath31Parser().defuse_xml)
    lk = getattr(collations, '_locale_collate_lock', None)
    reentrant = type(lk) is type(threading.RLock())

    def b(x):
        return 'true' if x else 'false'
    text = '\n'.join([
        '/- GENERATED by harness/c19.py from the live /repo -- do not edit -/',
        'namespace EPV.Gen.C19',
        '/-- default of `XPathContext.__init__(allow_environment=...)` -/',
        f'def allowEnvironmentDefault : Bool := {b(allow)}',
        '/-- `XPath30Parser().defuse_xml`, `XPath31Parser().defuse_xml` -/',
        f'def defuseXmlDefault : Bool := {b(defuse)}',
        '/-- `type(elementpath.collations._locale_collate_lock)` is a reentrant lock -/',
        f'def lockReentrant : Bool := {b(reentrant)}',
        'end EPV.Gen.C19', ''])
    gen = LEAN / 'EPV' / 'Gen' / 'C19Defaults.lean'
    gen.parent.mkdir(exist_ok=True)
    if not gen.exists() or gen.read_text() != text:
        gen.write_text(text)
    return {'allow_environment_default': bool(allow), 'defuse_xml_default': defuse,
            'lock_type': type(lk).__name__, 'lock_reentrant': reentrant}


def replay(run: Run, path: str) -> int:
    import json
    data = json.loads(Path(path).read_text())
    fi = data.get('failing_input') or {}
    case = fi.get('case')
    if isinstance(case, dict) and 'history' in case:
        world = World.from_json(case['world'])
        evs = [Ev.from_json(j) for j in case['history']]
        compare_histories(run, [(world, evs)])
    elif isinstance(case, dict) and 'programs' in case:
        compare_threads(run, [(World.from_json(case['world']), [[tuple(j) for j in p] for p in case['programs']])])
    else:
        print('replay: unsupported case shape; running the full check', file=sys.stderr)
        return body(run)
    for d in run.disagreements:
        print(d.to_json())
    return run.finish('proof')


def arm_deadline(run: Run):
    """the check must never hang: past the tier's budget, give up as a harness fault (exit 2)"""
    budget = 175 if run.quick else 1180

    def bomb():
        time.sleep(budget)
        print(f'TIMEOUT in {PROP}: exceeded {budget}s', file=sys.stderr, flush=True)
        os._exit(2)
    threading.Thread(target=bomb, daemon=True).start()


def body(run: Run) -> int:
    arm_deadline(run)
    if getattr(run, 'replay', None):
        run.prove(['EPV.Props.C19', 'EPV.Props.C19Defaults'], ['EPV.Spec.GlobalsSpec'])
        return replay(run, run.replay)
    try:
        info = translate(run)
    except Exception as e:      # the live objects no longer have the shape the translator reads
        info = {'error': f'{type(e).__name__}: {e}'}
        run.broken.append('translate:C19Defaults ' + info['error'][:200])
    run.stats.extra['live_defaults'] = info
    run.trusted_base += [
        'translator harness/c19.py::translate (three defaults of the live library printed as Lean literals)',
        'harness/c19.py::LocaleStub standing in for the C setlocale/strcoll (exact-name availability, '
        'a rejected request changes nothing)',
        'Python locale.normalize/_build_localename (alias table) used to compute World.norm',
        'threading.Lock semantics; expat tokenisation of the XML prolog']
    run.assumptions += [
        'the process starts with the lock free and an LC_COLLATE name that setlocale accepts (Clean)',
        'token.parser.base_uri is unset; collation URIs contain no TAB/CR/LF/NUL and no "[" "]"',
        'thread runs sample schedules (setswitchinterval 1e-6 + yields inside the stub); the theorems cover '
        'all interleavings of the protocol at the granularity of one lock/setlocale/strcoll call per step',
        'setlocale\'s process-wide effect on other C libraries is outside the model']
    run.stats.rule = (
        'histories of 2..10 evaluations (13 collation-taking functions; collation = codepoint/html-ascii/'
        'caseblind, UCA URI with lang/fallback parameters in all orders incl. malformed ones, bare locale '
        'names, empty string, empty sequence; flat / body raising / nested up to depth 2) under a random '
        'installed-locale set (0..6 locales) and 8 initial LC_COLLATE names; after every evaluation: '
        'outcome, lock, LC_COLLATE, setlocale request log, decimal context, os.environ vs model and spec. '
        'threads: 2..8 threads x 1..4 Selector evaluations, concurrent and sequential. gates: '
        'environment-variable on random environments, parse-xml(-fragment) on structured prologs. '
        'distinct = distinct (world, history) / thread / gate cases')
    run.prove(['EPV.Props.C19', 'EPV.Props.C19Defaults'], ['EPV.Spec.GlobalsSpec'])
    try:
        correspond_histories(run)
        run.log('histories done', run.stats.evaluations)
        correspond_gates(run)
        run.log('gates done', run.stats.evaluations)
        correspond_threads(run)
        run.log('threads done', run.stats.evaluations)
    except DriverError as e:
        run.broken.append('driver:C19 ' + str(e)[:300])
    return run.finish('proof', shrink=shrink, search=search)


if __name__ == '__main__':
    cli(PROP, body, translate=translate)

"""
C19 — evaluation preserves process-global state: locale, lock, environment, decimal context,
entities; independent threads.

 translate : defaults of the *live* elementpath (XPathContext(allow_environment=..),
             XPath30Parser().defuse_xml, type of _locale_collate_lock)
             -> lean/EPV/Gen/C19Defaults.lean   (theorems over them: EPV/Props/C19Defaults.lean)
 prove     : EPV.Props.C19 (any availability function, any history, any number of threads, all
             interleavings), EPV.Props.C19Defaults
 correspond: `locale._setlocale` (the C function behind locale.setlocale / getlocale) is replaced
             IN THIS PROCESS by a stub with a configurable set of installed locales that records
             every request; histories of 2..10 collation-using evaluations (flat and nested, bodies
             returning or raising) run through the real `elementpath.select` under a watchdog and
             are compared step by step with the Lean model (outcome, lock, LC_COLLATE, setlocale
             request log, decimal context, os.environ) and the Lean spec (terminated, lock free,
             everything as at the start);  2..8 Selectors in concurrent threads vs sequentially;
             fn:environment-variable / fn:parse-xml gates on structured inputs.
 search    : exhaustive small scope: every history of <= 2 evaluations over a 9-collation alphabet
             x 8 availability configurations x flat/raising/nested, real code vs spec.
"""
from __future__ import annotations

import decimal
import hashlib
import locale
import os
import sys
import threading
import time
from pathlib import Path

sys.path.insert(0, str(Path(__file__).resolve().parent.parent))
from harness.common import (Run, Disagreement, cli, LEAN, DriverError)  # noqa: E402

PROP = 'C19'
UCA = 'http://www.w3.org/2013/collation/UCA'
CODEPOINT = 'http://www.w3.org/2005/xpath-functions/collation/codepoint'
HTML_ASCII = 'http://www.w3.org/2005/xpath-functions/collation/html-ascii-case-insensitive'
CASEBLIND = 'http://www.w3.org/2010/09/qt-fots-catalog/collation/caseblind'

_REAL_SETLOCALE = locale._setlocale
_REAL_STRCOLL = locale.strcoll
_REAL_STRXFRM = locale.strxfrm


# ------------------------------------------------------------------------------ encoding
def enc(s: str) -> str:
    return '_' if s == '' else '.'.join(str(ord(c)) for c in s)


def dec(s: str) -> str:
    return '' if s == '_' else ''.join(chr(int(t)) for t in s.split('.'))


def enc_coll(c) -> str:
    # a collation argument that is not a string (here: an integer) is refused like the empty sequence: XPTY0004
    return enc(c) if isinstance(c, str) else 'NONE'


# ----------------------------------------------------------------- the C library stand-in
class LocaleStub:
    """Stand-in for the C function `setlocale` (locale._setlocale) for category LC_COLLATE.
    Exact-name semantics: a request succeeds iff the name is in `avail` ('' = the environment's
    default `envdefault`); a rejected request changes nothing.  Other categories go to the
    real function.  Records every *set* request as (resolved name, accepted)."""

    def __init__(self, avail, cur='C', envdefault='C', yield_prob=0.0, rng=None):
        self.avail = set(avail)
        self.cur = cur
        self.envdefault = envdefault
        self.log: list[tuple[str, bool]] = []
        self.queries = 0
        self.seen: dict[str, list[str]] = {}     # thread name -> LC_COLLATE at each strcoll/strxfrm
        self.yield_prob = yield_prob
        self.rng = rng
        self.nseen = 0
        self.own: dict[str, str] = {}            # thread name -> last locale that thread installed
        self.foreign: dict[str, list] = {}       # thread name -> strcoll calls that saw another one

    def _maybe_yield(self):
        if self.yield_prob and self.rng.random() < self.yield_prob:
            time.sleep(0)

    def setlocale(self, category, loc=None):
        if category != locale.LC_COLLATE:
            return _REAL_SETLOCALE(category, loc)
        self._maybe_yield()
        if loc is None:
            self.queries += 1
            return self.cur
        if not isinstance(loc, str):
            raise TypeError('stub: C-level setlocale got a non-string')
        name = self.envdefault if loc == '' else loc
        if name not in self.avail:
            self.log.append((name, False))
            raise locale.Error('unsupported locale setting')
        self.log.append((name, True))
        self.cur = name
        self.own[threading.current_thread().name] = name
        self._maybe_yield()
        return name

    def _note(self):
        self._maybe_yield()
        me = threading.current_thread().name
        cur = self.cur
        self.nseen += 1
        self.log.append(('@' + cur, None))
        self.seen.setdefault(me, []).append(cur)
        if self.own.get(me) != cur:
            self.foreign.setdefault(me, []).append((cur, self.own.get(me)))

    def strcoll(self, a, b):
        self._note()
        if '\0' in a or '\0' in b:        # as the real locale.strcoll (wchar_t* conversion)
            self.raised = getattr(self, 'raised', 0) + 1
            raise ValueError('embedded null character')
        return 0 if a == b else -1 if a < b else 1

    def strxfrm(self, s):
        self._note()
        if '\0' in s:
            self.raised = getattr(self, 'raised', 0) + 1
            raise ValueError('embedded null character')
        return s


def install(stub: LocaleStub):
    from elementpath import collations
    locale._setlocale = stub.setlocale
    locale.strcoll = stub.strcoll
    locale.strxfrm = stub.strxfrm
    if hasattr(collations, '_locale_collate_lock'):
        collations._locale_collate_lock = _new_lock(collations)


_LOCK_TYPE = None


def _new_lock(collations):
    """a fresh lock of the same kind the library uses (so that a hung history cannot poison the
    next one); harness-side reset, not part of the library"""
    global _LOCK_TYPE
    if _LOCK_TYPE is None:
        _LOCK_TYPE = type(collations._locale_collate_lock)
    if _LOCK_TYPE is type(threading.RLock()):
        return threading.RLock()
    return threading.Lock()


def uninstall():
    locale._setlocale = _REAL_SETLOCALE
    locale.strcoll = _REAL_STRCOLL
    locale.strxfrm = _REAL_STRXFRM


def lock_held() -> bool:
    """is `_locale_collate_lock` held by anybody?  (`locked()` for Lock; for a reentrant lock,
    a non-blocking acquire from a helper thread)"""
    from elementpath import collations
    lk = getattr(collations, '_locale_collate_lock', None)
    if lk is None:
        return False
    if hasattr(lk, 'locked'):
        try:
            return bool(lk.locked())
        except Exception:
            pass
    res = []

    def probe():
        ok = lk.acquire(blocking=False)
        if ok:
            lk.release()
        res.append(not ok)
    th = threading.Thread(target=probe)
    th.start()
    th.join()
    return res[0]


def show_log(entries) -> str:
    """stub log entries in the driver's notation: name+ / name- / @name"""
    return ','.join(('@' + enc(n[1:])) if ok is None else enc(n) + ('+' if ok else '-') for n, ok in entries)


def globals_digest() -> tuple[str, str]:
    ctx = decimal.getcontext()
    d = f'{ctx.prec}/{ctx.rounding}/{ctx.Emin}/{ctx.Emax}/{ctx.capitals}/{ctx.clamp}/' \
        f'{sorted(k.__name__ for k, v in ctx.traps.items() if v)}'
    # (the sticky signal *flags* are not part of the compared state: any Decimal operation raises them)
    dd = hashlib.blake2b(d.encode(), digest_size=4).hexdigest()
    e = hashlib.blake2b(repr(sorted(os.environ.items())).encode(), digest_size=4).hexdigest()
    return e, dd


# ----------------------------------------------------------------------- evaluation trees
class Ev:
    """one `with CollationManager(coll): body` evaluation; kind = the XPath function used"""
    __slots__ = ('coll', 'inner', 'raises', 'kind', 'dflt', 'dc_from_locale')

    def __init__(self, coll, inner=(), raises=False, kind='compare', dflt=False):
        self.coll, self.inner, self.raises, self.kind = coll, list(inner), raises, kind
        self.dflt = dflt      # collation argument omitted: `coll` is the parser's default collation
        self.dc_from_locale = True   # (top-level tree) False: default collation given to the parser constructor

    def to_json(self):
        return {'coll': self.coll, 'kind': self.kind, 'raises': self.raises, 'default_collation': self.dflt,
                'dc_from_locale': self.dc_from_locale,
                'inner': [e.to_json() for e in self.inner]}

    @staticmethod
    def from_json(j):
        e = Ev(j['coll'], [Ev.from_json(x) for x in j['inner']], j['raises'], j['kind'],
               j.get('default_collation', False))
        e.dc_from_locale = j.get('dc_from_locale', True)
        return e

    def body(self):
        """the steps of the `with` block of this template, in order: inner evaluations and 'C' (one
        strcoll/strxfrm by this manager).  Measured on the library (docs/C19.md): a `(.., ..)` operand
        is built eagerly, so all inner evaluations (and a raising item) come before the comparisons."""
        k, n = self.kind, len(self.inner) + 1
        if k.startswith('other:'):
            return []
        if k == 'iter-held':
            return ['C'] + self.inner + ['C', 'C']
        if not self.inner and not self.raises:
            return ['C'] * FLAT_CMPS[k]
        if k == 'index-of':
            return self.inner + ([] if self.raises else ['C'] * n)
        if k == 'contains-token':
            return self.inner + ['C'] * n
        if k == 'deep-equal':
            return self.inner + ([] if self.raises else ['C'])
        if k == 'for-index-of':
            return ['C'] + self.inner
        if k == 'distinct-values':       # items 'true' x len(inner), 'x': each but the first is compared once
            return self.inner + ([] if self.raises else ['C'] * len(self.inner))
        return list(self.inner)          # for-distinct-values (one item), max / min (raising form): no comparison

    def tokens(self):
        body = self.body()
        out = ['E', enc_coll(self.coll), '7' if self.raises else '-', str(len(body))]
        for e in body:
            out += ['C'] if e == 'C' else e.tokens()
        return out

    def colls(self):
        yield self.coll
        for e in self.inner:
            yield from e.colls()

    def size(self):
        return 1 + sum(e.size() for e in self.inner)


# evaluations that do not use CollationManager at all (regex caches, decimal arithmetic, the gated
# functions, date/time): in the model they are no-locale scopes; observed for the frame (decimal
# context, os.environ) and, in the thread runs, for the module-level caches shared by threads
OTHER_EXPRS = [
    "matches($a, '\\p{Lu}*\\p{IsGreek}?[\\p{L}-[aeiou]]*')",
    "xs:decimal('1.1') div 3",
    "round-half-to-even(xs:decimal('2.345'), 2)",
    "tokenize('a b  c', '\\s+')",
    "replace($a, '[\\p{L}-[aeiou]]', 'x')",
    "environment-variable('HOME')",
    "string(parse-xml('<r>t</r>'))",
    "format-number(1234.5, '#,##0.00')",
    "current-dateTime() gt xs:dateTime('2000-01-01T00:00:00')",
    "xs:float('1.5') * 2",
    "upper-case($a)",
    "normalize-unicode('\u00e9', 'NFD')",
    "xs:decimal(1) div xs:decimal(7)",
    "matches('\u03b1\u03b2', '^\\p{IsGreek}+$')",
    "xs:integer('12') idiv 5",
    "string-length(codepoints-to-string((97, 8364, 128512)))",
    # the three `with localcontext()` sites (fn:round, round-half-to-even), value and exception paths
    "round(xs:decimal('2.5'))", "round(1.0e308)", "round(xs:decimal('12345.678'), 2)",
    "round-half-to-even(xs:decimal('2.345'), 5000)", "round-half-to-even(1.0e-300, 310)", "round(xs:float('2.5'))",
    "round(xs:decimal('123456789012345678901234567890.5'))",
]

# number of strcoll/strxfrm calls of the flat templates (operand `$s` = ('b','a','b'), token 'zz');
# distinct-values: 'a' vs 'b', second 'b' vs 'b'; max/min: n-1 comparisons through cmp_to_key(manager.strcoll)
FLAT_CMPS = {'compare': 1, 'contains': 2, 'starts-with': 2, 'ends-with': 2, 'substring-before': 2,
             'substring-after': 2, 'index-of': 3, 'distinct-values': 2, 'max': 2, 'min': 2, 'deep-equal': 3,
             'contains-token': 3, 'collation-key': 1, 'for-index-of': 1, 'for-distinct-values': 0}

FLAT_KINDS = ['compare', 'contains', 'starts-with', 'ends-with', 'substring-before',
              'substring-after', 'index-of', 'distinct-values', 'max', 'min', 'deep-equal',
              'contains-token', 'collation-key']
# kinds whose operand is evaluated INSIDE the `with` block, with the marker that makes the body raise
RAISE_MARK = {'index-of': ('$one div $zero', 'FOAR0001'), 'distinct-values': ('$one div $zero', 'FOAR0001'),
              'deep-equal': ('$one div $zero', 'FOAR0001'), 'contains-token': ('1', 'XPTY0004'),
              'max': ('1', 'FORG0006'),
              'for-index-of': ('$one div $zero', 'FOAR0001'), 'for-distinct-values': ('$one div $zero', 'FOAR0001')}
# 'for-*': the scope is held open by a suspended generator (fn:index-of / fn:distinct-values yield from
# inside their `with` block) while the `return` expression is evaluated
NEST_KINDS = ['contains-token', 'index-of', 'distinct-values', 'deep-equal', 'for-index-of', 'for-distinct-values']


class ExprBuilder:
    def __init__(self):
        self.vars = {'a': 'a', 'b': 'b', 's': ['b', 'a', 'b'], 'one': 1, 'zero': 0}
        self.collvar: dict[str, str] = {}
        self.markers: set[str] = set()
        self.ck = False

    def cref(self, coll):
        if coll is None:
            return '()'
        if not isinstance(coll, str):
            self.vars['cint'] = coll
            return '$cint'
        if coll not in self.collvar:
            name = f'c{len(self.collvar)}'
            self.collvar[coll] = name
            self.vars[name] = coll
        return '$' + self.collvar[coll]

    def expr(self, ev: Ev) -> str:
        k = ev.kind
        if k.startswith('other:'):
            return OTHER_EXPRS[int(k[6:])]
        if ev.dflt:
            return self.expr_with(ev, '')
        return self.expr_with(ev, ', ' + self.cref(ev.coll))

    def expr_with(self, ev: Ev, c: str) -> str:
        k = ev.kind
        if ev.inner or ev.raises:
            # every inner evaluation contributes the same string, so that the number of comparisons of the
            # outer function does not depend on the inner results
            items = [f'string(count({self.expr(e)}) ge 0)' for e in ev.inner] + ["'x'"]
            if ev.raises:
                mark, code = RAISE_MARK[k]
                items.append(mark)
                self.markers.add(code)
            seq = '(' + ', '.join(items) + ')'
        else:
            seq = '$s'
        if k == 'for-index-of':
            return f'for $i in index-of($a, $a{c}) return {seq}'
        if k == 'for-distinct-values':
            return f'for $i in distinct-values($a{c}) return {seq}'
        if k == 'compare':
            return f'compare($a, $b{c})'
        if k in ('contains', 'starts-with', 'ends-with', 'substring-before', 'substring-after'):
            return f'{k}($a, $b{c})'
        if k == 'index-of':
            return f'index-of({seq}, $a{c})'
        if k == 'distinct-values':
            return f'distinct-values({seq}{c})'
        if k in ('max', 'min'):
            return f'{k}({seq}{c})'
        if k == 'deep-equal':
            return f'deep-equal({seq}, $s{c})'
        if k == 'contains-token':
            return f"contains-token({seq}, 'zz'{c})"
        if k == 'collation-key':
            self.ck = True
            return f'collation-key($a{c})'
        raise ValueError(k)


# ------------------------------------------------------------------------- running the code
def canon_exc(e: BaseException) -> str:
    from elementpath.exceptions import ElementPathError
    if isinstance(e, ElementPathError):
        code = getattr(e, 'code', None) or ''
        code = code.split(':')[-1] if code else ''
        return f'ERR:{code}' if code else f'ERR:OTHER:{type(e).__name__}'
    return f'ERR:OTHER:{type(e).__name__}'


def watchdog(fn, hang_poll=0.05, limit=20.0):
    """run fn() in a daemon thread.  Returns ('ok', value) | ('exc', exception) | ('HANG', where).
    HANG = the thread sits in CollationManager.__enter__ (blocked in acquire) on two looks
    50 ms apart, or does not finish within `limit` seconds."""
    box = {}

    def target():
        try:
            box['v'] = fn()
        except BaseException as e:   # noqa: everything the implementation raises is an outcome
            box['e'] = e
    th = threading.Thread(target=target, daemon=True)
    th.start()
    t0 = time.time()
    looks = 0
    th.join(0.02)
    while th.is_alive():
        fr = sys._current_frames().get(th.ident)
        where = ''
        if fr is not None:
            where = f'{Path(fr.f_code.co_filename).name}:{fr.f_code.co_name}'
        if where.endswith('collations.py:__enter__'):
            looks += 1
            if looks >= 2:
                return 'HANG', 'acquire'
        else:
            looks = 0
        if time.time() - t0 > limit:
            return 'HANG', where or 'unknown'
        th.join(hang_poll)
    if 'e' in box:
        return 'exc', box['e']
    return 'ok', box.get('v')


ROOT = None


def root():
    global ROOT
    if ROOT is None:
        import xml.etree.ElementTree as ET
        ROOT = ET.XML('<a><b>x</b><b>y</b></a>')
    return ROOT


def eval_iter_held(ev: Ev, eval_inner):
    """`Selector(index-of($s, $a, $c)).iter_select(..)` advanced to its first result — the fn:index-of
    generator is now suspended inside its `with CollationManager(..)` block — then the inner evaluations
    run (each a complete public-API call of its own), then the iterator is exhausted.  Returns the list of
    results; an exception of the outer call propagates, the inner ones were generated not to raise."""
    from elementpath import Selector
    from elementpath.xpath31 import XPath31Parser
    sel = Selector('index-of($s, $a, $c)' if ev.coll is not None else 'index-of($s, $a, ())', parser=XPath31Parser)
    # (a non-string collation travels in $c like a string one)
    variables = {'s': ['a', 'x', 'a'], 'a': 'a'}
    if ev.coll is not None:
        variables['c'] = ev.coll
    it = sel.iter_select(root(), variables=variables)
    out = [next(it)]
    for e in ev.inner:
        eval_inner(e)
    out += list(it)
    return out


def run_tree(ev: Ev):
    """evaluate one tree with the real library; returns canonical outcome text"""
    from elementpath import select
    from elementpath.xpath31 import XPath31Parser
    b = ExprBuilder()
    if ev.kind == 'iter-held':
        def inner(e):
            bb = ExprBuilder()
            select(root(), bb.expr(e), parser=XPath31Parser, variables=bb.vars)
        kind, val = watchdog(lambda: eval_iter_held(ev, inner))
        expr = 'iter_select(index-of($s, $a, $c)) suspended after its first result around: ' + \
            ' ; '.join(ExprBuilder().expr(e) for e in ev.inner)
        if kind == 'HANG':
            return 'HANG' if val == 'acquire' else f'HANG:{val}', expr
        return ('ok' if kind == 'ok' else canon_exc(val)), expr
    expr = b.expr(ev)

    dcs = {e.coll for e in walk_evs(ev) if e.dflt}
    dc = sorted(dcs)[0] if dcs else None

    def go():
        if dc is None or getattr(ev, 'dc_from_locale', True):
            return select(root(), expr, parser=XPath31Parser, variables=b.vars)
        # the constructor variant: XPath2Parser(default_collation=..) instead of the process locale
        from elementpath import XPathContext
        tok = XPath31Parser(default_collation=dc).parse(expr)
        return tok.get_results(XPathContext(root(), variables=b.vars))
    kind, val = watchdog(go)
    if kind == 'HANG':
        return 'HANG' if val == 'acquire' else f'HANG:{val}', expr
    if kind == 'ok':
        return 'ok', expr
    out = canon_exc(val)
    code = out[4:]
    if code in b.markers:
        out = 'ERR:BODY'
    elif b.ck and out == 'ERR:FOCH0004':
        out = 'ERR:FOCH0002'      # collation-key re-labels every locale.Error (incl. FOCH0002)
    return out, expr


class World:
    def __init__(self, init, avail, envdefault='C'):
        self.init, self.avail, self.envdefault = init, sorted(set(avail) | {init}), envdefault

    def to_json(self):
        return {'init': self.init, 'avail': self.avail, 'envdefault': self.envdefault}

    def default_collation(self) -> str:
        """`XPath31Parser().default_collation` in a process whose LC_COLLATE is `init`"""
        if getattr(self, '_dc', None) is None:
            from elementpath.xpath31 import XPath31Parser
            stub = LocaleStub(self.avail, self.init, self.envdefault)
            install(stub)
            try:
                self._dc = XPath31Parser().default_collation
            finally:
                uninstall()
        return self._dc

    @staticmethod
    def from_json(j):
        return World(j['init'], j['avail'], j.get('envdefault', 'C'))


def impl_manager(coll):
    """(lc_collate, fallback) of the real CollationManager(coll) — or the canonical error"""
    from elementpath.collations import CollationManager
    try:
        m = CollationManager(coll)
    except BaseException as e:
        return canon_exc(e)
    return m.lc_collate, m.fallback


def req_enc(lc) -> str:
    return ('N:' + enc(lc)) if isinstance(lc, str) else ('P:' + enc(lc[0] if lc[0] is not None else ''))


def norm_name(lc, world: World) -> str:
    """the name Python's locale.setlocale hands to the C function for this request"""
    if isinstance(lc, str):
        return world.envdefault if lc == '' else lc
    return locale.normalize(locale._build_localename(lc))


def norm_table(colls, world: World) -> str:
    out = {}
    for c in colls:
        if not isinstance(c, str):
            continue
        m = impl_manager(c)
        if isinstance(m, str) or m[0] is None:
            continue
        try:
            out[req_enc(m[0])] = enc(norm_name(m[0], world))
        except Exception:
            pass
    out['N:' + enc('en_US.UTF-8')] = enc('en_US.UTF-8')
    return ';'.join(f'{k}>{v}' for k, v in sorted(out.items()))


def hist_line(world: World, evs: list[Ev], envd: str, decd: str) -> str:
    colls = {c for e in evs for c in e.colls()}
    toks = [t for e in evs for t in e.tokens()]
    return (f'HIST init={enc(world.init)} avail={";".join(enc(a) for a in world.avail)} '
            f'norm={norm_table(colls, world)} env={envd} dec={decd} evs={"/".join(toks)}')


def run_history_impl(world: World, evs: list[Ev], yield_prob=0.0):
    """returns list of observation strings in the driver's format (stops after a HANG)"""
    stub = LocaleStub(world.avail, world.init, world.envdefault)
    install(stub)
    obs, exprs = [], []
    try:
        for ev in evs:
            n0 = len(stub.log)
            out, expr = run_tree(ev)
            exprs.append(expr)
            envd, decd = globals_digest()
            log = show_log(stub.log[n0:])
            obs.append(f'{out}#{int(lock_held())}#{enc(stub.cur)}#{decd}#{envd}#{log}')
            if out.startswith('HANG'):
                break
    finally:
        uninstall()
    return obs, exprs


# ------------------------------------------------------------------------------ generators
LOCALES = ['de_DE.UTF-8', 'fr_FR.UTF-8', 'en_US.UTF-8', 'it_IT.UTF-8', 'sv_SE.UTF-8', 'xx.UTF-8']
INITS = ['C', 'C', 'C', 'POSIX', 'en_US.UTF-8', 'en_US', 'de_DE@euro', 'mylocale', 'C.utf8', 'de_DE.UTF-8',
         'en_US.utf-8', 'sr_RS.UTF-8@latin', 'en_US.ISO8859-1']
LANGS = ['de', 'de_DE', 'fr', 'fr_FR', 'en', 'en_US', 'it', 'sv', 'xx', 'de_DE.UTF-8', 'fr_FR.utf8', '', 'de-DE']


def gen_world(rng) -> World:
    init = rng.choice(INITS)
    r = rng.random()
    if r < 0.2:
        avail = []                               # nothing but the initial locale
    elif r < 0.3:
        avail = LOCALES
    else:
        avail = [x for x in LOCALES if rng.random() < 0.45]
    if rng.random() < 0.5 and 'C' not in avail:
        avail = list(avail) + ['C']
    envdefault = rng.choice(['C', 'en_US.UTF-8', init])
    return World(init, avail, envdefault)


def gen_coll(rng, world: World):
    inst = [a for a in world.avail if a not in ('C', 'POSIX')]
    if inst and rng.random() < 0.35:               # an installed locale, in one of its spellings
        a = rng.choice(inst)
        lang = a.split('.')[0]
        return rng.choice([a, a, UCA + '?lang=' + lang, UCA + '?lang=' + a + ';fallback=no',
                           UCA + '?fallback=no;lang=' + lang, UCA + '?lang=' + lang.split('_')[0]])
    r = rng.random()
    if r < 0.10:
        return rng.choice([CODEPOINT, HTML_ASCII, CASEBLIND])
    if r < 0.12:
        return None
    if r < 0.14:
        return 42
    if r < 0.62:
        parts = []
        if rng.random() < 0.85:
            parts.append('lang=' + rng.choice(LANGS))
        fb = rng.choice(['fallback=yes', 'fallback=no', 'fallback=no', None, None, 'fallback=maybe',
                         'fallback=yesno', 'fallback=', 'fallback=noyes'])
        if fb:
            parts.append(fb)
        if rng.random() < 0.2:
            parts.append(rng.choice(['strength=primary', 'lang=it', 'fallback=no', 'fallback=yes', 'x', '']))
        rng.shuffle(parts)
        uri = UCA + ('?' + ';'.join(parts) if parts or rng.random() < 0.3 else '')
        r2 = rng.random()
        if r2 < 0.06:
            uri += '#frag?lang=fr;fallback=no'
        elif r2 < 0.10:
            uri = UCA + 'X?' + ';'.join(parts)
        elif r2 < 0.13:
            uri = UCA + '/' + ';'.join(parts)
        return uri
    if r < 0.90:
        return rng.choice(LOCALES + world.avail + ['zz_ZZ', 'C', 'POSIX', 'de_DE', 'en_US.utf8'])
    return rng.choice(['', 'collation/relative', 'urn:x-unknown:collation', ' ', 'lang=de', 'UCA?lang=de',
                       'http://www.w3.org/2013/collation/UC', CODEPOINT + '/', 'a b c'])


def safe_coll(rng, world: World):
    """a collation whose evaluation cannot raise in this world"""
    inst = [a for a in world.avail if '.' in a and '@' not in a and a.split('.')[1] == 'UTF-8']
    if inst and rng.random() < 0.8:
        a = rng.choice(inst)
        return rng.choice([a, UCA + '?lang=' + a])
    return rng.choice([CODEPOINT, HTML_ASCII])


def gen_iter_held(rng, world: World, coll) -> Ev:
    inner = [Ev(safe_coll(rng, world), kind=rng.choice(['compare', 'contains', 'index-of', 'collation-key']))
             for _ in range(rng.randint(1, 3))]
    return Ev(coll, inner, False, 'iter-held')


def gen_ev(rng, world: World, depth=0, allow_nest=True) -> Ev:
    if depth == 0 and rng.random() < 0.08:
        return Ev(CODEPOINT, kind=f'other:{rng.randrange(len(OTHER_EXPRS))}')
    if depth == 0 and allow_nest and rng.random() < 0.07:
        return gen_iter_held(rng, world, gen_coll(rng, world))
    coll = gen_coll(rng, world)
    nest = allow_nest and depth < 2 and rng.random() < (0.22 if depth == 0 else 0.3)
    raises = rng.random() < 0.2
    if nest:
        kind = rng.choice(NEST_KINDS)
        inner = [gen_ev(rng, world, depth + 1) for _ in range(rng.randint(1, 2))]
    else:
        inner = []
        kind = rng.choice([k for k in RAISE_MARK]) if raises else rng.choice(FLAT_KINDS)
    ev = Ev(coll, inner, raises, kind)
    if isinstance(coll, str) and rng.random() < 0.12:
        ev.coll, ev.dflt = world.default_collation(), True
    return ev


def walk_evs(ev: Ev):
    yield ev
    for e in ev.inner:
        yield from walk_evs(e)


def fix_markers(ev: Ev):
    """keep outcomes unambiguous: no XPTY0004 body marker in a tree that has an empty-sequence
    collation; collation-key only at top level"""
    has_none = any(not isinstance(c, str) for c in ev.colls())

    def walk(e, top):
        if e.raises and has_none and e.kind == 'contains-token':
            e.kind = 'index-of'
        if e.kind == 'collation-key' and not top:
            e.kind = 'compare'
        if e.raises and e.kind == 'max' and e.inner:
            e.kind = 'index-of'
        for x in e.inner:
            walk(x, False)
    walk(ev, True)
    return ev


def gen_history(rng, quick=True):
    world = gen_world(rng)
    n = rng.randint(2, 10)
    flat_only = rng.random() < 0.5
    evs = [fix_markers(gen_ev(rng, world, allow_nest=not flat_only)) for _ in range(n)]
    for ev in evs:
        d = [e for e in walk_evs(ev) if e.dflt]
        if d and rng.random() < 0.5:        # XPath31Parser(default_collation=<any collation>)
            dc = gen_coll(rng, world)
            if isinstance(dc, str):
                for e in d:
                    e.coll = dc
                ev.dc_from_locale = False
    return world, evs


CORPUS_HIST = [
    # F19a: requested and fallback locale both unavailable, then any further locale-based call
    (World('C', []), [Ev(UCA + '?lang=de;fallback=yes'), Ev(UCA + '?lang=de;fallback=no'), Ev('de_DE.UTF-8')]),
    (World('C', []), [Ev(UCA), Ev(UCA, raises=True, kind='index-of'), Ev(CODEPOINT), Ev(UCA + '?lang=fr')]),
    # F19c: initial locale whose getlocale() round trip changes the name / cannot be parsed
    (World('en_US', ['de_DE.UTF-8']), [Ev('de_DE.UTF-8'), Ev('de_DE.UTF-8')]),
    (World('mylocale', ['de_DE.UTF-8']), [Ev('de_DE.UTF-8'), Ev(UCA + '?lang=de')]),
    (World('de_DE@euro', ['en_US.UTF-8']), [Ev(UCA + '?lang=zz'), Ev('zz'), Ev(UCA + '?lang=zz;fallback=no')]),
    # F19b (fixed by fix-c19-2): nested locale scopes
    (World('C', ['de_DE.UTF-8', 'fr_FR.UTF-8']),
     [Ev('de_DE.UTF-8'), Ev('de_DE.UTF-8', [Ev('fr_FR.UTF-8')], kind='contains-token'), Ev('de_DE.UTF-8')]),
    (World('C', ['de_DE.UTF-8']),
     [Ev('de_DE.UTF-8', [Ev(CODEPOINT), Ev('zz_ZZ')], kind='index-of'),      # inner FOCH0002? no: blocks first
      Ev('de_DE.UTF-8')]),
    (World('C', ['de_DE.UTF-8']),
     [Ev(CODEPOINT, [Ev('de_DE.UTF-8'), Ev('zz_ZZ')], kind='distinct-values'), Ev('de_DE.UTF-8', raises=True, kind='max')]),
    (World('C', ['en_US.UTF-8']),
     [Ev(UCA + '?lang=xx', [Ev(HTML_ASCII, raises=True, kind='index-of')], kind='deep-equal'), Ev(None), Ev('')]),
    # F19b (fixed) through a suspended generator: for $i in index-of(.., C1) return compare(.., C2)
    (World('C', ['de_DE.UTF-8', 'fr_FR.UTF-8']),
     [Ev('de_DE.UTF-8', [Ev(CODEPOINT)], kind='for-index-of'), Ev('de_DE.UTF-8', [Ev('fr_FR.UTF-8')], kind='for-index-of')]),
    (World('C', ['de_DE.UTF-8']),
     [Ev('de_DE.UTF-8', [Ev('zz_ZZ', dflt=False)], raises=True, kind='for-distinct-values'), Ev('de_DE.UTF-8')]),
    (World('en_US.UTF-8', ['de_DE.UTF-8', 'C'], 'en_US.UTF-8'),
     [Ev(''), Ev(UCA + '?lang=de_DE.UTF-8;fallback=no', raises=True, kind='contains-token'), Ev(UCA + '?fallback=no;lang=')]),
]


# -------------------------------------------------------------------------- correspondence
def split_obs(o: str):
    p = o.split('#')
    return {'out': p[0], 'lock': p[1], 'lc': p[2], 'dec': p[3], 'env': p[4], 'log': p[5] if len(p) > 5 else ''}


def case_json(world, evs):
    return {'world': world.to_json(), 'history': [e.to_json() for e in evs]}


def compare_histories(run: Run, cases, tag_known=True):
    st = run.stats
    envd, decd = globals_digest()
    lines = []
    parse_colls = sorted({c for _, evs in cases for e in evs for c in e.colls() if isinstance(c, str)})
    for c in parse_colls:
        lines.append(f'PARSE c={enc(c)}')
    lines.append('PARSE c=NONE')
    inits = sorted({w.init for w, _ in cases})
    for world, evs in cases:
        lines.append(hist_line(world, evs, envd, decd))
    for i in inits:
        lines.append(f'DEFCOLL lc={enc(i)}')
    answers = run.driver('C19', lines)
    for i, ans in zip(inits, answers[len(answers) - len(inits):]):
        try:
            impl = 'dc=' + enc(World(i, []).default_collation())
        except BaseException as e:
            impl = canon_exc(e)
        st.count('default-collation:' + ('locale' if UCA in dec(impl[3:]) else 'codepoint') if impl.startswith('dc=')
                 else 'default-collation:error')
        if impl != ans:
            run.disagree(Disagreement({'LC_COLLATE': i}, impl, ans, what='XPath2Parser-default-collation',
                                      site='xpath2_parser.py XPath2Parser.__init__'))
    # --- __init__ tie
    for c, ans in zip(parse_colls + [None], answers):
        m = impl_manager(c)
        if isinstance(m, str):
            impl = m
        else:
            impl = f'lc={req_enc(m[0]) if m[0] is not None else "-"} fb={int(bool(m[1]))}'
        st.count('init:' + ('error' if isinstance(m, str) else 'no-locale' if m[0] is None else
                            'pair' if not isinstance(m[0], str) else 'name') +
                 ('' if isinstance(m, str) or m[0] is None else ('+fb' if m[1] else '-fb')))
        if impl != ans:
            run.disagree(Disagreement({'collation': c}, impl, ans, what='CollationManager.__init__',
                                      site='collations.py CollationManager.__init__'))
    # --- histories
    for (world, evs), ans in zip(cases, answers[len(parse_colls) + 1:]):
        case = case_json(world, evs)
        if not ans.startswith('model='):
            run.disagree(Disagreement(case, 'driver:' + ans, what='protocol'))
            continue
        fs = dict(kv.split('=', 1) for kv in ans.split(' '))
        model = fs['model'].split('|') if fs['model'] else []
        spec = split_obs(fs['spec'] + '#')
        impl, exprs = run_history_impl(world, evs)
        st.case(case, nontrivial=True)
        st.count(f'len={len(evs)}')
        st.count('world:avail=' + str(min(len(world.avail) - 1, 6)))
        st.count('world:init=' + world.init)
        for k, ev in enumerate(evs):
            if k >= len(impl) or k >= len(model):
                if len(impl) != len(model):
                    run.disagree(Disagreement(dict(case, upto=k), f'{len(impl)} observations',
                                              f'{len(model)} observations', what='history-length'))
                break
            io, mo = split_obs(impl[k]), split_obs(model[k])
            prefix = dict(case_json(world, evs[:k + 1]), expr=exprs[k])
            st.count('out:' + io['out'])
            st.count('comparisons-under-locale', io['log'].count('@'))
            st.count('shape:' + ('nested' if ev.inner else 'flat') + ('+raise' if ev.raises else ''))
            st.count('kind:' + ('other' if ev.kind.startswith('other:') else ev.kind))
            if io['log']:
                st.count('setlocale-requests', len(io['log'].split(',')))
                if '-' in io['log']:
                    st.count('branch:setlocale-rejected')
                    if io['log'].count('-') == 2:
                        st.count('branch:fallback-rejected-too')
                    elif '-,' in io['log'] and io['out'] != 'ERR:FOCH0002':
                        st.count('branch:fallback-used')
            # property: terminated, lock free, LC_COLLATE / environ / decimal as at the start
            impl_state = f"T={int(not io['out'].startswith('HANG'))} lock={io['lock']} lc={io['lc']} " \
                         f"dec={io['dec']} env={io['env']}"
            model_state = f"T={int(not mo['out'].startswith('HANG'))} lock={mo['lock']} lc={mo['lc']} " \
                          f"dec={mo['dec']} env={mo['env']}"
            spec_state = f"T=1 lock={spec['lock']} lc={spec['lc']} dec={spec['dec']} env={spec['env']}"
            if impl_state != spec_state:
                tags = []
                run.disagree(Disagreement(prefix, impl_state, model_state, spec=spec_state,
                                          what='global-state-after-evaluation',
                                          site='collations.py CollationManager.__enter__/__exit__', tags=tags))
            if impl[k] != model[k] and any(e.dflt for e in walk_evs(ev)):
                # a call without collation argument is also evaluated once at parse time (static
                # evaluation enters and leaves the default collation's scope): the request log may be
                # the model's, repeated
                # (so for these calls only "the model's log is a suffix of the observed one" is checked)
                if io['log'] != mo['log'] and io['log'].endswith(',' + mo['log']) and \
                        impl[k].rsplit('#', 1)[0] == model[k].rsplit('#', 1)[0]:
                    impl[k] = model[k]
                    st.count('default-collation:static-evaluation-scope')
            if impl[k] != model[k]:
                run.disagree(Disagreement(prefix, impl[k], model[k], what='model-step',
                                          site='collations.py CollationManager'))
                break
            if io['out'].startswith('HANG'):
                break



def compare_direct_api(run: Run):
    """the CollationManager class used directly, the same object entered twice and used after its
    block: (second use of an object, state carried on the instance)"""
    from elementpath.collations import CollationManager
    st = run.stats
    envd, decd = globals_digest()
    worlds = [World('C', ['de_DE.UTF-8']), World('en_US', []), World('POSIX', ['en_US.UTF-8'])]
    colls = ['de_DE.UTF-8', UCA + '?lang=de', UCA + '?lang=xx;fallback=no', CODEPOINT, 'zz_ZZ']
    cases = [(w, c) for w in worlds for c in colls]
    lines = [hist_line(w, [Ev(c, kind='compare'), Ev(c, kind='compare')], envd, decd) for w, c in cases]
    answers = run.driver('C19', lines)
    for (w, c), ans in zip(cases, answers):
        case = {'world': w.to_json(), 'collation': c, 'api': 'm = CollationManager(c); with m: m.eq(a,b); with m: m.eq(a,b); m.strcoll(a,b)'}
        model = dict(kv.split('=', 1) for kv in ans.split(' ')).get('model', ans).split('|')
        stub = LocaleStub(w.avail, w.init, w.envdefault)
        install(stub)
        obs = []
        try:
            try:
                m = CollationManager(c)
            except BaseException as e:
                m = None
                obs = [canon_exc(e)] * 2
            for _ in range(2 if m is not None else 0):
                n0 = len(stub.log)
                try:
                    with m as mm:
                        mm.eq('a', 'b')
                    out = 'ok'
                except BaseException as e:
                    out = canon_exc(e)
                obs.append(f'{out}#{int(lock_held())}#{enc(stub.cur)}#{decd}#{envd}#{show_log(stub.log[n0:])}')
            n0 = len(stub.log)
            if m is not None:
                try:
                    m.strcoll('a', 'b')          # after the block: no locale switching any more
                except BaseException:
                    pass
            after = [x for x in stub.log[n0:] if x[1] is not None]
        finally:
            uninstall()
        st.case(case, nontrivial=True)
        st.count('direct-api')
        if obs != model:
            run.disagree(Disagreement(case, '|'.join(obs), '|'.join(model), what='direct-api-reuse',
                                      site='collations.py CollationManager'))
        if after:
            run.disagree(Disagreement(case, 'setlocale after __exit__: ' + show_log(after), None,
                                      spec='no setlocale request outside the with block', what='direct-api-after-exit',
                                      site='collations.py CollationManager.__exit__'))


def compare_decimal_scope(run: Run):
    """the three `with localcontext()` sites under a non-default thread context: after every call, and
    between the results of a suspended iter_select, the thread's decimal context is the very same object
    with the same settings (value, exception and generator paths; sticky flags excluded)"""
    from elementpath import select, Selector
    from elementpath.xpath1 import XPath1Parser
    from elementpath.xpath31 import XPath31Parser
    st = run.stats
    exprs = ["round(xs:decimal('2.5'))", "round(1.0e308)", "round(xs:decimal('12345.678'), 2)", "round(2.5)",
             "round-half-to-even(xs:decimal('2.345'), 5000)", "round-half-to-even(1.0e-300, 310)",
             "round(xs:decimal('1e1990'), -1999)", "round('x')", "round-half-to-even(xs:decimal('1'), 'a')",
             "round(xs:decimal('0.1') div 3)"]
    old = decimal.getcontext()
    mine = decimal.Context(prec=11, rounding=decimal.ROUND_FLOOR, Emin=-99, Emax=99,
                           traps=[decimal.DivisionByZero])
    mine.flags[decimal.Inexact] = True
    decimal.setcontext(mine)

    def snap():
        return decimal.getcontext() is mine, globals_digest()[1]
    ref = snap()
    try:
        for e in exprs:
            for parser in (XPath1Parser, XPath31Parser):
                if parser is XPath1Parser and ('xs:' in e or 'half' in e):
                    continue
                case = {'expr': e, 'parser': parser.__name__, 'thread_context': 'prec=11 ROUND_FLOOR Inexact flag'}
                try:
                    select(root(), e, parser=parser)
                    out = 'ok'
                except BaseException as ex:
                    out = canon_exc(ex)
                st.case(case, nontrivial=True)
                st.count('decimal-scope:' + out[:12])
                if snap() != ref:
                    run.disagree(Disagreement(case, f'context after: {snap()}', f'{ref}', spec=f'{ref}',
                                              what='decimal-context-after-round', site='evaluate__round / round_half_to_even'))
                    decimal.setcontext(mine)
        # generator path: results pulled one by one, context observed while the iterator is suspended
        it = Selector("for $x in (xs:decimal('1.5'), xs:decimal('2.5'), 3.5e0) return (round($x), round-half-to-even($x, 0))",
                      parser=XPath31Parser).iter_select(root())
        k = 0
        for _ in it:
            k += 1
            if snap() != ref:
                run.disagree(Disagreement({'expr': 'iter_select over round(..) results', 'step': k},
                                          f'context while suspended: {snap()}', f'{ref}', spec=f'{ref}',
                                          what='decimal-context-while-suspended', site='evaluate__round'))
                break
        st.count('decimal-scope:iter-steps', k)
    finally:
        decimal.setcontext(old)


def correspond_histories(run: Run):
    rng = run.rng
    n = run.scale(450, 6000)
    cases = list(CORPUS_HIST) + [gen_history(rng, run.quick) for _ in range(n)]
    for i in range(0, len(cases), 400):
        compare_histories(run, cases[i:i + 400])
    compare_direct_api(run)
    compare_decimal_scope(run)


# ---------------------------------------------------------------------------------- threads
def gen_thread_case(rng):
    nthreads = 8 if rng.random() < 0.35 else rng.randint(2, 8)
    pool = rng.sample(LOCALES, rng.randint(2, len(LOCALES)))
    avail = [x for x in pool if rng.random() < 0.8]
    world = World(rng.choice(['C', 'C', 'en_US.UTF-8', 'POSIX']), avail)

    def coll():
        r = rng.random()
        if r < 0.55:
            return rng.choice(pool)
        if r < 0.8:
            return UCA + '?lang=' + rng.choice(pool).split('.')[0] + rng.choice(['', ';fallback=no', ';fallback=yes'])
        if r < 0.9:
            return CODEPOINT
        return 'zz_ZZ.UTF-8'

    def job(depth=0):
        r = rng.random()
        if depth == 0 and r < 0.15:
            return Ev(CODEPOINT, kind=f'other:{rng.randrange(len(OTHER_EXPRS))}')
        if depth == 0 and r < 0.33:       # a generator left suspended inside its scope while other calls run
            return gen_iter_held(rng, world, coll())
        raises = rng.random() < 0.12
        if depth < 2 and r < 0.45:      # nested / generator-held scopes
            kind = rng.choice(NEST_KINDS)
            return Ev(coll(), [job(depth + 1) for _ in range(rng.randint(1, 2))], raises, kind)
        kind = rng.choice(['index-of', 'contains-token', 'deep-equal', 'max']) if raises else \
            rng.choice(['compare', 'contains', 'index-of', 'deep-equal', 'contains-token', 'starts-with',
                        'collation-key', 'distinct-values', 'for-index-of'])
        return Ev(coll(), [], raises, kind)
    progs = [[fix_markers(job()) for _ in range(rng.randint(1, 4))] for _ in range(nthreads)]
    return world, progs


def thr_line(world, progs, sched):
    colls = {c for p in progs for e in p for c in e.colls()}
    ps = '|'.join('/'.join(t for e in p for t in e.tokens()) for p in progs)
    return (f'THR init={enc(world.init)} avail={";".join(enc(a) for a in world.avail)} '
            f'norm={norm_table(colls, world)} progs={ps} sched={".".join(map(str, sched))}')


def _in_enter(fr) -> bool:
    return fr is not None and fr.f_code.co_name == '__enter__' and \
        Path(fr.f_code.co_filename).name == 'collations.py'


def join_all(threads, stub, limit=20.0) -> bool:
    """wait for the threads; True = deadlock (every live thread sits in CollationManager.__enter__
    and nothing moved on three looks 20 ms apart) or nothing finished within `limit` seconds"""
    t0 = time.time()
    stable, last = 0, None
    while True:
        alive = [t for t in threads if t.is_alive()]
        if not alive:
            return False
        frames = sys._current_frames()
        blocked = all(_in_enter(frames.get(t.ident)) for t in alive)
        sig = (len(stub.log), stub.queries, stub.nseen, len(alive))
        stable = stable + 1 if (blocked and sig == last) else 0
        last = sig
        if stable >= 3 or time.time() - t0 > limit:
            return True
        time.sleep(0.02)


def run_threads_impl(world, progs, concurrent: bool, rng):
    """every thread owns its Selectors (independent objects); returns per-thread
    (outcomes, values, LC_COLLATE seen at each strcoll) and the final state"""
    from elementpath import Selector
    from elementpath.xpath31 import XPath31Parser
    stub = LocaleStub(world.avail, world.init, 'C', yield_prob=0.5 if concurrent else 0.0, rng=rng)
    install(stub)
    results = [None] * len(progs)
    idents = [None] * len(progs)
    try:
        start = threading.Barrier(len(progs)) if concurrent else None

        def work(i):
            idents[i] = threading.current_thread().name
            if start is not None:
                start.wait()
            outs = []
            for j in progs[i]:
                b = ExprBuilder()
                try:
                    if j.kind == 'iter-held':
                        def inner(e):
                            bb = ExprBuilder()
                            Selector(bb.expr(e), parser=XPath31Parser).select(root(), variables=bb.vars)
                        outs.append('ok:' + repr(eval_iter_held(j, inner)))
                        continue
                    # an independent Selector (own parser instance) per evaluation, built in the thread
                    expr = b.expr(j)
                    sel = Selector(expr, parser=XPath31Parser)
                    v = sel.select(root(), variables=b.vars)
                    outs.append('ok:' + repr(v))
                except BaseException as e:
                    c = canon_exc(e)
                    if c[4:] in b.markers:
                        c = 'ERR:BODY'
                    elif b.ck and c == 'ERR:FOCH0004':
                        c = 'ERR:FOCH0002'
                    outs.append(c)
            results[i] = outs
        threads = [threading.Thread(target=work, args=(i,), daemon=True, name=f'c19-thread-{i}')
                   for i in range(len(progs))]
        old = sys.getswitchinterval()
        if concurrent:
            sys.setswitchinterval(1e-6)
            try:
                for t in threads:
                    t.start()
                join_all(threads, stub)
            finally:
                sys.setswitchinterval(old)
        else:
            for t in threads:
                t.start()
                if join_all([t], stub):
                    break                      # the rest would only queue up behind the held lock
        hung = [i for i, t in enumerate(threads) if t.is_alive() or results[i] is None]
        seen = [stub.seen.get(idents[i], []) if idents[i] is not None else [] for i in range(len(progs))]
        foreign = [stub.foreign.get(idents[i], []) if idents[i] is not None else [] for i in range(len(progs))]
        final = (int(lock_held()), stub.cur)
        return results, seen, final, hung, foreign
    finally:
        uninstall()


def compare_threads(run: Run, cases):
    st = run.stats
    rng = run.rng
    lines = []
    for world, progs in cases:
        total = sum(8 * (2 + 4 * e.size()) for p in progs for e in p)
        sched = [rng.randrange(len(progs)) for _ in range(min(total, 4000))]
        lines.append(thr_line(world, progs, sched))
    answers = run.driver('C19', lines)
    hung_cases = 0
    for (world, progs), ans in zip(cases, answers):
        if hung_cases >= 3:
            run.notes.append('thread phase stopped after 3 hung cases')
            break
        case = {'world': world.to_json(), 'programs': [[e.to_json() for e in p] for p in progs]}
        if not ans.startswith('model='):
            run.disagree(Disagreement(case, 'driver:' + ans, what='protocol'))
            continue
        fs = dict(kv.split('=', 1) for kv in ans.split(' '))
        mlock, mlc, *mthr = fs['model'].split('#', 2)
        mthr = mthr[0].split('|')
        st.case(case, nontrivial=True)
        st.count(f'threads={len(progs)}')
        if fs['maxHolders'] not in ('0', '1') or fs['badSeen'] != '0' or fs['bracketsOK'] != '1':
            run.disagree(Disagreement(case, 'n/a', ans, what='model-schedule-invariant'))
        seq = run_threads_impl(world, progs, False, rng)
        con = run_threads_impl(world, progs, True, rng)
        spec_final = fs['spec']
        for name, (results, seen, final, hung, foreign) in (('sequential', seq), ('concurrent', con)):
            impl_final = f'{final[0]}#{enc(final[1])}'
            if hung:
                hung_cases += 1
                run.disagree(Disagreement(case, f'HANG threads={hung} final={impl_final}',
                                          f'{mlock}#{mlc}', spec=spec_final, what=f'threads-{name}-hang',
                                          site='collations.py _locale_collate_lock'))
                continue
            if impl_final != spec_final:
                run.disagree(Disagreement(case, impl_final, f'{mlock}#{mlc}', spec=spec_final,
                                          what=f'threads-{name}-final-state', site='collations.py CollationManager'))
            for i, p in enumerate(progs):
                m_done, m_outs, m_seen = mthr[i].split(';')
                got = ','.join(enc(x) for x in seen[i])
                impl_outs = ','.join('ok' if o.startswith('ok:') else o for o in (results[i] or []))
                st.count('thread-comparisons', len(seen[i]))
                if impl_outs != m_outs:
                    run.disagree(Disagreement(dict(case, thread=i), impl_outs, m_outs,
                                              what=f'threads-{name}-outcomes'))
                if foreign[i]:
                    # property: a comparison ran under a locale that its own thread did not install for it
                    run.disagree(Disagreement(dict(case, thread=i), 'saw/own=' + repr(foreign[i][:4]), None,
                                              spec='saw/own=[]', what=f'threads-{name}-foreign-locale-seen',
                                              site='collations.py _locale_collate_lock'))
                if got != m_seen and not any(e.dflt for j in p for e in walk_evs(j)):
                    run.disagree(Disagreement(dict(case, thread=i), 'seen=' + got, 'seen=' + m_seen,
                                              what=f'threads-{name}-locale-seen',
                                              site='collations.py CollationManager._locale_call'))
        # concurrent == sequential (values, not only outcome classes)
        if not seq[3] and not con[3] and seq[0] != con[0]:
            run.disagree(Disagreement(case, 'concurrent=' + repr(con[0]), None, spec='sequential=' + repr(seq[0]),
                                      what='threads-concurrent-vs-sequential'))
        st.count('thread-jobs', sum(len(p) for p in progs))
        st.count('thread-nested-jobs', sum(1 for p in progs for e in p if e.inner))


def correspond_threads(run: Run):
    n = run.scale(50, 500)
    cases = [gen_thread_case(run.rng) for _ in range(n)]
    compare_threads(run, cases)


# ------------------------------------------------------------------------------------ gates
def gen_env_case(rng):
    names = ['HOME', 'PATH', 'C19_SECRET', 'LANG', 'X Y', 'é', 'a.b', 'EMPTYVAL']
    env = {n: rng.choice(['', 'v', '/root', 's3cr3t', 'x y']) for n in names if rng.random() < 0.6}
    name = rng.choice(names + ['NOPE', ''])
    allow = rng.choice(['D', 'D', '0', '1'])
    return allow, env, name


def compare_env(run: Run, cases):
    from elementpath import XPathContext
    from elementpath.xpath31 import XPath31Parser
    st = run.stats
    lines = [f'ENV allow={a} env={";".join(enc(k) + ">" + enc(v) for k, v in sorted(env.items()))} name={enc(n)}'
             for a, env, n in cases]
    answers = run.driver('C19', lines)
    saved = dict(os.environ)
    try:
        for (allow, env, name), ans in zip(cases, answers):
            case = {'allow_environment': allow, 'env': env, 'name': name}
            fs = dict(kv.split('=', 1) for kv in ans.split(' ')) if ans.startswith('model=') else None
            if fs is None:
                run.disagree(Disagreement(case, 'driver:' + ans, what='protocol'))
                continue
            os.environ.clear()
            os.environ.update(env)
            try:
                p = XPath31Parser()
                kw = {} if allow == 'D' else {'allow_environment': allow == '1'}
                ctx = XPathContext(root(), variables={'n': name}, **kw)
                v = p.parse('environment-variable($n)').evaluate(ctx)
                v = 'EMPTY' if v == [] or v is None else enc(v)
                ctx = XPathContext(root(), **kw)
                names = p.parse('available-environment-variables()').evaluate(ctx)
                impl = v + '#' + ';'.join(sorted(enc(x) for x in names))
            except BaseException as e:
                impl = canon_exc(e)
            finally:
                os.environ.clear()
                os.environ.update(saved)
            mv, mn = fs['model'].split('#')
            model = mv + '#' + ';'.join(sorted(x for x in mn.split(';') if x))
            st.case(case, nontrivial=bool(env))
            st.count('env:allow=' + allow)
            spec = fs['spec'] if allow == 'D' else None
            if impl != model or (spec is not None and impl != spec):
                run.disagree(Disagreement(case, impl, model, spec=spec, what='environment-variable-gate',
                                          site='_xpath30_functions.py evaluate__environment_variable'))
    finally:
        os.environ.clear()
        os.environ.update(saved)


ENT_NAMES = ['e', 'ent', 'x1']


def gen_doc(rng):
    xd = rng.random() < 0.3
    leading = rng.choice([0, 0, 0, 1, 2])
    decls = []
    declared = {}
    if rng.random() < 0.75:
        ext = rng.random() < 0.12
        for _ in range(rng.choice([0, 1, 1, 2, 3])):
            r = rng.random()
            if r < 0.35:
                n = rng.choice(ENT_NAMES)
                v = rng.choice(['EXPANDED', 'boom', ''])
                decls.append(('e', n, v))
                declared.setdefault(n, v)
            elif r < 0.45:
                decls.append(('p', 'pe' + str(len(decls))))
            elif r < 0.55:
                decls.append(('x', 'xe' + str(len(decls))))
            elif r < 0.62:
                decls.append(('u', 'ue' + str(len(decls))))
            else:
                decls.append((rng.choice('EANCP'),))
        doctype = (ext, decls)
    else:
        doctype = None
    content = []
    for _ in range(rng.randint(0, 4)):
        r = rng.random()
        if r < 0.4:
            content.append(('t', rng.choice(['t', 'hello', 'a b'])))
        elif r < 0.6:
            content.append(('c', rng.choice(['<', '&', 'A'])))
        elif declared:
            content.append(('r', rng.choice(sorted(declared))))
        elif rng.random() < 0.15:
            content.append(('r', 'undeclared'))
    return xd, leading, doctype, content


def render_doc(doc) -> str:
    xd, leading, doctype, content = doc
    s = '<?xml version="1.0" encoding="utf-8"?>' if xd else ''
    for i in range(leading):
        s += '<!-- c -->' if i % 2 == 0 else '<?pi x?>'
    if doctype is not None:
        ext, decls = doctype
        body = ''
        for i, d in enumerate(decls):
            if d[0] == 'e':
                body += f'<!ENTITY {d[1]} "{d[2]}">'
            elif d[0] == 'p':
                body += f'<!ENTITY % {d[1]} "x">'
            elif d[0] == 'x':
                body += f'<!ENTITY {d[1]} SYSTEM "file:///nonexistent-c19">'
            elif d[0] == 'u':
                body += f'<!ENTITY {d[1]} SYSTEM "file:///nonexistent-c19" NDATA nt>'
            elif d[0] == 'E':
                body += '<!ELEMENT r ANY>'
            elif d[0] == 'A':
                body += f'<!ATTLIST r a{i} CDATA #IMPLIED>'
            elif d[0] == 'N':
                body += f'<!NOTATION n{i} SYSTEM "n">'
            elif d[0] == 'C':
                body += '<!-- d -->'
            elif d[0] == 'P':
                body += '<?dpi y?>'
        s += '<!DOCTYPE r' + (' SYSTEM "file:///nonexistent-c19.dtd"' if ext else '') + \
             (f' [{body}]' if decls or not ext else '') + '>'
    s += '<r>'
    for it in content:
        if it[0] == 't':
            s += it[1]
        elif it[0] == 'c':
            s += {'<': '&lt;', '&': '&amp;', 'A': '&#65;'}[it[1]]
        else:
            s += f'&{it[1]};'
    return s + '</r>'


def doc_field(doc) -> str:
    xd, leading, doctype, content = doc
    if doctype is None:
        dt = '-'
    else:
        ext, decls = doctype
        ds = []
        for d in decls:
            if d[0] == 'e':
                ds.append(f'e:{enc(d[1])}:{enc(d[2])}')
            elif d[0] in 'pxu':
                ds.append(f'{d[0]}:{enc(d[1])}')
            else:
                ds.append(d[0])
        dt = '~'.join([str(int(ext))] + ds)
    ct = '~'.join(f'{k}:{enc(v)}' for k, v in content)
    return f'{int(xd)}/{leading}/{dt}/{ct}'


def compare_xml(run: Run, cases):
    from elementpath import XPathContext
    from elementpath.xpath31 import XPath31Parser
    from elementpath.exceptions import XMLResourceForbidden
    st = run.stats
    lines = [f'XML defuse={df} doc={doc_field(doc)}' for df, doc in cases]
    answers = run.driver('C19', lines)
    for (df, doc), ans in zip(cases, answers):
        text = render_doc(doc)
        case = {'defuse_xml': df, 'xml': text}
        if not ans.startswith('xml='):
            run.disagree(Disagreement(case, 'driver:' + ans, what='protocol'))
            continue
        fs = dict(kv.split('=', 1) for kv in ans.split(' '))
        st.case(case, nontrivial=doc[2] is not None)
        st.count('xml:defuse=' + df)
        for fn, key in (('parse-xml', 'xml'), ('parse-xml-fragment', 'frag')):
            try:
                p = XPath31Parser() if df == 'D' else XPath31Parser(defuse_xml=(df == '1'))
                ctx = XPathContext(root(), variables={'x': text})
                r = p.parse(f'string({fn}($x))').evaluate(ctx)
                impl = 'ok:' + enc(r)
            except XMLResourceForbidden:
                impl = 'ERR:forbidden'
            except BaseException as e:
                impl = canon_exc(e)
            st.count(f'{fn}:' + impl.split(':')[0] + (':' + impl.split(':')[1] if impl.startswith('ERR') else ''))
            model = fs[key]
            # the property (default settings): a document declaring an entity is rejected
            spec = None
            if df == 'D' and fs['mustReject'] == '1':
                st.count('xml:entity-declared')
                spec = impl if impl.startswith('ERR:') else 'ERR:(rejected)'
            if impl != model or (spec is not None and impl != spec):
                run.disagree(Disagreement(dict(case, fn=fn), impl, model, spec=spec, what='entity-gate',
                                          site='etree.py defuse_xml / _xpath30_functions.py ' + fn))



# ---- the entity gate on the text itself (XmlText.scanProlog) -----------------------------------
def gen_text_case(rng):
    """(text, declok, must_reject | None): an XML text built from a structured prolog with textual
    variation, or one of several ill-formed mutations (then must_reject is None = no spec)"""
    def ws(p=0.5):
        return rng.choice([' ', '\n', '  ', '\t', '\r\n']) if rng.random() < p else ''
    decl_params = []
    text = ''
    declok = True
    if rng.random() < 0.35:
        decl_params = rng.choice([['version', 'encoding'], ['version'], ['version', 'encoding', 'standalone'],
                                  ['encoding'], ['version', 'standalone']])
        vals = {'version': '"1.0"', 'encoding': rng.choice(['"utf-8"', "'UTF-8'"]), 'standalone': '"yes"'}
        text += '<?xml ' + ' '.join(f'{k}{ws(0.2)}={ws(0.2)}{vals[k]}' for k in decl_params) + ws(0.3) + '?>'
        declok = 'encoding' in decl_params and all(k in ('version', 'encoding') for k in decl_params)
    misc_pool = ['<!-- c -->', '<?pi x?>', '<!-- <!DOCTYPE r [<!ENTITY e "x">]> -->', '<?p <!ENTITY e "x"> ?>',
                 '<!---->', '<?q?>']
    text += ws()
    for _ in range(rng.choice([0, 0, 1, 2])):
        text += rng.choice(misc_pool) + ws()
    must = False
    declared = {}
    if rng.random() < 0.75:
        ext = rng.random() < 0.15
        extid = rng.choice([' SYSTEM "file:///nonexistent-c19.dtd"', " PUBLIC '-//c19//x' \"file:///nonexistent-c19.dtd\""]) if ext else ''
        body = ''
        pes = []
        for i in range(rng.choice([0, 1, 1, 2, 3, 4])):
            r = rng.random()
            if r < 0.28:
                n = rng.choice(['e', 'ent', 'x1'])
                v = rng.choice(['EXPANDED', 'boom', '', ']>X', 'a>b'])
                q = "'" if rng.random() < 0.3 else '"'
                body += f'<!ENTITY{ws(1)}{n}{ws(1)}{q}{v}{q}{ws(0.3)}>'
                declared.setdefault(n, v)
                must = True
            elif r < 0.38:
                body += f'<!ENTITY % pe{i} "<!-- from pe -->">'
                pes.append(f'pe{i}')
                must = True
            elif r < 0.46:
                body += f'<!ENTITY xe{i} SYSTEM "file:///nonexistent-c19">'
                must = True
            elif r < 0.52:
                body += f'<!NOTATION nt{i} SYSTEM "n"><!ENTITY ue{i} SYSTEM "file:///nonexistent-c19" NDATA nt{i}>'
                must = True
            elif r < 0.6 and pes:
                body += f'%{rng.choice(pes)};'
            elif r < 0.7:
                body += '<!ELEMENT r ANY>'
            elif r < 0.8:
                body += f'<!ATTLIST r a{i} CDATA {rng.choice(["#IMPLIED", chr(34) + "d>f" + chr(34), chr(39) + "x" + chr(39)])}>'
            elif r < 0.9:
                body += rng.choice(['<!-- d -->', '<!-- <!ENTITY z "q"> -->'])
            else:
                body += '<?dpi y?>'
            body += ws(0.3)
        text += f'<!DOCTYPE{ws(1)}r{extid}{ws(0.3)}' + (f'[{ws(0.3)}{body}]{ws(0.3)}' if body or rng.random() < 0.5 else '') + '>'
        text += ws()
        for _ in range(rng.choice([0, 0, 1])):
            text += rng.choice(misc_pool[:2]) + ws()
    content = ''
    for _ in range(rng.randint(0, 3)):
        r = rng.random()
        if r < 0.45:
            content += rng.choice(['t', 'hello', 'a b'])
        elif r < 0.65:
            content += rng.choice(['&lt;', '&amp;', '&#65;', '&#x42;', '&gt;'])
        elif declared and not any(c in v for v in declared.values() for c in '<&'):
            content += f'&{rng.choice(sorted(declared))};'
    text += f'<r{ws(0.2)}>{content}</r>' + ws(0.3)
    if rng.random() < 0.03 and '<!DOCTYPE' in text:
        # defuse_xml pulls the text through the SAX parser in chunks of 16 364 characters: push the
        # DOCTYPE (or the entity declaration inside it) beyond the first chunk
        pad = '<!-- ' + 'x' * rng.choice([17000, 33000]) + ' -->'
        i = text.index('<!DOCTYPE')
        if '[' in text[i:] and rng.random() < 0.5:
            i = text.index('[', i) + 1
        text = text[:i] + pad + text[i:]
        return text, declok, must
    # ill-formed mutations: the scanner must stop where expat stops
    r = rng.random()
    if r < 0.18:
        cut = rng.choice(['truncate', 'junk', 'unclosed-comment', 'late-error', 'space-before-decl', 'doctype-twice'])
        must_spec = None
        if cut == 'truncate':
            text = text[:rng.randrange(1, len(text))]
        elif cut == 'junk':
            text = rng.choice(['x', '&e;', ']]>']) + text
        elif cut == 'unclosed-comment':
            text = text.replace('-->', '--', 1) if '-->' in text else '<!-- ' + text
        elif cut == 'late-error' and '<!DOCTYPE' in text and ']' in text:
            i = text.rindex(']')
            text = text[:i] + '<!BOGUS>' + text[i:]
        elif cut == 'space-before-decl':
            text = ' ' + text
            declok = True if not text.startswith('<?xml ') else declok
        elif cut == 'doctype-twice':
            text = text.replace('<r', '<!DOCTYPE r><r', 1)
        return text, declok, must_spec
    return text, declok, must


SEED_TEXTS = [
    ('<!DOCTYPE r [<!ENTITY e "EXPANDED">]><r>&e;</r>', True, True),
    ('<!-- c --><!DOCTYPE r [<!ENTITY e "EXPANDED">]><r>&e;</r>', True, True),
    ('<?pi x?>\n<!DOCTYPE r [<!ENTITY e "EXPANDED">]><r>&e;</r>', True, True),
    ('<?xml version="1.0" encoding="utf-8"?><!-- c --><!DOCTYPE r [<!ENTITY e "EXPANDED">]><r>&e;</r>', True, True),
    ('<?xml version="1.0" encoding="utf-8"?>\n<!DOCTYPE r [<!ENTITY e "EXPANDED">]><r>&e;</r>', True, True),
    ('\n  <!DOCTYPE r [<!ENTITY e "EXPANDED">]><r>&e;</r>', True, True),
    ('<!DOCTYPE r [<!ENTITY % p "<!ENTITY e \'EXPANDED\'>"> %p;]><r>&e;</r>', True, True),
    ('<!DOCTYPE r SYSTEM "file:///nonexistent-c19.dtd"><r>t</r>', True, False),
    ('<?xml version="1.0" standalone="yes"?><!DOCTYPE r SYSTEM "file:///nonexistent-c19.dtd"><r>t</r>', False, False),
    ('<!DOCTYPE r [<!ATTLIST r a CDATA "x>y"><!ENTITY e "]>EXPANDED">]><r>&e;</r>', True, True),
    ('<!-- <!DOCTYPE r [<!ENTITY e "x">]> --><r>t</r>', True, False),
    ('<!DOCTYPE r [<!ENTITY e "EXPANDED"><!BOGUS>]><r>&e;</r>', True, None),
    ('<!DOCTYPE r [<!ENTITY e "EXPANDED"]><r>&e;</r>', True, None),
    ('<!doctype r [<!ENTITY e "EXPANDED">]><r>&e;</r>', True, None),
    ('<r>&lt;&#65;</r>', True, False),
    # declarations after a parameter-entity reference are not processed (XML 1.0 5.1): &e; is undefined
    ('<!DOCTYPE r [<!ENTITY % p "<!-- x -->">%p;<!ENTITY e "EXPANDED">]><r>&e;</r>', True, True),
    ('<!-- ' + 'x' * 17000 + ' --><!DOCTYPE r [<!ENTITY e "EXPANDED">]><r>&e;</r>', True, True),
    ('<!DOCTYPE r [<!-- ' + 'x' * 17000 + ' --><!ENTITY e "EXPANDED">]><r>&e;</r>', True, True),
]



# ---- every gate text under both tree backends and through every public entry point ---------------
def gate_routes():
    """name -> callable(expr, text, parser_kwargs) evaluating `expr` (which uses $x) with the real library.
    The backend that fn:parse-xml uses is chosen by the dynamic context (context.etree): ElementTree
    unless the context's root / item is an lxml node."""
    import xml.etree.ElementTree as ET
    import lxml.etree as LX
    from elementpath import select, Selector, XPathContext
    from elementpath.xpath31 import XPath31Parser
    et_root = ET.XML('<a><b>x</b></a>')
    lx_root = LX.XML('<a><b>x</b></a>')
    lx_doc = LX.ElementTree(LX.XML('<a><b>x</b></a>'))

    def by_context(**ctx_kw):
        def go(expr, text, pkw):
            tok = XPath31Parser(**pkw).parse(expr)
            return tok.evaluate(XPathContext(variables={'x': text}, **ctx_kw))
        return go

    def by_select(rt):
        def go(expr, text, pkw):
            r = select(rt, expr, parser=XPath31Parser, variables={'x': text}, **pkw)
            return r[0] if isinstance(r, list) and len(r) == 1 else r
        return go

    def by_selector(rt):
        def go(expr, text, pkw):
            r = Selector(expr, parser=XPath31Parser, **pkw).select(rt, variables={'x': text})
            return r[0] if isinstance(r, list) and len(r) == 1 else r
        return go
    return {
        'et:context-root': by_context(root=et_root),
        'et:context-item': by_context(item=et_root[0]),
        'none:bare-item': by_context(item=1),
        'lxml:context-root': by_context(root=lx_root),
        'lxml:context-doc': by_context(root=lx_doc),
        'lxml:context-item': by_context(item=lx_root[0]),
        'et:select': by_select(et_root),
        'lxml:select': by_select(lx_root),
        'lxml:select-doc': by_select(lx_doc),
        'et:selector': by_selector(et_root),
        'lxml:selector': by_selector(lx_root),
    }


_ROUTES = None


def eval_gate(route, fn, text, df):
    """canonical outcome of string(fn($x)) through one route"""
    from elementpath.exceptions import XMLResourceForbidden
    global _ROUTES
    if _ROUTES is None:
        _ROUTES = gate_routes()
    pkw = {} if df == 'D' else {'defuse_xml': df == '1'}
    try:
        r = _ROUTES[route](f'string({fn}($x))', text, pkw)
        return 'ok:' + enc(r if isinstance(r, str) else repr(r))
    except XMLResourceForbidden:
        return 'ERR:forbidden'
    except BaseException as e:
        return canon_exc(e)


def all_routes():
    global _ROUTES
    if _ROUTES is None:
        _ROUTES = gate_routes()
    return list(_ROUTES)


def compare_gate_routes(run: Run, text, df, must, et_outcomes, expands=('EXPANDED', 'boom')):
    """the property through every route: a text that declares an entity is rejected under the default
    settings whatever the backend / entry point; and the defusing verdict does not depend on the route"""
    st = run.stats
    for route in all_routes():
        if route == 'et:context-root':
            continue                         # the reference run (compared with the model by the caller)
        for fn in ('parse-xml', 'parse-xml-fragment'):
            impl = eval_gate(route, fn, text, df)
            st.count('gate-route:' + route)
            ref = et_outcomes[fn]
            spec = None
            if must:
                spec = impl if impl.startswith('ERR:') else 'ERR:(rejected)'
            # defuse_xml runs before the backend's parser: a forbidden verdict is route independent
            forb_mismatch = (ref == 'ERR:forbidden') != (impl == 'ERR:forbidden')
            if (spec is not None and impl != spec) or forb_mismatch:
                run.disagree(Disagreement({'defuse_xml': df, 'xml': text, 'fn': fn, 'route': route}, impl,
                                          ref if forb_mismatch else None, spec=spec, what='entity-gate-route',
                                          site='_xpath30_functions.py ' + fn + ' (context.etree = ' + route.split(':')[0] + ')'))


def compare_xml_text(run: Run, cases):
    from elementpath import XPathContext
    from elementpath.xpath31 import XPath31Parser
    from elementpath.exceptions import XMLResourceForbidden
    st = run.stats
    lines = [f'XMLT defuse={df} declok={int(ok)} text={enc(t)}' for df, (t, ok, _) in cases]
    answers = run.driver('C19', lines)
    for (df, (text, declok, must)), ans in zip(cases, answers):
        case = {'defuse_xml': df, 'xml': text}
        if not ans.startswith('xml='):
            run.disagree(Disagreement(case, 'driver:' + ans, what='protocol'))
            continue
        fs = dict(kv.split('=', 1) for kv in ans.split(' '))
        st.case(case, nontrivial='<!DOCTYPE' in text)
        st.count('xmltext:defuse=' + df)
        st.count('xmltext:' + ('ill-formed-mutation' if must is None else 'entity-declared' if must else 'harmless'))
        if fs['forbidden'] == '1':
            st.count('xmltext:scan-forbidden')
        et_outcomes = {}
        for fn, key in (('parse-xml', 'xml'), ('parse-xml-fragment', 'frag')):
            impl = eval_gate('et:context-root', fn, text, df)
            et_outcomes[fn] = impl
            model = fs[key]
            if fn == 'parse-xml-fragment' and impl.startswith('ok:') and fs['parsed'] == '0':
                continue      # the `<document>` wrapper retry accepts some ill-formed fragments: outside the model
            spec = None
            if df == 'D' and must:
                spec = impl if impl.startswith('ERR:') else 'ERR:(rejected)'
            st.count(f'xmltext:{fn}:' + (impl[:3] if impl.startswith('ok') else impl))
            if impl != model or (spec is not None and impl != spec):
                run.disagree(Disagreement(dict(case, fn=fn), impl, model, spec=spec, what='entity-gate-text',
                                          site='etree.py defuse_xml / _xpath30_functions.py ' + fn))
        if df in ('D', '1') and len(text) < 5000:
            compare_gate_routes(run, text, df, bool(must), et_outcomes)


# ---- phase 5b: the C-library call itself fails (strcoll / strxfrm raise on an embedded NUL) -----------
PRIM_TEMPLATES = [
    ('compare', 'compare($a,$b,$c)'), ('contains', 'contains($a,$b,$c)'), ('starts-with', 'starts-with($a,$b,$c)'),
    ('ends-with', 'ends-with($a,$b,$c)'), ('substring-before', 'substring-before($a,$b,$c)'),
    ('substring-after', 'substring-after($a,$b,$c)'), ('index-of', "index-of(($a,'x'),$b,$c)"),
    ('index-of-late', "index-of(('p','q',$a),$b,$c)"), ('distinct-values', 'distinct-values(($a,$b),$c)'),
    ('distinct-values-late', "distinct-values(('p','q','p',$a,$b),$c)"), ('deep-equal', 'deep-equal(($a),($b),$c)'),
    ('min', 'min(($a,$b),$c)'), ('max', 'max(($a,$b),$c)'), ('sort', 'sort(($a,$b),$c)'),
    ('contains-token', 'contains-token($a,$b,$c)'), ('collation-key', 'collation-key($a,$c)'),
    ('nested', "compare($a, string(compare('p','q',$c)), $c)"),
    ('for', "for $x in ('p',$a) return compare($x,$b,$c)"),
]
NUL_STRINGS = ['x\0y', '\0', 'a\0', '\0z']


def prim_eval(expr, variables):
    import elementpath
    from elementpath.xpath31 import XPath31Parser
    try:
        r = elementpath.select(root(), expr, parser=XPath31Parser, variables=variables)
        return 'ok', r
    except BaseException as e:
        from elementpath.exceptions import ElementPathError
        return ('ERR:' + type(e).__name__ if not isinstance(e, ElementPathError) else canon_exc(e)), None


class _RealCounting:
    """the real C library with the calls counted (no stub): which comparison raised"""
    def __init__(self):
        self.outcomes = []

    def strcoll(self, a, b):
        try:
            r = _REAL_STRCOLL(a, b)
        except BaseException:
            self.outcomes.append('1')
            raise
        self.outcomes.append('0')
        return r

    def strxfrm(self, s):
        try:
            r = _REAL_STRXFRM(s)
        except BaseException:
            self.outcomes.append('1')
            raise
        self.outcomes.append('0')
        return r


def real_locales():
    """LC_COLLATE names the real C library accepts here, other than the current one"""
    cur = _REAL_SETLOCALE(locale.LC_COLLATE, None)
    out = []
    for n in ['C.UTF-8', 'C.utf8', 'POSIX', 'C', 'en_US.UTF-8', 'de_DE.UTF-8']:
        if n == cur:
            continue
        try:
            _REAL_SETLOCALE(locale.LC_COLLATE, n)
            out.append(n)
        except locale.Error:
            pass
        finally:
            _REAL_SETLOCALE(locale.LC_COLLATE, cur)
    return cur, out


def _next_obs(kind, r):
    if kind != 'ok':
        return kind
    r = r[0] if isinstance(r, list) and r else r
    return 'ok:<0' if isinstance(r, int) and r < 0 else f'ok:{r!r}'


def gen_prim_case(rng):
    init = rng.choice(['C', 'C', 'POSIX', 'en_US.UTF-8', 'C.utf8', 'mylocale'])
    loc = rng.choice([l for l in LOCALES + ['C.UTF-8'] if l != init])
    if rng.random() < 0.3:
        lang = rng.choice(['de', 'fr', 'C', 'it_IT', 'sv'])
        coll = UCA + '?lang=' + lang + rng.choice(['', ';fallback=no', ';fallback=yes'])
    else:
        coll = loc
    name, expr = rng.choice(PRIM_TEMPLATES)
    nul = rng.choice(NUL_STRINGS)
    pos = rng.choice('ab')
    other = rng.choice(['z', 'p', ''])
    variables = {'a': nul if pos == 'a' else other, 'b': nul if pos == 'b' else other, 'c': coll}
    if rng.random() < 0.12:
        variables[pos] = 'plain'             # control: nothing raises
    extra = rng.sample(LOCALES, rng.choice([0, 1, 2]))
    return {'init': init, 'coll': coll, 'extra': extra, 'fn': name, 'expr': expr, 'vars': variables, 'real': False}


def compare_primitive_raises(run: Run, cases):
    st = run.stats
    site = 'collations.py CollationManager._locale_call (try/finally around locale.strcoll / strxfrm)'
    obs = []
    for c in cases:
        v = c['vars']
        if c['real']:
            init, eff = c['init'], c['coll']
            cnt = _RealCounting()
            locale.strcoll, locale.strxfrm = cnt.strcoll, cnt.strxfrm
            all0 = _REAL_SETLOCALE(locale.LC_ALL, None)
            try:
                kind, _ = prim_eval(c['expr'], v)
                state = f'{int(lock_held())}#{enc(_REAL_SETLOCALE(locale.LC_COLLATE, None))}'
                k2, r2 = prim_eval("compare('a','b',$c)", {'c': eff})
                state2 = f'{int(lock_held())}#{enc(_REAL_SETLOCALE(locale.LC_COLLATE, None))}'
                all1 = _REAL_SETLOCALE(locale.LC_ALL, None)
            finally:
                uninstall()
                _REAL_SETLOCALE(locale.LC_COLLATE, init)        # a broken tree must not poison what follows
            raises, avail = ''.join(cnt.outcomes), [init, eff]
            nxt = _next_obs(k2, r2)
        else:
            m = impl_manager(c['coll'])
            world0 = World(c['init'], [c['init']] + c['extra'])
            eff = norm_name(m[0], world0) if not isinstance(m, str) and m[0] is not None else None
            if eff is None or eff == c['init']:
                st.count('prim:skipped-no-locale')
                obs.append(None)
                continue
            avail = sorted({c['init'], eff, *c['extra']})
            stub = LocaleStub(avail, c['init'], 'C')
            install(stub)
            all0 = _REAL_SETLOCALE(locale.LC_ALL, None)
            try:
                kind, _ = prim_eval(c['expr'], v)
                state = f'{int(lock_held())}#{enc(stub.cur)}'
                notes = [e for e in stub.log if e[0].startswith('@')]
                raised = getattr(stub, 'raised', 0)
                k2, r2 = prim_eval("compare('a','b',$c)", {'c': c['coll']})
                state2 = f'{int(lock_held())}#{enc(stub.cur)}'
                all1 = _REAL_SETLOCALE(locale.LC_ALL, None)
            finally:
                uninstall()
            raises = '0' * (len(notes) - raised) + '1' * min(raised, 1)
            init = c['init']
            nxt = _next_obs(k2, r2)
        obs.append((kind, state, nxt, state2, raises, avail, eff, init, all0 == all1))
    lines, idx = [], []
    for i, (c, o) in enumerate(zip(cases, obs)):
        if o is None:
            continue
        kind, state, nxt, state2, raises, avail, eff, init, _ = o
        lines.append(f'USER init={enc(init)} avail={";".join(enc(a) for a in avail)} eff={enc(eff)} raises={raises or "0"}')
        idx.append(i)
    answers = run.driver('C19', lines)
    for i, ans in zip(idx, answers):
        c, (kind, state, nxt, state2, raises, avail, eff, init, all_same) = cases[i], obs[i]
        case = {'op': 'primitive-raises', 'init': init, 'avail': avail, 'collation': c['coll'], 'expr': c['expr'],
                'variables': c['vars'], 'real_c_library': c['real']}
        if not ans.startswith('model='):
            run.disagree(Disagreement(case, 'driver:' + ans, what='protocol'))
            continue
        fs = dict(kv.split('=', 1) for kv in ans.split(' '))
        st.case(case, nontrivial='1' in raises)
        st.count('prim:fn=' + c['fn'])
        st.count('prim:' + ('real-c-library' if c['real'] else 'stub'))
        st.count('prim:outcome=' + kind)
        st.count('prim:comparisons-before-the-raise=' + (str(raises.index('1')) if '1' in raises else 'no-raise:' + str(len(raises))))
        if kind.startswith('ERR:') and not kind.startswith('ERR:FO') and not kind.startswith('ERR:XP'):
            st.count('prim:bare-python-exception(reported-only)')
        mk = fs['model'].split('#', 1)
        good_next = f'ok:<0#0#{enc(init)}'
        impl = f'{kind}#{state}|next={nxt}#{state2}'
        model = f'{fs["model"]}|next={good_next}'
        spec = f'{kind}#{fs["spec"]}|next={good_next}'
        if impl != model or impl != spec:
            run.disagree(Disagreement(case, impl, model, spec=spec, what='locale-after-raising-primitive', site=site))
        if not all_same:
            run.disagree(Disagreement(dict(case, part='LC_ALL'), 'changed', 'same', spec='same',
                                      what='setlocale(LC_ALL)-after-raising-primitive', site=site))


def correspond_primitive(run: Run):
    rng = run.rng
    cases = []
    for name, expr in PRIM_TEMPLATES:          # seed corpus: every function, NUL on either side, stub world C / C.UTF-8
        for pos in 'ab':
            v = {'a': 'z', 'b': 'z', 'c': 'C.UTF-8'}
            v[pos] = 'x\0y'
            cases.append({'init': 'C', 'coll': 'C.UTF-8', 'extra': [], 'fn': name, 'expr': expr, 'vars': v, 'real': False})
    cases += [gen_prim_case(rng) for _ in range(run.scale(150, 2000))]
    cur, locs = real_locales()
    run.stats.extra['real_locales_for_primitive_raises'] = {'current': cur, 'other': locs}
    for loc in locs[:3]:
        for name, expr in PRIM_TEMPLATES:
            for pos in 'ab':
                v = {'a': 'z', 'b': 'p', 'c': loc}
                v[pos] = rng.choice(NUL_STRINGS)
                cases.append({'init': cur, 'coll': loc, 'extra': [], 'fn': name, 'expr': expr, 'vars': v, 'real': True})
    compare_primitive_raises(run, cases)


# ---- phase 5: the XML declaration's pseudo-attributes (XmlDecl.parse / scanPrologX) ------------------
DECL_ENC = {'ok': ['utf-8', 'UTF-8', 'Utf-8', 'US-ASCII', 'iso-8859-1', 'latin-1', 'ascii', 'cp1252', 'utf8', 'LATIN1'],
            'wrong': ['UTF-16', 'utf-16'],
            'multibyte': ['big5', 'UTF-32', 'shift_jis', 'EUC-JP'],
            'unknown': ['x-foo', 'standalone-yes', 'ebcdic-c19', 'a', 'U.T_F', 'version']}
DECL_TAILS = [('root', '<r>t</r>', False),
              ('ext-doctype', '<!DOCTYPE r SYSTEM "file:///nonexistent-c19.dtd"><r>t</r>', False),
              ('entity', '<!DOCTYPE r [<!ENTITY e "EXPANDED">]><r>&e;</r>', True),
              ('misc-entity', '\n<!-- c --><!DOCTYPE r [<!ENTITY e "EXPANDED">]><r>&e;</r>', True)]
DECL_SEEDS = [
    ('<?xml version="1.0" encoding="x-foo"?><r>t</r>', True),      # F19e (fixed): FODC0006, not a bare LookupError
    ('<?xml version="1.0" encoding="x-foo"?><!DOCTYPE r [<!ENTITY e "EXPANDED">]><r>&e;</r>', True),
    # (text, grammatical declaration?)  -- the second one defeated the phase-2 scanner's `standalone`..`yes` search
    ('<?xml version="1.0"?><r>t</r>', True),
    ('<?xml version="1.0" encoding="standalone-yes"?><!DOCTYPE r SYSTEM "file:///nonexistent-c19.dtd"><r>t</r>', True),
    ('<?xml version="1.0" encoding="utf-8" standalone="yes"?><!DOCTYPE r SYSTEM "file:///nonexistent-c19.dtd"><r>t</r>', True),
    ('<?xml version="1.0" encoding="utf-8" standalone="no"?><!DOCTYPE r SYSTEM "file:///nonexistent-c19.dtd"><r>t</r>', True),
    ("<?xml\tversion = '1.1'\n encoding\n=\n'US-ASCII'  standalone='no'\r\n?><r>t</r>", True),
    ('<?xml version="1.0" standalone="yes" encoding="utf-8"?><r>t</r>', False),
    ('<?xml version="1.0"encoding="utf-8"?><r>t</r>', False),
    ('<?xml version="1.0" standalone="maybe"?><r>t</r>', False),
    ('<?xml encoding="utf-8"?><r>t</r>', False),
    ('<?xml version="1.0" encoding="8bit"?><r>t</r>', False),
    ('<?xml version="1.0" foo?><r>t</r>', False),
    ('<?xml version="1.0" ? ?><r>t</r>', False),
    ('<?xml version="1.0\'?><r>t</r>', False),
    ('<?xml version="2.x"?><r>t</r>', False),       # not grammatical [26], accepted by expat (laxVersion)
    ('<?xml version="1.0" encoding="big5"?><r>t</r>', True),
    ('<?xml version="1.0" encoding="UTF-16"?><r>t</r>', True),
    ('<?xml version="1.0" standalone="yes"?><!DOCTYPE r [<!ENTITY e "EXPANDED">]><r>&e;</r>', True),
]


def gen_decl_case(rng):
    """(text, info): an XML declaration derived from the grammar [23]-[32],[80],[81] (random white space,
    quotes, values) or a near miss of one, followed by a root / external DOCTYPE / entity-declaring tail.
    info: kind, expected values and grammaticality when the text was derived (None for near misses)"""
    def S(allow_empty=False):
        n = rng.choice([0, 0, 1] if allow_empty else [1, 1, 1, 2, 3])
        return ''.join(rng.choice(' \t\n\r') for _ in range(n))

    def attr(kw, val):
        q = rng.choice('"\'')
        return [S(), kw, S(True), '=', S(True), q, val, q]
    ver = rng.choice(['1.0', '1.0', '1.0', '1.1', '1.10', '1.007'] if rng.random() < 0.8 else
                     ['2.0', '1.', '', '1.0a', 'x_y-z', '10', '1.0.0'])
    gram = ver.startswith('1.') and ver[2:].isdigit() and ver.isascii()
    parts = [attr('version', ver)]
    encv = sdv = None
    if rng.random() < 0.6:
        cls = rng.choice(['ok', 'ok', 'ok', 'ok', 'wrong', 'multibyte', 'unknown'])
        encv = rng.choice(DECL_ENC[cls])
        parts.append(attr('encoding', encv))
    if rng.random() < 0.5:
        sdv = rng.choice(['yes', 'no'])
        parts.append(attr('standalone', sdv))
    trail = S(True)
    info = {'kind': 'derived', 'gram': gram,
            'values': f'V:{ver},E:{encv or "-"},S:{ {"yes": "y", "no": "n", None: "-"}[sdv] }'}
    head = '<?xml'
    if rng.random() < 0.45:
        info = {'kind': None, 'gram': None, 'values': None}
        m = rng.choice(['no-space', 'swap', 'dup', 'upper-kw', 'quote-mismatch', 'bad-value-char', 'bad-sd', 'bad-encname',
                        'no-eq', 'junk', 'no-version', 'head', 'char-edit', 'char-edit', 'unquoted', 'unknown-attr'])
        i = rng.randrange(len(parts))
        if m == 'no-space':
            parts[i][0] = ''
        elif m == 'swap' and len(parts) > 1:
            j = rng.randrange(len(parts) - 1)
            parts[j], parts[j + 1] = parts[j + 1], parts[j]
        elif m == 'dup':
            parts.insert(i, list(parts[i]))
        elif m == 'upper-kw':
            parts[i][1] = rng.choice([parts[i][1].upper(), parts[i][1].capitalize(), parts[i][1] + 'x', parts[i][1][:-1]])
        elif m == 'quote-mismatch':
            parts[i][7] = '"' if parts[i][5] == "'" else "'"
        elif m == 'unquoted':
            parts[i][5] = parts[i][7] = ''
        elif m == 'bad-value-char':
            v = parts[i][6]
            k = rng.randrange(len(v) + 1)
            parts[i][6] = v[:k] + rng.choice(' +/:;,=<&?') + v[k:]
        elif m == 'bad-sd':
            parts.append(attr('standalone', rng.choice(['maybe', 'YES', 'No', '', 'true', 'yes.', 'y'])))
        elif m == 'bad-encname':
            parts.insert(1, attr('encoding', rng.choice(['8bit', '-utf', '', '.x', '_a', '1']))) if encv is None else None
        elif m == 'no-eq':
            parts[i][3] = rng.choice(['', '==', ':'])
        elif m == 'junk':
            trail += rng.choice(['foo', '?', 'x="1"', '=', '"', 'standalone'])
        elif m == 'no-version':
            parts = parts[1:]
        elif m == 'head':
            head = rng.choice(['<?XML', '<?xmlx', ' <?xml', '<?xml?', '<? xml', '<?Xml'])
        else:
            m = 'char-edit'
        info['kind'] = m
        body = ''.join(''.join(p) for p in parts) + trail
        if m == 'char-edit':
            k = rng.randrange(len(body) + 1)
            c = rng.choice(' "\'=?>vxyes-.1aE\t')
            e = rng.random()
            body = body[:k] + c + body[k:] if e < 0.34 else body[:k] + body[k + 1:] if e < 0.67 else body[:k] + c + body[k + 1:]
    else:
        body = ''.join(''.join(p) for p in parts) + trail
    tname, tail, must = rng.choice(DECL_TAILS)
    info['tail'], info['must'] = tname, must
    return head + body + '?>' + tail, info


_ENC_CLASS = {}


def py_enc_class(name: str) -> str:
    """what the byte parser of the running Python does with this encoding name on UTF-8 bytes of ASCII text"""
    from xml.etree import ElementTree
    if name not in _ENC_CLASS:
        try:
            ElementTree.XML(f'<?xml version="1.0" encoding="{name}"?><r/>'.encode('utf-8'))
            _ENC_CLASS[name] = 'ok'
        except ElementTree.ParseError:
            _ENC_CLASS[name] = 'wrong'
        except LookupError:
            _ENC_CLASS[name] = 'unknown'
        except ValueError:
            _ENC_CLASS[name] = 'multibyte'
    return _ENC_CLASS[name]


def expat_decl(text: str):
    """oracle: expat on the characters (encoding overridden, as for str input): the XmlDeclHandler's values,
    or 'bad' when expat reports XML_ERROR_XML_DECL, '-' when it saw no XML declaration"""
    import xml.parsers.expat as expat
    p = expat.ParserCreate()
    got = []
    p.XmlDeclHandler = lambda v, e, s: got.append((v, e, s))
    code = 0
    try:
        p.Parse(text, True)
    except expat.ExpatError as e:
        code = e.code
    if got:
        v, e, s = got[0]
        return f'V:{v},E:{e if e is not None else "-"},S:{ {1: "y", 0: "n", -1: "-"}[s] }'
    return 'bad' if code == 30 else '-'


def compare_xml_decl(run: Run, cases):
    st = run.stats
    def oracle_cls(t):
        """class of the declared encoding in the running interpreter (used by the model only for names outside
        its table)"""
        d = expat_decl(t)
        name = d.split(',')[1][2:] if d.startswith('V:') else '-'
        return py_enc_class(name) if name != '-' else 'unknown'
    lines = [f'XMLD defuse={df} enccls={oracle_cls(t)} text={enc(t)}' for df, (t, _) in cases]
    answers = run.driver('C19', lines)
    site = '_xpath30_functions.py evaluate__parse_xml: etree.XML(arg.encode("utf-8")) / etree.py defuse_xml'
    for (df, (text, info)), ans in zip(cases, answers):
        case = {'defuse_xml': df, 'xml': text, 'op': 'xmldecl'}
        if not ans.startswith('decl='):
            run.disagree(Disagreement(case, 'driver:' + ans, what='protocol'))
            continue
        fs = dict(kv.split('=', 1) for kv in ans.split(' '))
        good = fs['decl'].startswith('V:')
        st.case(case, nontrivial=True)
        st.count('xmldecl:kind=' + str(info.get('kind')))
        st.count('xmldecl:decl=' + ('good' if good else fs['decl']))
        st.count('xmldecl:tail=' + str(info.get('tail')))
        if good:
            st.count(f'xmldecl:gram={fs["gram"]}')
            st.count('xmldecl:cls=' + fs['cls'])
            st.count('xmldecl:standalone=' + fs['standalone'])
        # (1) the declaration itself: expat's verdict and values = model's; derived texts: = the derivation
        oracle = expat_decl(text)
        spec = info.get('values') if info.get('kind') == 'derived' else None
        if oracle != fs['decl'] or (spec is not None and oracle != spec):
            run.disagree(Disagreement(dict(case, part='declaration'), oracle, fs['decl'], spec=spec,
                                      what='xmldecl-values', site='expat doParseXmlDecl (oracle) / XmlDecl.parse'))
        if good and (fs['rt'] != '1' or fs['expat'] != '1'):
            run.disagree(Disagreement(dict(case, part='roundtrip'), 'rt=1 expat=1', f'rt={fs["rt"]} expat={fs["expat"]}',
                                      what='xmldecl-render', site='XmlDeclGrammar.render'))
        if info.get('kind') == 'derived' and good and fs['gram'] != str(int(info['gram'])):
            run.disagree(Disagreement(dict(case, part='grammatical'), str(int(info['gram'])), fs['gram'],
                                      what='xmldecl-grammatical', site='XmlDeclGrammar.grammatical'))
        if good and fs['cls'] != '-':
            st.count('xmldecl:encoding-name=' + ('in-table' if fs.get('intable') == '1' else 'oracle'))
            name = fs['decl'].split(',')[1][2:]
            if py_enc_class(name) != fs['cls']:       # in-table names: the kernel-checked table = the live interpreter
                run.disagree(Disagreement(dict(case, part='encoding-table', name=name), py_enc_class(name), fs['cls'],
                                          what='xmldecl-encoding-class', site='XmlDecl.encClass'))
        # (2) fn:parse-xml on the whole text
        impl = eval_gate('et:context-root', 'parse-xml', text, df)
        model = fs['xml']
        st.count('xmldecl:parse-xml:' + (impl[:3] if impl.startswith('ok') else impl))
        spec, tags = None, []
        if fs['rawenc'] == '1':
            st.count('xmldecl:unusable-encoding')
            spec = 'ERR:FODC0006'          # F19e (fixed by fix-c19-5): an ordinary ill-formed document
        elif df in ('D', '1') and info.get('must') and good:
            spec = impl if impl.startswith('ERR:') else 'ERR:(rejected)'
        if impl != model or (spec is not None and impl != spec):
            run.disagree(Disagreement(dict(case, fn='parse-xml'), impl, model, spec=spec, what='xmldecl-parse-xml',
                                      site=site, tags=tags if impl == model else []))


def search_xml_decl(sub: Run):
    """real code against expat and the derivations alone: the seed declarations through fn:parse-xml"""
    n = 0
    for text, wf in DECL_SEEDS:
        oracle = expat_decl(text)
        impl = eval_gate('et:context-root', 'parse-xml', text, '0')
        n += 1
        name = oracle.split(',')[1][2:] if oracle.startswith('V:') else '-'
        usable = name == '-' or py_enc_class(name) == 'ok'
        want_ok = oracle.startswith('V:') and usable
        if impl.startswith('ok:') != want_ok or (not want_ok and impl != 'ERR:FODC0006'):
            sub.disagree(Disagreement({'defuse_xml': '0', 'xml': text, 'op': 'xmldecl'}, impl, None,
                                      spec='ok:(document)' if want_ok else 'ERR:FODC0006', what='xmldecl-parse-xml'))
    return n


def correspond_gates(run: Run):
    rng = run.rng
    env_cases = [('D', {'C19_SECRET': 's3cr3t'}, 'C19_SECRET'), ('1', {'C19_SECRET': 's3cr3t'}, 'C19_SECRET')] + \
                [gen_env_case(rng) for _ in range(run.scale(120, 1200))]
    compare_env(run, env_cases)
    seed_docs = [
        (False, 0, (False, [('e', 'e', 'EXPANDED')]), [('r', 'e')]),
        (False, 1, (False, [('e', 'e', 'EXPANDED')]), [('r', 'e')]),     # comment before DOCTYPE (fragment check bypass)
        (True, 0, (False, [('p', 'pe')]), [('t', 't')]),
        (False, 0, (True, []), [('t', 't')]),
        (False, 0, (False, [('u', 'ue'), ('N',)]), []),
        (False, 0, (False, [('E',), ('A',)]), [('c', '<')]),
        (False, 0, None, [('r', 'undeclared')]),
    ]
    xml_cases = [(df, d) for d in seed_docs for df in ('D', '0', '1')] + \
                [(rng.choice(['D', 'D', '0', '1']), gen_doc(rng)) for _ in range(run.scale(300, 3000))]
    compare_xml(run, xml_cases)
    text_cases = [(df, t) for t in SEED_TEXTS for df in ('D', '0')] + \
                 [(rng.choice(['D', 'D', 'D', '0', '1']), gen_text_case(rng)) for _ in range(run.scale(400, 6000))]
    compare_xml_text(run, text_cases)
    decl_cases = [(df, (t, {'kind': 'seed', 'tail': 'seed', 'must': 'ENTITY' in t})) for t, _ in DECL_SEEDS for df in ('D', '0')] + \
                 [(rng.choice(['D', 'D', '0', '1']), gen_decl_case(rng)) for _ in range(run.scale(400, 5000))]
    compare_xml_decl(run, decl_cases)


# ----------------------------------------------------------------------------------- search
def search(run: Run):
    """exhaustive small scope on the real code against the spec: every history of one or two
    evaluations over a 9-collation alphabet x {flat, body raises, nested under a locale scope,
    nested under a no-locale scope} x 8 availability configurations"""
    sub = Run(PROP, run.tier, run.seed)
    alphabet = [CODEPOINT, None, UCA, UCA + '?lang=de;fallback=no', UCA + '?lang=de;fallback=yes',
                'de_DE.UTF-8', 'zz_ZZ', '', UCA + '?lang=fr']
    worlds = [World('C', []), World('C', ['en_US.UTF-8']), World('C', ['de_DE.UTF-8']),
              World('C', ['de_DE.UTF-8', 'en_US.UTF-8', 'fr_FR.UTF-8']), World('en_US.UTF-8', ['de_DE.UTF-8']),
              World('en_US', ['de_DE.UTF-8']), World('mylocale', ['en_US.UTF-8']), World('POSIX', ['fr_FR.UTF-8'])]

    def shapes(c):
        yield Ev(c)
        yield Ev(c, raises=True, kind='index-of')
        yield Ev(c, [Ev('de_DE.UTF-8')], kind='contains-token')
        yield Ev(CODEPOINT, [Ev(c)], kind='index-of')
    cases = []
    for w in worlds:
        firsts = [s for c in alphabet for s in shapes(c)]
        for f in firsts:
            for c2 in alphabet:
                cases.append((w, [f, Ev(c2)]))
    done = 0
    for i in range(0, len(cases), 300):
        compare_histories(sub, cases[i:i + 300])
        done = min(len(cases), i + 300)
        if any(d.kind == 'violation' and not d.tags for d in sub.disagreements):
            break                                  # a failing input is in hand
    # the gate corpus through every backend / entry point, against the spec alone
    ngate = 0
    for text, declok, must in SEED_TEXTS:
        if not must or len(text) > 5000:
            continue
        ets = {}
        for fn in ('parse-xml', 'parse-xml-fragment'):
            ets[fn] = eval_gate('et:context-root', fn, text, 'D')
            if not ets[fn].startswith('ERR:'):
                sub.disagree(Disagreement({'defuse_xml': 'D', 'xml': text, 'fn': fn, 'route': 'et:context-root'}, ets[fn],
                                          None, spec='ERR:(rejected)', what='entity-gate-route'))
        compare_gate_routes(sub, text, 'D', True, ets)
        ngate += 1
    ndecl = search_xml_decl(sub)
    run.notes.append(f'search: {ndecl} seed XML declarations through fn:parse-xml against expat')
    run.notes.append(f'search: {ngate} entity-declaring gate texts x {len(all_routes())} routes x 2 functions')
    run.notes.append(f'search: {done} of {len(cases)} exhaustive small-scope histories on the real code, '
                     f'{len(sub.disagreements)} disagreements')
    return sub.disagreements


def shrink(d: Disagreement) -> Disagreement:
    """histories are reported as the prefix up to the first failing evaluation; drop leading
    evaluations while the same disagreement kind persists"""
    case = d.case
    if not isinstance(case, dict) or 'history' not in case:
        return d
    world = World.from_json(case['world'])
    evs = [Ev.from_json(j) for j in case['history']]
    best = d
    changed = True
    while changed and len(evs) > 1:
        changed = False
        for i in range(len(evs) - 1):
            trial = evs[:i] + evs[i + 1:]
            sub = Run(PROP, 'quick', 0)
            compare_histories(sub, [(world, trial)])
            hits = [x for x in sub.disagreements if x.kind == d.kind and x.what == d.what and x.tags == d.tags]
            if hits:
                evs, best, changed = trial, hits[0], True
                break
    return best


# -------------------------------------------------------------------------------- translate
MUT_CALLS = {'dict', 'list', 'set', 'defaultdict', 'OrderedDict', 'Counter', 'deque', 'WeakValueDictionary',
             'WeakKeyDictionary', 'bytearray'}
MUT_METHODS = {'append', 'extend', 'insert', 'pop', 'remove', 'clear', 'update', 'add', 'discard', 'setdefault',
               'popitem', 'appendleft', 'sort', 'reverse'}
DEC_GLOBAL = {'getcontext', 'setcontext', 'localcontext', 'DefaultContext', 'BasicContext', 'ExtendedContext'}
DEC_NAMES = DEC_GLOBAL | {'Context'}

# the translator's fixed battery (deterministic: the generated table must not depend on the seed)
BATTERY = [
    "matches('aB', '\\p{Lu}\\p{IsGreek}?')", "replace('abc','[\\p{L}-[b]]','x')", "tokenize('a b','\\s')", "//b[1]",
    "count(//b)", "xs:decimal('1.1') div 3", "format-number(12.5,'#.0')", "string(parse-xml('<r>t</r>'))", "map{'a':1}?a",
    "array{1,2}(1)", "xs:date('2020-01-01') + xs:dayTimeDuration('P1D')", "compare('a','b')", "'a' instance of xs:string",
    "1 instance of xs:integer+", "sort((3,1,2))", "analyze-string('ab','a')", "xs:NMTOKENS('a b')",
    "json-to-xml('{\"a\":1}')", "format-integer(5,'w')", "string-join(('a','b'),'-')", "environment-variable('HOME')",
    "xs:language('en')", "normalize-unicode('a')", "upper-case('a')", "5 castable as xs:byte", "(1,2)[. gt 1]",
    "for $x in (1,2) return $x * 2", "let $f := function($a){$a+1} return $f(1)",
    "fold-left((1,2),0,function($a,$b){$a+$b})", "xs:QName('xs:int')", "matches('x','\\i\\c*')", "matches('٣','\\d')",
    "round-half-to-even(2.5)", "distinct-values(('a','b','a'))", "index-of(('a','b'),'b')", "deep-equal((1,'a'),(1,'a'))",
    "contains-token('a b','b')", "collation-key('a')", "current-date() gt xs:date('2000-01-01')", "1 div 0",
]


def _qualname_map(tree):
    """ast node -> qualified name of the innermost enclosing function/class ('<module>' at top level)"""
    import ast
    out = {}

    def walk(node, qn):
        for ch in ast.iter_child_nodes(node):
            q = qn
            if isinstance(ch, (ast.FunctionDef, ast.AsyncFunctionDef, ast.ClassDef)):
                q = ch.name if qn == '<module>' else qn + '.' + ch.name
            out[ch] = q if not isinstance(ch, (ast.FunctionDef, ast.AsyncFunctionDef, ast.ClassDef)) else qn
            walk(ch, q)
    walk(tree, '<module>')
    return out


def scan_sources(pkg_root: Path) -> dict:
    """static facts over the package AST (every .py file under elementpath/)"""
    import ast
    facts = {k: set() for k in ('setlocale_set', 'setlocale_query', 'lock_bare', 'lock_with', 'decimal_ctx',
                                'decimal_private_ctx',
                                'environ_write', 'environ_read', 'get_locale_category_calls')}
    static_writers = []
    nfiles = 0
    for path in sorted(pkg_root.rglob('*.py')):
        nfiles += 1
        mod = '.'.join(path.relative_to(pkg_root.parent).with_suffix('').parts)
        tree = ast.parse(path.read_text())
        qn = _qualname_map(tree)
        parents = {}
        for n in ast.walk(tree):
            for ch in ast.iter_child_nodes(n):
                parents[ch] = n
        glob = {}

        def mut_kind(v):
            if isinstance(v, (ast.Dict, ast.List, ast.Set, ast.DictComp, ast.ListComp, ast.SetComp)):
                return type(v).__name__
            if isinstance(v, ast.Call):
                f = v.func
                n = f.id if isinstance(f, ast.Name) else f.attr if isinstance(f, ast.Attribute) else None
                if n in MUT_CALLS:
                    return 'call:' + n
            return None

        def targets(node):
            if isinstance(node, ast.Assign):
                return [t for t in node.targets if isinstance(t, ast.Name)], node.value
            if isinstance(node, ast.AnnAssign) and node.value is not None and isinstance(node.target, ast.Name):
                return [node.target], node.value
            return [], None
        for node in tree.body:
            tg, val = targets(node)
            for t in tg:
                if mut_kind(val):
                    glob[t.id] = mut_kind(val)
            if isinstance(node, ast.ClassDef):
                for cn in node.body:
                    tg, val = targets(cn)
                    for t in tg:
                        if mut_kind(val):
                            glob[node.name + '.' + t.id] = mut_kind(val)
        attr_names = {g.split('.', 1)[1] for g in glob if '.' in g}
        writers = {}
        for n in ast.walk(tree):
            where = qn.get(n, '<module>')
            if isinstance(n, (ast.FunctionDef, ast.AsyncFunctionDef)):
                me = n.name if where == '<module>' else where + '.' + n.name
                if any(ast.unparse(d).split('(')[0].split('.')[-1] in ('lru_cache', 'cache')
                       for d in n.decorator_list):       # process-wide memo (cached_property is per instance)
                    writers.setdefault(n.name, set()).add('<memo decorator>')
                for i, dv in enumerate(list(n.args.defaults) + [d for d in n.args.kw_defaults if d is not None]):
                    if mut_kind(dv):
                        writers.setdefault(f'{me}(default#{i})', set()).add(me)
            if isinstance(n, ast.Assign) and where != '<module>':
                for t in n.targets:      # f.attr = {} / cls.attr = {} : a container hung on a function or class
                    if isinstance(t, ast.Attribute) and isinstance(t.value, ast.Name) and \
                            t.value.id not in ('self',) and mut_kind(n.value) and t.value.id in ('cls',):
                        writers.setdefault('*.' + t.attr, set()).add(where)
            if isinstance(n, ast.Global):
                for nm in n.names:
                    glob.setdefault(nm, 'rebound')
                    writers.setdefault(nm, set()).add(where)
            if where == '<module>':
                pass
            # NAME[..] = / del NAME[..] / NAME += .. / X.attr[..] = ..   inside functions
            if isinstance(n, (ast.Assign, ast.AugAssign, ast.Delete)) and where != '<module>':
                ts = n.targets if isinstance(n, (ast.Assign, ast.Delete)) else [n.target]
                for t in ts:
                    base = t.value if isinstance(t, ast.Subscript) else t if isinstance(n, ast.AugAssign) else None
                    if isinstance(base, ast.Name) and base.id in glob:
                        writers.setdefault(base.id, set()).add(where)
                    if isinstance(base, ast.Attribute) and base.attr in attr_names and \
                            isinstance(base.value, ast.Name) and base.value.id != 'self':
                        writers.setdefault('*.' + base.attr, set()).add(where)
            if isinstance(n, ast.Call) and isinstance(n.func, ast.Attribute) and where != '<module>':
                f = n.func
                if f.attr in MUT_METHODS:
                    if isinstance(f.value, ast.Name) and f.value.id in glob:
                        writers.setdefault(f.value.id, set()).add(where)
                    if isinstance(f.value, ast.Attribute) and f.value.attr in attr_names and \
                            isinstance(f.value.value, ast.Name) and f.value.value.id != 'self':
                        writers.setdefault('*.' + f.value.attr, set()).add(where)
            # --- named call sites
            if isinstance(n, ast.Call):
                f = n.func
                name = f.attr if isinstance(f, ast.Attribute) else f.id if isinstance(f, ast.Name) else None
                if name in ('setlocale', '_setlocale'):
                    is_set = len(n.args) >= 2 and not (isinstance(n.args[1], ast.Constant) and n.args[1].value is None)
                    is_set = is_set or any(k.arg == 'locale' for k in n.keywords)
                    facts['setlocale_set' if is_set else 'setlocale_query'].add((mod, where))
                if name in ('getlocale', 'getdefaultlocale', 'getpreferredencoding'):
                    facts['setlocale_query'].add((mod, where))
                if name == 'get_locale_category':
                    facts['get_locale_category_calls'].add((mod, where))
                if name in ('putenv', 'unsetenv'):
                    facts['environ_write'].add((mod, where))
            if isinstance(n, ast.Attribute) and n.attr in ('acquire', 'release') and \
                    isinstance(n.value, ast.Name) and n.value.id == '_locale_collate_lock':
                facts['lock_bare'].add((mod, where))
            if isinstance(n, ast.With):
                for it in n.items:
                    if isinstance(it.context_expr, ast.Name) and it.context_expr.id == '_locale_collate_lock':
                        facts['lock_with'].add((mod, where))
            ident = n.id if isinstance(n, ast.Name) else n.attr if isinstance(n, ast.Attribute) else None
            if ident in DEC_NAMES:
                if ident not in DEC_GLOBAL:
                    facts['decimal_private_ctx'].add((mod, where))
                else:
                    # `with [decimal.]localcontext() as ctx: <leaf body>` swaps the thread's context for the
                    # body and restores it on every exit path: "scoped" when the mention is the callee of a
                    # With item and the body neither suspends (yield / await) nor calls back into evaluation
                    kind = 'unscoped'
                    call = parents.get(n)
                    w = parents.get(parents.get(call)) if isinstance(call, ast.Call) and call.func is n else None
                    if ident == 'localcontext' and isinstance(w, ast.With) and \
                            any(it.context_expr is call for it in w.items):
                        body_nodes = [x for st in w.body for x in ast.walk(st)]
                        suspends = any(isinstance(x, (ast.Yield, ast.YieldFrom, ast.Await)) for x in body_nodes)
                        reenters = any(isinstance(x, ast.Call) and isinstance(x.func, ast.Attribute) and
                                       x.func.attr in ('evaluate', 'select', 'get_argument', 'iter_select',
                                                       'get_results', 'atomization', 'select_results')
                                       for x in body_nodes)
                        kind = 'scoped' if not (suspends or reenters) else 'scoped-but-suspends-or-reenters'
                    facts['decimal_ctx'].add((mod, where, ident, kind))
            if isinstance(n, ast.ImportFrom) and n.module == 'decimal':
                pass
            if isinstance(n, ast.Attribute) and n.attr == 'environ':
                par = parents.get(n)
                write = False
                if isinstance(par, ast.Subscript) and isinstance(par.ctx, (ast.Store, ast.Del)):
                    write = True
                if isinstance(par, ast.Attribute) and par.attr in MUT_METHODS | {'__setitem__', '__delitem__'}:
                    write = True
                facts['environ_write' if write else 'environ_read'].add((mod, where))
        for g in sorted(writers):
            static_writers.append((mod, g, sorted(writers[g])))
    return {'facts': {k: sorted(v) for k, v in facts.items()}, 'static_writers': static_writers, 'files': nfiles}



XML_PARSE_CALLEES = {'XML', 'XMLID', 'fromstring', 'fromstringlist', 'parse', 'iterparse', 'XMLPullParser',
                     'parseString', 'ParserCreate', 'feed'}
XML_RECEIVERS = {'etree', 'ElementTree', 'ET', 'lxml_etree', 'pulldom', 'minidom', 'sax', 'expat', 'expatreader',
                 'html'}


def scan_parse_sites(pkg_root: Path) -> list:
    """every call in the package that hands text to an XML parser — `<etree-like>.XML(..)`,
    `.fromstring(..)`, `.parse(..)`, `.iterparse(..)`, `pulldom.parse(..)`, .. — with a syntactic verdict
    on its protection against entity declarations:
      wrapped        the argument is `defuse_xml(..)` itself
      dominated      a `defuse_xml(..)` call precedes it and is nested under no conditional / loop / try that
                     does not also enclose the parse call, other than a test of the `defuse_xml` option
      optout         it is the `else` branch of a test of the `defuse_xml` option (explicit opt-out)
      inside-element the argument is a literal/f-string that starts with a start tag (`<document>{..}`): a DOCTYPE
                     cannot occur in element content
      guard-impl     the scan inside `defuse_xml` itself (parser argument built from SafeExpatParser)
      unguarded      none of these"""
    import ast
    sites = []
    for path in sorted(pkg_root.rglob('*.py')):
        mod = '.'.join(path.relative_to(pkg_root.parent).with_suffix('').parts)
        tree = ast.parse(path.read_text())
        qn = _qualname_map(tree)
        parents = {}
        for n in ast.walk(tree):
            for ch in ast.iter_child_nodes(n):
                parents[ch] = n

        def recv_name(f):
            v = f.value
            if isinstance(v, ast.Name):
                return v.id
            if isinstance(v, ast.Attribute):
                return v.attr           # context.etree.XML -> 'etree'
            return None

        def chain(node):
            """enclosing compound statements up to the function: [(stmt, field)] innermost first"""
            out = []
            cur = node
            while cur in parents:
                par = parents[cur]
                if isinstance(par, (ast.FunctionDef, ast.AsyncFunctionDef, ast.Module, ast.ClassDef)):
                    break
                if isinstance(par, (ast.If, ast.For, ast.While, ast.Try, ast.With, ast.AsyncWith, ast.AsyncFor)):
                    field = next((fld for fld in ('body', 'orelse', 'handlers', 'finalbody')
                                  if cur in (getattr(par, fld, None) or [])), 'test')
                    out.append((par, field))
                elif isinstance(par, ast.ExceptHandler):
                    pass
                cur = par
            return out

        def mentions_option(test):
            return any((isinstance(x, ast.Attribute) and x.attr == 'defuse_xml') or
                       (isinstance(x, ast.Name) and x.id == 'defuse_xml') for x in ast.walk(test))

        def enclosing_function(node):
            cur = node
            while cur in parents:
                cur = parents[cur]
                if isinstance(cur, (ast.FunctionDef, ast.AsyncFunctionDef)):
                    return cur
            return None
        for n in ast.walk(tree):
            if not (isinstance(n, ast.Call) and isinstance(n.func, ast.Attribute)):
                continue
            callee = n.func.attr
            if callee not in XML_PARSE_CALLEES or recv_name(n.func) not in XML_RECEIVERS:
                continue
            where = qn.get(n, '<module>')
            arg = n.args[0] if n.args else None
            kind = 'unguarded'
            fn = enclosing_function(n)
            my_chain = chain(n)
            if fn is not None and fn.name == 'defuse_xml':
                kind = 'guard-impl'
            elif isinstance(arg, ast.Call) and (getattr(arg.func, 'id', None) == 'defuse_xml' or
                                                getattr(arg.func, 'attr', None) == 'defuse_xml'):
                kind = 'wrapped'
            elif any(isinstance(st, ast.If) and fld == 'orelse' and mentions_option(st.test) for st, fld in my_chain):
                kind = 'optout'
            elif isinstance(arg, ast.JoinedStr) and arg.values and isinstance(arg.values[0], ast.Constant) and \
                    str(arg.values[0].value)[:1] == '<' and str(arg.values[0].value)[1:2].isalpha():
                kind = 'inside-element'
            elif isinstance(arg, ast.Constant):
                kind = 'inside-element' if str(arg.value)[:1] == '<' else 'unguarded'
            elif fn is not None:
                mine = {id(st) for st, _ in my_chain}
                for g in ast.walk(fn):
                    if isinstance(g, ast.Call) and (getattr(g.func, 'id', None) == 'defuse_xml' or
                                                    getattr(g.func, 'attr', None) == 'defuse_xml'):
                        if (g.lineno, g.col_offset) >= (n.lineno, n.col_offset):
                            continue
                        extra = [(st, fld) for st, fld in chain(g) if id(st) not in mine]
                        if all(isinstance(st, ast.If) and fld == 'body' and mentions_option(st.test)
                               for st, fld in extra):
                            kind = 'dominated'
            sites.append((mod, where, f'{recv_name(n.func)}.{callee}', kind, n.lineno))
    sites.sort(key=lambda x: (x[0], x[4]))
    return [(m, w, c, k) for m, w, c, k, _ in sites]


def _fingerprint_globals(mods):
    """(module, name) -> fingerprint of every module-level / class-level mutable container and memo cache"""
    import collections
    mut = (dict, list, set, collections.deque, bytearray)

    def fp(v):
        if hasattr(v, 'cache_info'):
            return ('lru', v.cache_info().currsize)
        try:
            if isinstance(v, dict):
                body = repr(sorted(map(repr, v.keys()))) + repr(sorted(repr(x)[:80] for x in v.values()))
            elif isinstance(v, set):
                body = repr(sorted(map(repr, v)))
            else:
                body = repr(v)[:100000]
        except Exception as e:
            body = '?' + type(e).__name__
        return (type(v).__name__, len(v), hashlib.blake2b(body.encode(), digest_size=6).hexdigest())

    def dunder(n):
        return n.startswith('__') and n.endswith('__')
    import types
    out = {}

    def func_state(modname, qual, f):
        """mutable default arguments and function attributes: `def f(x, _memo={})`, `f.cache = {}`"""
        f = getattr(f, '__func__', f)
        if not isinstance(f, types.FunctionType):
            return
        for i, dv in enumerate(list(f.__defaults__ or ()) + list((f.__kwdefaults__ or {}).values())):
            if isinstance(dv, mut):
                out[(modname, f'{qual}(default#{i})')] = fp(dv)
        for a, av in list(vars(f).items()):
            if isinstance(av, mut) and not dunder(a):
                out[(modname, f'{qual}.{a}')] = fp(av)
    for m in mods:
        for n, v in list(vars(m).items()):
            if dunder(n):
                continue
            if isinstance(v, mut) or (callable(v) and hasattr(v, 'cache_info') and
                                      getattr(v, '__module__', None) == m.__name__):
                out[(m.__name__, n)] = fp(v)
            if isinstance(v, types.FunctionType) and v.__module__ == m.__name__:
                func_state(m.__name__, n, v)
            if isinstance(v, type) and v.__module__ == m.__name__:
                for a, av in list(vars(v).items()):
                    if dunder(a) and a not in ('__init__', '__new__', '__call__'):
                        continue
                    if isinstance(av, mut) or (callable(av) and hasattr(av, 'cache_info')):
                        out[(m.__name__, v.__name__ + '.' + a)] = fp(av)
                    func_state(m.__name__, v.__name__ + '.' + a, av)
            elif not isinstance(v, (type, types.ModuleType, types.FunctionType)) and \
                    type(v).__module__.startswith('elementpath') and hasattr(v, '__dict__'):
                # a module-level instance of one of the package's classes: its container attributes
                for a, av in list(vars(v).items()):
                    if isinstance(av, mut):
                        out[(m.__name__, f'{n}.{a}')] = fp(av)
    return out


def dynamic_globals() -> dict:
    """run the fixed battery twice (and once in reverse order) with all four parsers; report which
    module-level objects changed during the first run, during the repetition, and whether every
    expression gave the same canonical result each time"""
    import importlib
    import pkgutil
    import elementpath
    from elementpath import select, XPath1Parser, XPath2Parser
    from elementpath.xpath30 import XPath30Parser
    from elementpath.xpath31 import XPath31Parser
    mods = [elementpath]
    for m in pkgutil.walk_packages(elementpath.__path__, 'elementpath.'):
        try:
            mods.append(importlib.import_module(m.name))
        except Exception:
            pass
    parsers = (XPath1Parser, XPath2Parser, XPath30Parser, XPath31Parser)

    def canon(v):
        if isinstance(v, float):
            return v.hex()
        if isinstance(v, list):
            return [canon(x) for x in v]
        r = repr(v)
        import re as _re
        return _re.sub(r' at 0x[0-9a-f]+', '', r)

    import xml.etree.ElementTree as _ET
    from elementpath import Selector, XPathContext
    nsdoc = _ET.XML('<a xmlns:u1="urn:one" xmlns:u2="urn:two"><u1:b>one</u1:b><u2:b>two</u2:b></a>')
    # the same expression under different options: anything cached across calls must be keyed by them
    CONFIGS = [
        ('plain', {}, {}),
        ('xsd11', {'xsd_version': '1.1'}, {}),
        ('ns1', {'namespaces': {'p': 'urn:one'}}, {}),
        ('ns2', {'namespaces': {'p': 'urn:two'}}, {}),
        ('tz', {}, {'timezone': '+05:00'}),
    ]
    CONFIG_EXPRS = [
        "matches('ab', '^\\p{L}+$')", "matches('a', 'a', 'i')", "replace('aXb', 'x', '-', 'i')", "tokenize('a,b', ',')",
        "xs:date('0000-01-01') lt xs:date('0001-01-01')", "string(//p:b)", "count(//p:b)",
        "xs:dateTime('2000-01-01T12:00:00+02:00') - xs:dateTime('2000-01-01T12:00:00')",
        "xs:time('10:00:00-08:00') eq xs:time('18:00:00Z')", "adjust-time-to-timezone(xs:time('10:00:00Z'))",
        "implicit-timezone()", "xs:dateTimeStamp('2000-01-01T00:00:00Z') instance of xs:dateTime",
        "format-dateTime(xs:dateTime('2000-01-01T12:00:00+01:00'), '[H]:[m] [z]')",
    ]

    def run_battery(order):
        res = {}
        for P in parsers:
            for e in order:
                if 'current-date' in e:
                    continue
                try:
                    res[(P.__name__, e)] = canon(select(root(), e, parser=P))
                except BaseException as ex:
                    res[(P.__name__, e)] = canon_exc(ex)
        rev = order is not BATTERY
        for name, pkw, ckw in (CONFIGS[::-1] if rev else CONFIGS):
            for P in (XPath2Parser, XPath31Parser):
                for e in (CONFIG_EXPRS[::-1] if rev else CONFIG_EXPRS):
                    pk = dict(pkw)
                    ns = pk.pop('namespaces', None)
                    for api in ('select', 'selector', 'evaluate'):
                        try:
                            if api == 'select':
                                v = select(nsdoc, e, namespaces=ns, parser=P, **pk, **ckw)
                            elif api == 'selector':
                                sel = Selector(e, namespaces=ns, parser=P, **pk)
                                v = [sel.select(nsdoc, **ckw), list(sel.iter_select(nsdoc, **ckw))]   # same object twice
                            else:
                                v = P(namespaces=ns, **pk).parse(e).evaluate(XPathContext(nsdoc, **ckw))
                            res[(P.__name__, name, api, e)] = canon(v)
                        except BaseException as ex:
                            res[(P.__name__, name, api, e)] = canon_exc(ex)
        return res
    s0 = _fingerprint_globals(mods)
    r1 = run_battery(BATTERY)
    s1 = _fingerprint_globals(mods)
    r2 = run_battery(BATTERY)
    r3 = run_battery(BATTERY[::-1])
    s2 = _fingerprint_globals(mods)
    first = sorted(k for k in set(s0) | set(s1) if s0.get(k) != s1.get(k))
    second = sorted(k for k in set(s1) | set(s2) if s1.get(k) != s2.get(k))
    differ = sorted(f'{k[0]}: {k[1]}' for k in r1 if r1[k] != r2.get(k) or r1[k] != r3.get(k))
    return {'count': len(s0), 'written_first_run': first, 'written_second_run': second, 'results_differ': differ,
            'battery': len(r1)}


def _lean_str(x: str) -> str:
    return '"' + x.replace('\\', '\\\\').replace('"', '\\"') + '"'


def _lean_pairs(l) -> str:
    return '[' + ', '.join(f'({_lean_str(a)}, {_lean_str(b)})' for a, b in l) + ']'


def translate(run: Run) -> dict:
    import inspect
    from harness.common import REPO
    from elementpath import XPathContext, collations
    from elementpath.xpath30 import XPath30Parser
    from elementpath.xpath31 import XPath31Parser
    allow = inspect.signature(XPathContext.__init__).parameters['allow_environment'].default
    defuse = bool(XPath30Parser().defuse_xml) and bool(XPath31Parser().defuse_xml)
    lk = getattr(collations, '_locale_collate_lock', None)
    reentrant = type(lk) is type(threading.RLock())
    scan = scan_sources(Path(REPO) / 'elementpath')
    dyn = dynamic_globals()
    parse_sites = scan_parse_sites(Path(REPO) / 'elementpath')
    f = scan['facts']

    def b(x):
        return 'true' if x else 'false'
    lines = [
        '/- GENERATED by harness/c19.py from the live /repo -- do not edit -/',
        'namespace EPV.Gen.C19',
        '/-- default of `XPathContext.__init__(allow_environment=...)` -/',
        f'def allowEnvironmentDefault : Bool := {b(allow)}',
        '/-- `XPath30Parser().defuse_xml`, `XPath31Parser().defuse_xml` -/',
        f'def defuseXmlDefault : Bool := {b(defuse)}',
        '/-- `type(elementpath.collations._locale_collate_lock)` is a reentrant lock -/',
        f'def lockReentrant : Bool := {b(reentrant)}',
        '',
        f'/-! static facts: AST scan of the {scan["files"]} source files of the package; sites are',
        '(module, qualified name of the enclosing function) -/',
        '/-- calls `setlocale(category, <something other than the literal None>)` -/',
        f'def setlocaleSetSites : List (String × String) := {_lean_pairs(f["setlocale_set"])}',
        '/-- calls that only read the locale (`setlocale(c)`, `setlocale(c, None)`, `getlocale`, ..) -/',
        f'def setlocaleQuerySites : List (String × String) := {_lean_pairs(f["setlocale_query"])}',
        '/-- calls of `get_locale_category` (a helper that switches the locale without the lock) -/',
        f'def getLocaleCategoryCallSites : List (String × String) := {_lean_pairs(f["get_locale_category_calls"])}',
        '/-- `_locale_collate_lock.acquire` / `.release` written out (not through `with`) -/',
        f'def lockBareSites : List (String × String) := {_lean_pairs(f["lock_bare"])}',
        '/-- `with _locale_collate_lock:` -/',
        f'def lockWithSites : List (String × String) := {_lean_pairs(f["lock_with"])}',
        '/-- every mention (other than in an import) of getcontext / setcontext / localcontext / DefaultContext /',
        'BasicContext / ExtendedContext: (module, function, name, verdict) with verdict `scoped` = callee of a `with`',
        'item whose body neither yields / awaits nor calls back into evaluation, else `unscoped` / `scoped-but-..` -/',
        'def decimalThreadContextSites : List (String × String × String × String) := [' + ', '.join(
            f'({_lean_str(a)}, {_lean_str(b)}, {_lean_str(c)}, {_lean_str(d)})' for a, b, c, d in f["decimal_ctx"]) + ']',
        '/-- constructions of a private `decimal.Context(..)` object (does not touch the thread\'s context) -/',
        f'def decimalPrivateContextSites : List (String × String) := {_lean_pairs(f["decimal_private_ctx"])}',
        '/-- stores into / deletions from / mutating method calls on `os.environ`, `putenv`, `unsetenv` -/',
        f'def environWriteSites : List (String × String) := {_lean_pairs(f["environ_write"])}',
        '/-- other mentions of `os.environ` -/',
        f'def environReadSites : List (String × String) := {_lean_pairs(f["environ_read"])}',
        '/-- module-level / class-level mutable containers (dict, list, set, ..; `*.attr` = a class attribute',
        'reached through an object other than `self`) that some function body mutates or rebinds: (module, name) -/',
        f'def staticallyWrittenGlobals : List (String × String) := '
        f'{_lean_pairs([(m, g) for m, g, _ in scan["static_writers"]])}',
        '/-- every call that hands text to an XML parser: (module, function, callee, protection) with protection in',
        'wrapped / dominated / optout / inside-element / guard-impl / unguarded (harness/c19.py::scan_parse_sites) -/',
        'def xmlParseSites : List (String × String × String × String) := [' + ', '.join(
            f'({_lean_str(a)}, {_lean_str(b)}, {_lean_str(c)}, {_lean_str(d)})' for a, b, c, d in parse_sites) + ']',
        '',
        f'/-! dynamic facts: {dyn["count"]} module-level / class-level mutable containers and memo caches of the',
        f'imported package, fingerprinted around the translator\'s fixed battery ({dyn["battery"]} evaluations) -/',
        f'def mutableGlobalsCount : Nat := {dyn["count"]}',
        '/-- those that changed while the battery ran for the first time -/',
        f'def writtenAfterImport : List (String × String) := {_lean_pairs(dyn["written_first_run"])}',
        '/-- those that changed while it ran again (same order, then reverse order) -/',
        f'def writtenByRepetition : List (String × String) := {_lean_pairs(dyn["written_second_run"])}',
        '/-- expressions whose canonical result differed between the three runs -/',
        f'def batteryResultsThatDiffer : List String := [{", ".join(_lean_str(x) for x in dyn["results_differ"])}]',
        'end EPV.Gen.C19', '']
    text = '\n'.join(lines)
    gen = LEAN / 'EPV' / 'Gen' / 'C19Defaults.lean'
    gen.parent.mkdir(exist_ok=True)
    if not gen.exists() or gen.read_text() != text:
        gen.write_text(text)
    return {'allow_environment_default': bool(allow), 'defuse_xml_default': defuse,
            'lock_type': type(lk).__name__, 'lock_reentrant': reentrant, 'static': f,
            'static_writers': scan['static_writers'], 'dynamic': dyn, 'xml_parse_sites': parse_sites}


def replay(run: Run, path: str) -> int:
    import json
    data = json.loads(Path(path).read_text())
    fi = data.get('failing_input') or {}
    case = fi.get('case')
    if isinstance(case, dict) and 'history' in case:
        world = World.from_json(case['world'])
        evs = [Ev.from_json(j) for j in case['history']]
        compare_histories(run, [(world, evs)])
    elif isinstance(case, dict) and 'programs' in case:
        compare_threads(run, [(World.from_json(case['world']),
                               [[Ev.from_json(j) for j in p] for p in case['programs']])])
    elif isinstance(case, dict) and case.get('op') == 'xmldecl':
        compare_xml_decl(run, [(case['defuse_xml'], (case['xml'], {'kind': 'replay', 'tail': 'replay',
                                                                    'must': 'ENTITY' in case['xml']}))])
    else:
        print('replay: unsupported case shape; running the full check', file=sys.stderr)
        return body(run)
    for d in run.disagreements:
        print(d.to_json())
    return run.finish('proof')


def arm_deadline(run: Run):
    """the check must never hang: past the tier's budget, give up as a harness fault (exit 2)"""
    budget = 175 if run.quick else 1180

    def bomb():
        time.sleep(budget)
        print(f'TIMEOUT in {PROP}: exceeded {budget}s', file=sys.stderr, flush=True)
        os._exit(2)
    threading.Thread(target=bomb, daemon=True).start()


def body(run: Run) -> int:
    if getattr(run, 'replay', None):
        run.prove(['EPV.Props.C19', 'EPV.Props.C19Defaults', 'EPV.Props.C19XmlDecl', 'EPV.Props.C19CollRaise'],
                  ['EPV.Spec.GlobalsSpec', 'EPV.Spec.GlobalsXmlDeclSpec'])
        return replay(run, run.replay)
    try:
        info = translate(run)
    except Exception as e:      # the live objects no longer have the shape the translator reads
        info = {'error': f'{type(e).__name__}: {e}'}
        run.broken.append('translate:C19Defaults ' + info['error'][:200])
    run.stats.extra['live_defaults'] = info
    run.trusted_base += [
        'translator harness/c19.py::translate (three defaults of the live library printed as Lean literals)',
        'harness/c19.py::LocaleStub standing in for the C setlocale/strcoll (exact-name availability, '
        'a rejected request changes nothing)',
        'Python locale.normalize/_build_localename (alias table) used to compute World.norm',
        'threading.Lock semantics; expat tokenisation of the XML prolog']
    run.assumptions += [
        'the process starts with the lock free and an LC_COLLATE name that setlocale accepts (Clean)',
        'token.parser.base_uri is unset; collation URIs contain no TAB/CR/LF/NUL and no "[" "]"',
        'thread runs sample schedules (setswitchinterval 1e-6 + yields inside the stub); the theorems cover '
        'all interleavings of the protocol at the granularity of one lock/setlocale/strcoll call per step',
        'setlocale\'s process-wide effect on other C libraries is outside the model',
        'XML declarations (phase 5): ASCII texts; the declared encoding is classified by the closed table '
        'XmlDecl.tableClass (every in-table name is checked against the running Python\'s byte parser); for a name '
        'outside the table the class is an oracle argument of the model, computed from the running interpreter']
    run.stats.rule = (
        'histories of 2..10 evaluations (13 collation-taking functions; collation = codepoint/html-ascii/'
        'caseblind, UCA URI with lang/fallback parameters in all orders incl. malformed ones, bare locale '
        'names, empty string, empty sequence; flat / body raising / nested up to depth 2) under a random '
        'installed-locale set (0..6 locales) and 8 initial LC_COLLATE names; after every evaluation: '
        'outcome, lock, LC_COLLATE, setlocale request log, decimal context, os.environ vs model and spec. '
        'threads: 2..8 threads x 1..4 Selector evaluations, concurrent and sequential. gates: '
        'environment-variable on random environments, parse-xml(-fragment) on structured prologs. '
        'raising C-library call: 18 expression shapes over the collation-taking functions with an operand containing '
        'U+0000 passed through a variable (either side, also after successful comparisons), bare-locale and UCA '
        'collations whose locale is installed and differs from the current one, on the stub and on the real C library '
        '(locales of this machine): outcome, lock, LC_COLLATE, setlocale(LC_ALL) after the raising call and after a '
        'following ordinary call vs CollRaise.useMany and spec. '
        'XML declarations: derivations of the grammar [23]-[32],[80],[81] (random S, quotes, version numbers incl. '
        'non-grammatical ones, 24 encoding names of 4 classes, standalone) and 15 kinds of near miss, followed by a '
        'root / external DOCTYPE / entity-declaring tail: expat XmlDeclHandler values = XmlDecl.parse = derivation, '
        'fn:parse-xml outcome = parseXmlTextX. '
        'distinct = distinct (world, history) / thread / gate cases')
    run.prove(['EPV.Props.C19', 'EPV.Props.C19Defaults', 'EPV.Props.C19XmlDecl', 'EPV.Props.C19CollRaise'],
                  ['EPV.Spec.GlobalsSpec', 'EPV.Spec.GlobalsXmlDeclSpec'])
    arm_deadline(run)       # after the build: waiting for the shared lake lock is not the check's time
    try:
        correspond_histories(run)
        run.log('histories done', run.stats.evaluations)
        correspond_primitive(run)
        run.log('raising-primitive cases done', run.stats.evaluations)
        correspond_gates(run)
        run.log('gates done', run.stats.evaluations)
        correspond_threads(run)
        run.log('threads done', run.stats.evaluations)
    except DriverError as e:
        run.broken.append('driver:C19 ' + str(e)[:300])
    return run.finish('proof', shrink=shrink, search=search)


if __name__ == '__main__':
    cli(PROP, body, translate=translate)

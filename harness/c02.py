"""
C02 — node trees are faithful, strictly document-ordered images of the input XML.

 prove     : EPV.Props.C02 (positions strictly increasing / consecutive, faithful image of the XDM tree,
             parents, string values, explicit-stack loop = recursion, operator layer) about the models
             EPV/Model/Builder.lean and EPV/Model/BuilderLoop.lean
 correspond: generated trees (xml.etree and lxml; Element / ElementTree / lxml sub-element; fragment in
             {None, True, False}; four kinds of `namespaces` argument; lxml prolog/epilog comments and PIs)
             -> real get_node_tree / build_node_tree / build_lxml_node_tree  vs  Lean model (dump with
             positions) vs Lean spec (XDM items in document order); then `is`, `<<`, `>>`, union,
             intersect, except, fn:root, fn:innermost, fn:outermost through XPath30Parser on sampled nodes
 search    : exhaustive small trees (<= 6 nodes) x attribute / namespace counts 0..3 x all call forms
"""
from __future__ import annotations

import itertools
import json
import sys
from pathlib import Path

sys.path.insert(0, str(Path(__file__).resolve().parent.parent))
from harness.common import (Run, Disagreement, cli, DriverError)  # noqa: E402

PROP = 'C02'
XML_NS = 'http://www.w3.org/XML/1998/namespace'

# ------------------------------------------------------------------------------------------
# abstract trees:  ('E', name, nsdecl [(prefix|None, uri)], attrs [(name, value)], text, kids, tail)
#                  ('C', text, tail)      ('P', target, content, tail)
# a case: dict(lib='E'|'L', tree=bool, frag=None|True|False, ns=None|[(prefix, uri)], path=[...],
#              pro=[nodes], top=node|None, epi=[nodes], direct=bool)
# ------------------------------------------------------------------------------------------


def enc(s) -> str:
    if s is None:
        return '~'
    return "'" + ''.join(c if (c.isascii() and c.isalnum()) else f'_{ord(c):x}_' for c in s)


def dec(t: str):
    if t == '~':
        return None
    out, esc = [], False
    for piece in t[1:].split('_'):
        out.append(chr(int(piece, 16)) if esc else piece)
        esc = not esc
    return ''.join(out)


class Built:
    """a materialised case: the library objects and the description re-read from them"""

    def __init__(self, case):
        self.case = case
        self.lib = case['lib']
        if self.lib == 'L':
            import lxml.etree as et
        else:
            import xml.etree.ElementTree as et
        self.et = et
        self.top = None
        self.doc = None
        if case['top'] is not None:
            self.top = self.make(case['top'], None)
            if self.lib == 'L':
                for n in case['pro']:
                    self.top.addprevious(self.make(n, None))
                for n in reversed(case['epi']):
                    self.top.addnext(self.make(n, None))
            self.doc = et.ElementTree(self.top)
        else:
            self.doc = et.ElementTree()
        if case['tree']:
            self.root = self.doc
        else:
            e = self.top
            for k in case['path']:
                e = e[k]
            self.root = e

    def make(self, n, parent):
        et = self.et
        if n[0] == 'E':
            _, name, nsdecl, attrs, text, kids, tail = n
            if self.lib == 'L':
                nsmap = {k: v for k, v in nsdecl} or None
                if parent is None:
                    e = et.Element(name, nsmap=nsmap)
                else:
                    e = et.SubElement(parent, name, nsmap=nsmap)
                for k, v in attrs:
                    e.set(k, v)
            else:
                e = et.Element(name, dict(attrs)) if parent is None else et.SubElement(parent, name, dict(attrs))
            e.text = text
            for k in kids:
                self.make(k, e)
            e.tail = tail
            return e
        if n[0] == 'C':
            e = et.Comment(n[1])
        else:
            e = et.ProcessingInstruction(n[1], n[2]) if self.lib == 'E' else et.PI(n[1], n[2])
        if parent is not None:
            parent.append(e)
        e.tail = n[-1]
        return e

    # ---- the request line for the Lean driver (read back from the objects) --------------
    def enc_node(self, obj, desc) -> list[str]:
        if desc[0] == 'E':
            nsmap = list(obj.nsmap.items()) if self.lib == 'L' else []
            out = ['E', enc(obj.tag), str(len(nsmap))]
            for k, v in nsmap:
                out += [enc(k), enc(v)]
            attrs = list(obj.attrib.items())
            out.append(str(len(attrs)))
            for k, v in attrs:
                out += [enc(k), enc(v)]
            out.append(enc(obj.text))
            kids = list(obj)
            out.append(str(len(kids)))
            for ko, kd in zip(kids, desc[5]):
                out += self.enc_node(ko, kd)
            out.append(enc(obj.tail))
            return out
        if desc[0] == 'C':
            return ['C', enc(obj.text or ''), enc(obj.tail)]
        return ['P', enc(desc[1]), enc(desc[2] or ''), enc(obj.tail)]

    def line(self, ops: list[str], lz: str = '_/_') -> str:
        c = self.case
        ns = c['ns'] or []
        nstoks = [str(len(ns))] + [t for k, v in ns for t in (enc(k), enc(v))]
        if self.top is None:
            top, pro, epi = '_', ['0'], ['0']
        else:
            top = ','.join(self.enc_node(self.top, c['top']))
            if self.lib == 'L':
                pl = list(reversed(list(self.top.itersiblings(preceding=True))))
                el = list(self.top.itersiblings())
            else:
                pl, el = [], []
            pro = [str(len(pl))] + [t for o, d in zip(pl, c['pro']) for t in self.enc_node(o, d)]
            epi = [str(len(el))] + [t for o, d in zip(el, c['epi']) for t in self.enc_node(o, d)]
        path = '.'.join(map(str, c['path'])) or '_'
        frag = {None: 'N', True: 'T', False: 'F'}[c['frag']]
        return (f"T lib={self.lib} tree={int(c['tree'])} frag={frag} ns={','.join(nstoks)} path={path} "
                f"pro={','.join(pro)} top={top} epi={','.join(epi)} lz={lz} ops={';'.join(ops) or '_'}")


KIND = {'document': 'D', 'element': 'E', 'namespace': 'N', 'attribute': 'A', 'text': 'T',
        'comment': 'C', 'processing-instruction': 'P'}


def err_str(e: Exception) -> str:
    from elementpath.exceptions import ElementPathError
    if isinstance(e, ElementPathError):
        if type(e).__name__ == 'ElementPathTypeError' and not getattr(e, 'code', None):
            return 'ERR:type'
        return f"ERR:{getattr(e, 'code', None) or type(e).__name__}"
    return f'ERR:OTHER:{type(e).__name__}'


def idxs_str(objs, index) -> str:
    return '.'.join(str(index.get(id(x), '?')) for x in objs) or '_'


def run_impl(b: Built, rng=None):
    """-> (root_node | None, nodes list, dump string, lazy-walk observations | None)"""
    from elementpath import get_node_tree
    from elementpath.tree_builders import build_node_tree, build_lxml_node_tree
    c = b.case
    ns = None if c['ns'] is None else dict(c['ns'])      # the caller-owned mapping
    try:
        owned_flaws = []
        if c.get('via') == 'ctx':
            from elementpath import XPathContext
            vs = {'n': 5}
            docs = {}
            ctx = XPathContext(b.root, namespaces=ns, fragment=c['frag'], variables=vs, documents=docs)
            root = ctx.root
        elif c.get('direct'):
            if b.lib == 'L':
                root = build_lxml_node_tree(b.root, fragment=c['frag'])
            else:
                root = build_node_tree(b.root, ns, fragment=c['frag'])
        else:
            root = get_node_tree(b.root, ns, fragment=c['frag'])
        if c.get('mutate'):
            # history: the caller changes its own inputs after the construction and BEFORE any lazily built
            # part (namespace nodes, attribute positions) is first produced; the image must be the one
            # of the inputs as they were at construction (that is what the request line describes)
            if ns is not None:
                ns['zz1'] = 'm1'
                ns['zz2'] = 'm2'
                ns.setdefault('xml', XML_NS)
                for k in list(ns)[:1]:
                    if k not in ('zz1', 'zz2', 'xml'):
                        del ns[k]
            if c.get('via') == 'ctx':
                vs['n'] = 6
                vs['m'] = 1
                docs['late'] = b.root
                if ctx.variables != {'n': 5}:
                    owned_flaws.append('variables-dict-aliased')
                if ctx.documents:
                    owned_flaws.append('documents-dict-aliased')
                if ns is not None and dict(ctx.namespaces) != dict(c['ns']):
                    owned_flaws.append('namespaces-dict-aliased')
        walks = None
        if rng is not None:
            # before anything lazy is built: iter_lazy / iter_descendants, then build some lazy lists
            l0 = list(root.iter_lazy())
            d0 = list(root.iter_descendants())
            elems = [n for n in d0 if n.node_kind == 'element']
            mode = rng.random()
            pr = 0.0 if mode < 0.15 else (1.0 if mode < 0.3 else 0.35)
            ns_sel = [e for e in elems if rng.random() < pr]
            at_sel = [e for e in elems if rng.random() < pr]
            for e in ns_sel:
                e.namespace_nodes
            for e in at_sel:
                e.attributes
            l1 = list(root.iter_lazy())
            d1 = list(root.iter_descendants())
            walks = (l0, d0, ns_sel, at_sel, l1, d1)
        nodes = list(root.iter())
        index = {id(n): k for k, n in enumerate(nodes)}
        if walks is not None:
            l0, d0, ns_sel, at_sel, l1, d1 = walks
            walks = {'lz': f'{idxs_str(ns_sel, index)}/{idxs_str(at_sel, index)}',
                     'lazy0': idxs_str(l0, index), 'lazy1': idxs_str(l1, index),
                     'desc': idxs_str(d0, index) if [id(x) for x in d0] == [id(x) for x in d1] else 'UNSTABLE'}
        out = []
        flaws = list(owned_flaws)
        for k, n in enumerate(nodes):
            par = -1 if n.parent is None else index.get(id(n.parent), -2)
            name = n.name
            out.append(f'{KIND.get(n.node_kind, "?")},{enc(name)},{n.position},{par},{enc(n.string_value)}')
            kids = getattr(n, 'children', None)
            if kids:
                for ch in kids:
                    if ch.parent is not n:
                        flaws.append(f'child-parent@{k}')
            if n.node_kind in ('element', 'comment', 'processing-instruction'):
                if root.tree.elements.get(n.value) is not n:
                    flaws.append(f'elements-map@{k}')
            if n.node_kind in ('namespace', 'attribute'):
                owner = n.parent
                lst = owner.namespace_nodes if n.node_kind == 'namespace' else owner.attributes
                if not any(x is n for x in lst):
                    flaws.append(f'lazy-owner@{k}')
        # tree.elements: one entry per wrapped object, in construction (= document) order, object -> its node
        reg = root.tree.elements
        wrapped_nodes = [n for n in nodes if n.node_kind in ('element', 'comment', 'processing-instruction')]
        if [id(v) for v in reg.values()] != [id(n) for n in wrapped_nodes] or \
                any(v.value is not k for k, v in reg.items()):
            flaws.append('elements-registry')
        if b.lib == 'L' or not c['tree'] or c['top'] is None:
            pass
        if wrapped_nodes and wrapped_nodes[0].node_kind == 'element':
            start = wrapped_nodes[0].value
            if nodes[0].node_kind == 'element' and [id(o) for o in start.iter()] != [id(k) for k in reg]:
                flaws.append('elements-registry-not-preorder')
        lazy = list(root.iter_lazy())
        if len(lazy) != len(nodes) or any(a is not b_ for a, b_ in zip(lazy, nodes)):
            flaws.append('iter_lazy!=iter')
        if [id(x) for x in root.iter()] != [id(x) for x in nodes]:
            flaws.append('iter-not-repeatable')
        dump = '|'.join(out)
        if flaws:
            dump += '!' + ','.join(sorted(set(flaws))[:4])
        return root, nodes, dump, walks
    except Exception as e:   # whatever the builders raise is part of their behaviour
        return None, [], err_str(e), None


def spec_view_of_impl(dump: str) -> str:
    """nodes sorted by position; parent indices renumbered; 'NONSTRICT' if positions repeat"""
    if dump.startswith('ERR'):
        return 'ERR'
    body, _, flaw = dump.partition('!')
    recs = [r.split(',') for r in body.split('|')]
    order = sorted(range(len(recs)), key=lambda k: int(recs[k][2]))
    ps = [int(recs[k][2]) for k in order]
    if any(a >= b for a, b in zip(ps, ps[1:])):
        return 'NONSTRICT:' + '.'.join(map(str, ps))
    if order != list(range(len(recs))):
        return 'ITER-NOT-IN-POSITION-ORDER:' + '.'.join(map(str, order))
    new = {old: k for k, old in enumerate(order)}
    out = []
    for old in order:
        kind, name, _pos, par, sv = recs[old]
        p = int(par)
        out.append(f'{kind},{name},{new.get(p, p)},{sv}')
    return '|'.join(out) + ('!' + flaw if flaw else '')


def strip_flags(spec: str):
    """(kept for the call sites) the spec dump carries no finding flags any more"""
    if spec == 'ERR':
        return 'ERR', []
    return spec, [False] * (spec.count('|') + 1)


# ------------------------------------------------------------------------------------------
# operators through the real parser
# ------------------------------------------------------------------------------------------
OP_EXPR = {'is': '$a is $b', 'prec': '$a << $b', 'foll': '$a >> $b', 'union': '$A union $B',
           'bar': '$A | $B', 'inter': '$A intersect $B', 'except': '$A except $B',
           'inner': 'innermost($A)', 'outer': 'outermost($A)', 'root': 'root($a)', 'root0': 'root()',
           'chain': '$A | $B | $C', 'cprec': '$a << $b', 'cfoll': '$a >> $b', 'croot': 'root($a)',
           'lzsub': '(python) node.iter_lazy()', 'descsub': '(python) node.iter_descendants()',
           'reget': '(python) get_node_tree(node, fragment=f)', 'ecmp': '$a (is|<<|>>) $b with one empty operand',
           'eroot': 'root($a) with $a := ()', 'citem': '(python) XPathContext(root, item=node.value).item',
           'px': 'operator with path operands in an inner focus',
           'nav': '(python) node.parent / .children / context.iter_ancestors() / .root_node / descendant-or-self'}
_tokens: dict = {}


_parsers: dict = {}


def op_token(name, version=30):
    """one token per (expression, parser class), reused for every document / variable map of the run"""
    from elementpath import XPath2Parser
    from elementpath.xpath30 import XPath30Parser
    from elementpath.xpath31 import XPath31Parser
    if name in ('inner', 'outer') and version == 20:
        version = 30
    key = (name, version)
    if key not in _tokens:
        if version not in _parsers:
            _parsers[version] = {20: XPath2Parser, 30: XPath30Parser, 31: XPath31Parser}[version]()
        _tokens[key] = _parsers[version].parse(OP_EXPR[name])     # the SAME parser instance parses them all
    return _tokens[key]


_flags: list = []


def canon_value(v, idx):
    from elementpath.xpath_nodes import XPathNode
    if isinstance(v, (list, tuple)):
        return [canon_value(x, idx) for x in v]
    if isinstance(v, XPathNode):
        return ('node', idx.get(id(v), '?'))
    return v


def checked_select(tok, mk, idx):
    """list(tok.select(ctx)) with the systematic checks: the caller's (item, position, size, axis) after the
    evaluation are what they were before; tok.evaluate() on an equal context gives the same items"""
    ctx = mk()
    before = (ctx.item, ctx.position, ctx.size, ctx.axis)
    res = list(tok.select(ctx))
    after = (ctx.item, ctx.position, ctx.size, ctx.axis)
    moved = [n for n, a, b in zip(('item', 'position', 'size', 'axis'), before, after)
             if not (a is b or (not hasattr(a, 'node_kind') and a == b))]
    if moved:
        _flags.append('!focus-moved:' + '+'.join(moved))
    try:
        ctx2 = mk()
        before2 = (ctx2.item, ctx2.position, ctx2.size, ctx2.axis)
        ev = tok.evaluate(ctx2)
        ev = list(ev) if isinstance(ev, (list, tuple)) else ([] if ev is None else [ev])
        if canon_value(ev, idx) != canon_value(res, idx):
            _flags.append('!evaluate-differs-from-select')
        after2 = (ctx2.item, ctx2.position, ctx2.size, ctx2.axis)
        if any(not (a is b or (not hasattr(a, 'node_kind') and a == b)) for a, b in zip(before2, after2)):
            _flags.append('!focus-moved-by-evaluate')
    except Exception as e:
        _flags.append('!evaluate-raised:' + type(e).__name__)
    return res


def focus_kwargs(nodes, op: str) -> dict:
    """a non-root focus with non-default position / size / axis, derived from the request (deterministic)"""
    import zlib
    h = zlib.crc32(op.encode())
    fk = h % len(nodes)
    return dict(item=nodes[fk], position=2 + h % 3, size=5 + h % 4, axis=[None, 'child', 'descendant'][h % 3])


PX_OPS = {'union': '{} union {}', 'bar': '{} | {}', 'inter': '{} intersect {}', 'except': '{} except {}',
          'is': '{} is {}', 'prec': '{} << {}', 'foll': '{} >> {}', 'inner': 'innermost(({}, {}))',
          'outer': 'outermost(({}, {}))', 'root': 'root({})', 'comma': '({}, {})'}
PX_ABS = ['Dx', 'Dy', 'Da', 'D*', 'T', 'Kx', 'Ky', 'K*', 'Ix', 'O*', 'Oy', 'I*']
PX_REL = ['cx', 'cy', 'ca', 'c*', 'dx', 'dy', 'd*', 'p', 's', 't', 'i*', 'ox', 'o*']


def px_path(code: str) -> str:
    first = code.endswith('1')
    if first:
        code = code[:-1]
    form, name = code[0], code[1:]
    text = {'D': f'//{name}', 'T': '/*', 'K': f'/*/{name}', 'c': name, 'd': f'.//{name}', 'p': '..', 's': '.',
            't': '@*', 'I': f'innermost(//{name})', 'O': f'outermost(//{name})', 'i': f'innermost(.//{name})',
            'o': f'outermost(.//{name})'}[form]
    return f'({text})[1]' if first else text


def px_expr(op: str, nodes) -> str:
    _, form, focus, opn, c1, c2 = op.split(':')
    body = PX_OPS[opn].format(px_path(c1), px_path(c2))
    if form == 'i':
        return f'({body})' if opn not in ('inner', 'outer', 'root', 'comma') else body
    if form == 's':
        return f'$f/({body})'
    if form == 'r':
        k = sum(1 for n in nodes[:int(focus) + 1] if n.node_kind == 'element')
        return f'(//*)[{k}]/({body})'
    return f'$f[{body}]'


_px_tokens: dict = {}


def run_px(root, nodes, op: str) -> str:
    from elementpath import XPathContext
    from elementpath.xpath30 import XPath30Parser
    _, form, focus, opn, c1, c2 = op.split(':')
    expr = px_expr(op, nodes)
    idx = {id(n): k for k, n in enumerate(nodes)}
    try:
        tok = _px_tokens.get(expr)
        if tok is None:
            tok = _px_tokens[expr] = XPath30Parser().parse(expr)
        fnode = nodes[int(focus)]
        if form == 'i':
            def mk():
                return XPathContext(root=root, item=fnode, position=2, size=3)
        else:
            fkw = focus_kwargs(nodes, op)

            def mk():
                return XPathContext(root=root, variables={'f': fnode}, **fkw)
        # the expression must give the focus back: this is what makes `copy(context)` per operand sufficient
        res = checked_select(tok, mk, idx)
        moved = ''
        if form != 'q' and opn in ('is', 'prec', 'foll'):
            return ('-' if not res else ('T' if res[0] is True else 'F' if res[0] is False else f'?{res[0]!r}')) + moved
        return ('.'.join(str(idx.get(id(x), '?')) for x in res) or '_') + moved
    except Exception as e:
        return err_str(e).replace('ERR:err:', 'ERR:')


_other: dict = {}      # the second tree of the current case: {'root': ..., 'nodes': [...]}


def run_xop(root, nodes, op: str):
    """operators over nodes of TWO trees (the case's tree `a` = context tree, another built tree `b`).
    Returns (impl, spec, tags): XDM 2.4 — the trees are kept apart, document order inside each tree, an
    implementation-dependent but stable order between the trees, `<<`/`>>` consistent with it."""
    from elementpath import XPathContext
    parts = op.split(':')
    name = parts[0]
    n2 = _other['nodes']
    lab = {id(n): ('a', k) for k, n in enumerate(nodes)}
    lab.update({id(n): ('b', k) for k, n in enumerate(n2)})

    def pick(spec_):   # 'a3.b1.a0'
        return [] if spec_ == '_' else [(nodes if t[0] == 'a' else n2)[int(t[1:])] for t in spec_.split('.')]

    def show(res):
        return '.'.join('%s%d' % lab.get(id(x), ('?', 0)) for x in res) or '_'
    ver = 30
    try:
        if name == 'xset':
            opn, A, B = parts[1], pick(parts[2]), pick(parts[3])
            tok = op_token({'union': 'union', 'bar': 'bar', 'inter': 'inter', 'except': 'except'}[opn], ver)

            def mk(a=A, b=B):
                return XPathContext(root=root, variables={'A': a, 'B': b})
            idx_all = dict(lab)
            res = checked_select(tok, mk, {k: v for k, v in idx_all.items()})
            res2 = list(tok.select(XPathContext(root=root, variables={'A': A[::-1], 'B': B[::-1]})))
            sa, sb = {id(x) for x in A}, {id(x) for x in B}
            want = {'union': sa | sb, 'bar': sa | sb, 'inter': sa & sb, 'except': sa - sb}[opn]
            got = [lab[id(x)] for x in res]
            problems = []
            if {id(x) for x in res} != want or len(res) != len(want):
                problems.append('wrong-set')
            trees = [t for t, _ in got]
            if any(trees[i] != trees[i + 1] for i in range(len(trees) - 1)) and len(set(trees)) == 2 and \
                    trees != sorted(trees) and trees != sorted(trees, reverse=True):
                problems.append('trees-interleaved')
            for t in 'ab':
                ks = [k for tt, k in got if tt == t]
                if ks != sorted(ks):
                    problems.append(f'tree-{t}-not-in-document-order')
            if [id(x) for x in res2] != [id(x) for x in res]:
                problems.append('order-depends-on-operand-enumeration')
            # the spec list: by (tree rank as observed, index)
            first = trees[0] if trees else 'a'
            rank = {first: 0, ('b' if first == 'a' else 'a'): 1}
            spec = '.'.join('%s%d' % x for x in sorted((lab[i] for i in want), key=lambda x: (rank[x[0]], x[1]))) or '_'
            return show(res) + ''.join('!' + p_ for p_ in problems), spec, []
        if name == 'xprec':
            a, b = pick(parts[1])[0], pick(parts[2])[0]
            ctx = lambda: XPathContext(root=root, variables={'a': a, 'b': b})   # noqa: E731
            u = list(op_token('bar', ver).select(XPathContext(root=root, variables={'A': [a], 'B': [b]})))
            a_first = u and u[0] is a
            r = {}
            for nm in ('prec', 'foll'):
                for x, y, key in ((a, b, nm + ':ab'), (b, a, nm + ':ba')):
                    try:
                        v = list(op_token(nm, ver).select(XPathContext(root=root, variables={'a': x, 'b': y})))
                        r[key] = '-' if not v else ('T' if v[0] is True else 'F')
                    except Exception as e:
                        r[key] = '-' if 'FOCA0002' in str(e) else err_str(e)
            impl = ','.join(f'{k}={v}' for k, v in sorted(r.items()))
            t, f = ('T', 'F') if a_first else ('F', 'T')
            spec = ','.join(f'{k}={v}' for k, v in sorted({'prec:ab': t, 'prec:ba': f, 'foll:ab': f, 'foll:ba': t}.items()))
            return impl, spec, []
        if name == 'xroot':
            b = pick(parts[1])[0]
            with_docs = parts[2] == 'D' and n2[0].node_kind == 'document'
            kw = {'documents': {'http://x/other': n2[0]}} if with_docs else {}
            res = checked_select(op_token('croot', ver), lambda: XPathContext(root=root, variables={'a': b}, **kw), lab)
            impl = show(res)
            spec = 'b0'    # F&O 14.9: the root of the tree containing the node
            return impl, spec, ([] if with_docs else ['F02e'])
    except Exception as e:
        return err_str(e), '?', []
    return 'bad', '?', []


def gen_xops(rng, n1: int, n2: int, kinds2: str) -> list[str]:
    ops = []

    def some(t, n, maxk=4):
        return [f'{t}{rng.randrange(n)}' for _ in range(rng.randint(0, maxk))]

    def s(l):
        return '.'.join(l) or '_'
    for _ in range(2):
        A = some('a', n1) + some('b', n2)
        B = some('a', n1) + some('b', n2) + ([rng.choice(A)] if A and rng.random() < 0.5 else [])
        rng.shuffle(A)
        rng.shuffle(B)
        ops.append(f"xset:{rng.choice(['union', 'bar', 'inter', 'except'])}:{s(A)}:{s(B)}")
    ops.append(f'xprec:a{rng.randrange(n1)}:b{rng.randrange(n2)}')
    ops.append(f"xroot:b{rng.randrange(n2)}:{rng.choice('DN')}")
    return ops


def run_op(root, nodes, op: str) -> str:
    _flags.clear()
    out = _run_op(root, nodes, op)
    return out + ''.join(sorted(set(_flags)))


def _run_op(root, nodes, op: str) -> str:
    from elementpath import XPathContext
    parts = op.split(':')
    name = parts[0]
    idx = {id(n): k for k, n in enumerate(nodes)}

    def lst(s):
        return [] if s == '_' else [nodes[int(k)] for k in s.split('.')]
    import zlib
    ver = (20, 30, 31)[zlib.crc32(op.encode()) % 3]     # XPath2Parser / XPath30Parser / XPath31Parser
    if name == 'px':
        return run_px(root, nodes, op)
    try:
        if name == 'ecmp':
            k = nodes[int(parts[3])]
            variables = {'a': [] if parts[2] == 'L' else k, 'b': k if parts[2] == 'L' else []}
            fkw = focus_kwargs(nodes, op)
            res = checked_select(op_token(parts[1], ver), lambda: XPathContext(root=root, variables=variables, **fkw), idx)
            return '-' if not res else f'?{res!r}'
        if name == 'eroot':
            fkw = focus_kwargs(nodes, op)
            res = checked_select(op_token('root', ver), lambda: XPathContext(root=root, variables={'a': []}, **fkw), idx)
            return '-' if not res else f'?{res!r}'
        if name == 'citem':
            k = int(parts[1])
            ctx = XPathContext(root=root, item=nodes[k].value)
            return str(idx.get(id(ctx.item), '?'))
        if name == 'nav':
            # phase 5: the link-reading navigation API on the live objects (no XPath evaluation)
            n = nodes[int(parts[1])]
            par = n.parent
            ctx = XPathContext(root=root, item=n)
            anc = list(ctx.iter_ancestors())
            aos = list(ctx.iter_ancestors('ancestor-or-self'))
            if aos != anc + [n] or ctx.item is not n:
                _flags.append('!ancestor-or-self')
            dos = list(ctx.iter_descendants('descendant-or-self'))
            if [x for x in ctx.iter_descendants('descendant')] != dos[1:] or dos[:1] != [n]:
                _flags.append('!descendant-axis')
            has_kids = isinstance(getattr(n, 'children', None), list)   # leaf kinds: None / no attribute
            kids = list(n.children) if has_kids else []
            if any(k.parent is not n for k in kids):
                _flags.append('!child-parent-link')
            if has_kids and list(ctx.iter_children_or_self()) != kids:
                _flags.append('!iter_children_or_self')
            if list(ctx.iter_parent()) != ([] if par is None else [par]):
                _flags.append('!iter_parent')
            return (f"{'-' if par is None else idx.get(id(par), '?')},{idxs_str(kids, idx)},{idxs_str(anc, idx)},"
                    f"{idx.get(id(n.root_node), '?')},{idxs_str(dos, idx)}")
        if name in ('lzsub', 'descsub'):
            n = nodes[int(parts[1])]
            return idxs_str(n.iter_lazy() if name == 'lzsub' else n.iter_descendants(), idx)
        if name == 'reget':
            from elementpath import get_node_tree
            frag = {'N': None, 'T': True, 'F': False}[parts[1]]
            try:
                rn = get_node_tree(nodes[int(parts[2])], fragment=frag)
            except Exception as e:
                return 'ERR:missingRoot' if 'Missing document root' in str(e) else err_str(e)
            top = rn.root_node
            return (f"{rn.position},{-1 if rn.parent is None else rn.parent.position},"
                    f"{'.'.join(str(x.position) for x in rn.iter())},{'.'.join(str(x.position) for x in top.iter())}")
        if name == 'croot':
            k = int(parts[2])
            if parts[1] == '-':
                tok = op_token('root0' if k % 2 else 'croot', ver)
                if k % 2:
                    def mk():
                        return XPathContext(item=nodes[k], position=2, size=4)
                else:
                    def mk():
                        return XPathContext(item=nodes[k], variables={'a': nodes[k]})
            elif k % 2:
                tok = op_token('root0', ver)

                def mk():
                    return XPathContext(root=nodes[int(parts[1])], item=nodes[k], position=3, size=3)
            else:
                tok = op_token('croot', ver)

                def mk():
                    return XPathContext(root=nodes[int(parts[1])], variables={'a': nodes[k]})
            res = checked_select(tok, mk, idx)
            return '-' if not res else str(idx.get(id(res[0]), '?'))
        if name in ('cprec', 'cfoll'):
            variables = {'a': nodes[int(parts[2])], 'b': nodes[int(parts[3])]}
            if parts[1] == '-':
                def mk():
                    return XPathContext(item=nodes[int(parts[2])], variables=variables)
            else:
                def mk():
                    return XPathContext(root=nodes[int(parts[1])], variables=variables)
            try:
                res = list(op_token(name, ver).select(mk()))
            except Exception as e:
                return '-' if 'FOCA0002' in str(e) else err_str(e)
            return '-' if not res else ('T' if res[0] is True else 'F' if res[0] is False else f'?{res[0]!r}')
        if name == 'chain':
            fkw = focus_kwargs(nodes, op)
            vs = {'A': lst(parts[1]), 'B': lst(parts[2]), 'C': lst(parts[3])}
            res = checked_select(op_token(name, ver), lambda: XPathContext(root=root, variables=vs, **fkw), idx)
            return '.'.join(str(idx.get(id(x), '?')) for x in res) or '_'
        if name in ('is', 'prec', 'foll'):
            variables = {'a': nodes[int(parts[1])], 'b': nodes[int(parts[2])]}
        elif name == 'root':
            variables = {'a': nodes[int(parts[1])]}
        elif name in ('inner', 'outer'):
            variables = {'A': lst(parts[1])}
            if nodes[0].node_kind == 'element' and len(parts[1]) % 2:
                # a fragment context (no document): iter_ancestors stops at the context root
                res = checked_select(op_token(name), lambda: XPathContext(root=root, fragment=True, variables=variables), idx)
                return '.'.join(str(idx.get(id(x), '?')) for x in res) or '_'
        else:
            variables = {'A': lst(parts[1]), 'B': lst(parts[2])}
        fkw = focus_kwargs(nodes, op)
        res = checked_select(op_token(name, ver), lambda: XPathContext(root=root, variables=variables, **fkw), idx)
        if name in ('is', 'prec', 'foll'):
            return '-' if not res else ('T' if res[0] is True else 'F' if res[0] is False else f'?{res[0]!r}')
        if name == 'root':
            return '-' if not res else str(idx.get(id(res[0]), '?'))
        return '.'.join(str(idx.get(id(x), '?')) for x in res) or '_'
    except Exception as e:
        return err_str(e)


def gen_ops(rng, n: int, count: int, kinds: str = '') -> list[str]:
    ops = []
    if n == 0:
        return ops
    containers = [k for k, ch in enumerate(kinds) if ch in 'DE'] or [0]
    elements = [k for k, ch in enumerate(kinds) if ch == 'E']

    def pick():
        return rng.randrange(n)

    def some(maxk=5):
        return [pick() for _ in range(rng.randint(0, maxk))]

    def s(l):
        return '.'.join(map(str, l)) or '_'
    for _ in range(count):
        name = rng.choice(['is', 'prec', 'foll', 'union', 'inter', 'except', 'inner', 'outer', 'root', 'union',
                           'prec', 'chain', 'lzsub', 'descsub', 'croot', 'croot', 'cprec', 'cfoll', 'misc', 'nav', 'nav'])
        if name == 'misc':
            r = rng.random()
            wrapped = [k for k, ch in enumerate(kinds) if ch in 'ECP']
            if r < 0.3:
                ops.append(f"ecmp:{rng.choice(['is', 'prec', 'foll'])}:{rng.choice('LR')}:{pick()}")
            elif r < 0.4:
                ops.append('eroot')
            elif wrapped:
                ops.append(f'citem:{rng.choice(wrapped)}')
            continue
        if name == 'nav':
            # half of the picks on containers (children / descendant blocks), the rest on any node
            ops.append(f'nav:{rng.choice(containers) if rng.random() < 0.5 else pick()}')
            continue
        if name == 'chain':
            ops.append(f'chain:{s(some(4))}:{s(some(4))}:{s(some(4))}')
            continue
        if name in ('lzsub', 'descsub'):
            if elements:
                ops.append(f'{name}:{rng.choice(elements)}')
            continue
        if name in ('croot', 'cprec', 'cfoll'):
            r = rng.random()
            c = '-' if r < 0.15 else (0 if r < 0.4 else rng.choice(containers))
            if name == 'croot':
                ops.append(f'croot:{c}:{pick()}')
            else:
                a = pick()
                b = pick()
                if c != '-' and rng.random() < 0.6 and kinds:
                    # both operands below the context root most of the time
                    lo = int(c)
                    a, b = rng.randrange(lo, n), rng.randrange(lo, n)
                ops.append(f'{name}:{c}:{a}:{b}')
            continue
        if name in ('is', 'prec', 'foll'):
            a = pick()
            b = a if rng.random() < 0.15 else pick()
            ops.append(f'{name}:{a}:{b}')
        elif name == 'root':
            ops.append(f'root:{pick()}')
        elif name in ('inner', 'outer'):
            ops.append(f'{name}:{s(some(14 if rng.random() < 0.25 else 7))}')
        else:
            xs = some()
            ys = [rng.choice(xs) if xs and rng.random() < 0.4 else pick() for _ in range(rng.randint(0, 5))]
            ops.append(f'{name}:{s(xs)}:{s(ys)}')
    if count and kinds[:1] == 'D' and elements:
        # operators whose operands are PATHS, evaluated in an inner (non-root) focus: all four
        # absolute/relative x left/right combinations
        for _ in range(2 if count < 6 else 3):
            opn = rng.choice(['union', 'bar', 'inter', 'except', 'inter', 'except', 'is', 'prec', 'foll',
                              'inner', 'outer', 'root', 'comma'])
            single = opn in ('is', 'prec', 'foll', 'root')

            def code(absolute):
                c_ = rng.choice(PX_ABS if absolute else PX_REL)
                if single and c_ not in ('p', 's') and not (c_ == 'T' and rng.random() < 0.6) \
                        and not (opn != 'root' and rng.random() < 0.45):
                    c_ += '1'       # `/*` alone is a singleton in a document: also used bare
                elif not single and rng.random() < 0.15 and c_ not in ('p', 's'):
                    c_ += '1'
                return c_
            c1, c2 = code(rng.random() < 0.5), code(rng.random() < 0.5)
            ops.append(f"px:{rng.choice('isrq')}:{rng.choice(elements)}:{opn}:{c1}:{c2}")
    if count and rng.random() < 0.5:
        # one re-entry of get_node_tree with a built node, last (fragment=False may re-root the tree)
        ops.append(f"reget:{rng.choice('NTF')}:{rng.choice(containers)}")
    return ops


# ------------------------------------------------------------------------------------------
# generator
# ------------------------------------------------------------------------------------------
NAMES = ['x', 'y', 'a', 'x', 'y', '{u1}x', '{u2}a']
TEXTS = [None, None, 't', 'u v', '', '1', '\n  ', 'ab', 'é&<']
PREFIXES = [None, 'p', 'q', 'r', 's', 't', 'w']


def gen_text(rng):
    return rng.choice(TEXTS)


def gen_node(rng, depth, budget, lxml, wide, inherited=()):
    """returns (node, used)"""
    r = rng.random()
    if depth > 0 and r < 0.12:
        return ('C', rng.choice(['c', '', 'a b', None]) if not lxml else rng.choice(['c', '', 'a b']),
                gen_text(rng)), 1
    if depth > 0 and r < 0.2:
        return ('P', rng.choice(['pi', 'xsl', 'x']), rng.choice([None, 'd', 'k v', '']), gen_text(rng)), 1
    name = rng.choice(NAMES)
    nattr = rng.choice([0, 0, 1, 2, 3, 6] if wide else [0, 0, 1, 2])
    attrs = []
    pool = ['a0', 'a1', 'a2', 'a3', 'a4', 'a5', '{u1}b', '{%s}lang' % XML_NS, 'id']
    rng.shuffle(pool)
    for k in range(nattr):
        attrs.append((pool[k], rng.choice(['', 'v', '1 2', 'é'])))
    nsdecl = []
    if lxml:
        nns = rng.choice([0, 0, 0, 1, 2, 3, 6] if wide else [0, 0, 0, 1, 2])
        pfx = list(PREFIXES)
        rng.shuffle(pfx)
        for k in range(nns):
            nsdecl.append((pfx[k], rng.choice(['u0', 'u1', 'u2', 'u3'])))
        if inherited and rng.random() < 0.3:
            # shadow a prefix declared by an ancestor with another URI
            sp = rng.choice(list(inherited))
            nsdecl = [(p_, u) for p_, u in nsdecl if p_ != sp] + [(sp, rng.choice(['v0', 'v1']))]
        inherited = tuple(set(inherited) | {p_ for p_, _ in nsdecl})
    kids = []
    used = 1
    if depth < 5:
        nk = rng.choice([0, 0, 1, 1, 2, 3, 4]) if depth else rng.choice([0, 1, 2, 3, 4])
        for _ in range(nk):
            if used >= budget:
                break
            k, u = gen_node(rng, depth + 1, budget - used, lxml, wide, inherited)
            kids.append(k)
            used += u
    tail = gen_text(rng) if depth > 0 else (gen_text(rng) if rng.random() < 0.2 else None)
    return ('E', name, nsdecl, attrs, gen_text(rng), kids, tail), used


def gen_siblings(rng):
    out = []
    for _ in range(rng.choice([0, 0, 1, 2, 3])):
        if rng.random() < 0.5:
            out.append(('C', rng.choice(['c1', 'pre', '']), None))
        else:
            out.append(('P', rng.choice(['pi', 'xml-stylesheet']), rng.choice(['d', None, 'a b']), None))
    return out


NS_ARGS = [None, None, [], [('xml', XML_NS)], [('xml', XML_NS), ('p', 'u1')], [('', 'u0')],
           [('xml', 'not-the-xml-namespace'), ('p', 'u1'), ('q', 'u1')], [('', ''), ('u1', 'u1')],
           [('', 'u0'), ('q', 'u2'), ('xml', XML_NS), ('r', 'u3')],
           [('p', 'u1'), ('q', 'u2'), ('r', 'u3'), ('s', 'u1'), ('t', 'u0'), ('w', 'u5')],
           [('tns', 'u1')]]


def element_paths(node, prefix=()):
    """child-index paths to every element of the abstract tree"""
    out = [list(prefix)]
    for k, ch in enumerate(node[5]):
        if ch[0] == 'E':
            out += element_paths(ch, prefix + (k,))
    return out


def strip_nonascii(node):
    return node


def gen_cases(rng, quick=True):
    """one abstract tree -> several call forms, both libraries"""
    wide = rng.random() < 0.35
    budget = rng.choice([1, 2, 4, 8, 14] if quick else [1, 3, 8, 16, 30])
    cases = []
    for lib in ('E', 'L'):
        top, _ = gen_node(rng, 0, budget, lib == 'L', wide)
        pro = gen_siblings(rng) if lib == 'L' and rng.random() < 0.5 else []
        epi = gen_siblings(rng) if lib == 'L' and rng.random() < 0.4 else []
        forms = []
        for tree in (True, False):
            for frag in (None, True, False):
                forms.append((tree, frag))
        rng.shuffle(forms)
        for tree, frag in forms[:rng.choice([2, 3])]:
            path = []
            if not tree and rng.random() < 0.35:
                path = rng.choice(element_paths(top))
            if lib == 'E' and path:
                # xml.etree: the sub-element is simply the argument
                sub = top
                for k in path:
                    sub = sub[5][k]
                c_top, path = sub, []
            else:
                c_top = top
            nsarg = rng.choice(NS_ARGS)
            via = 'ctx' if rng.random() < 0.25 else None
            cases.append(dict(lib=lib, tree=tree, frag=frag, ns=nsarg, path=path,
                              pro=pro, top=c_top, epi=epi, direct=via is None and rng.random() < 0.3,
                              via=via, mutate=rng.random() < (0.5 if nsarg is not None else 0.15)))
    if rng.random() < 0.01:
        cases.append(dict(lib=rng.choice('EL'), tree=True, frag=rng.choice([None, True, False]),
                          ns=rng.choice(NS_ARGS), path=[], pro=[], top=None, epi=[], direct=False))
    return cases


def E(name, kids=(), text=None, tail=None, attrs=(), ns=()):
    return ('E', name, list(ns), list(attrs), text, list(kids), tail)


def corpus() -> list[dict]:
    base = dict(lib='E', tree=False, frag=None, ns=None, path=[], pro=[], epi=[], direct=False)
    out = []
    # former F02a  <a><b>1<c>2</c></b>3</a>: string(a) was '132'; <r><a>1<b>2</b>3</a>T<c/>U</r> was '1T23U'
    t = E('a', [E('b', [E('c', text='2')], text='1', tail='3')])
    tr = E('r', [E('a', [E('b', text='2', tail='3')], text='1', tail='T'), E('c', tail='U')])
    for lib in 'EL':
        out.append(dict(base, lib=lib, top=t))
        out.append(dict(base, lib=lib, top=t, tree=True))
        out.append(dict(base, lib=lib, top=tr))
        out.append(dict(base, lib=lib, top=tr, tree=True))
    # fixed: tail after a comment / PI, document-level comments
    t2 = E('a', [('C', 'c', 'y'), E('b', text='z', tail='w'), ('P', 'pi', 'q', 'v')], text='x')
    for lib in 'EL':
        out.append(dict(base, lib=lib, top=t2))
    out.append(dict(base, lib='L', tree=True, top=E('a', text='t'), pro=[('C', 'c1', None)], epi=[('P', 'p', 'd', None)]))
    out.append(dict(base, lib='L', tree=False, top=E('a', text='t'), pro=[('C', 'c1', None)]))
    # wide fans
    t3 = E('x', [E('x', [E('x', attrs=[('a0', '1')])], attrs=[(f'a{k}', 'v') for k in range(6)])],
           attrs=[(f'a{k}', 'v') for k in range(6)], ns=[(p, f'u{k}') for k, p in enumerate(PREFIXES[:6])])
    for lib in 'EL':
        for frag in (None, True, False):
            out.append(dict(base, lib=lib, top=t3, frag=frag, ns=NS_ARGS[6]))
            out.append(dict(base, lib=lib, top=t3, frag=frag, tree=True, ns=NS_ARGS[4]))
    out.append(dict(base, lib='L', top=t3, path=[0], frag=False))
    out.append(dict(base, lib='L', top=t3, path=[0, 0], frag=None))
    for lib in 'EL':
        for frag in (None, True, False):
            out.append(dict(base, lib=lib, tree=True, top=None, frag=frag))
    # caller-owned inputs changed after construction, before the lazy nodes exist
    tm = E('r', [E('x')], attrs=[('a', '1')])
    for lib in 'EL':
        for via in (None, 'ctx'):
            for direct in (False, True):
                for nsarg in ([], [('p', 'u1')], [('xml', XML_NS), ('p', 'u1')]):
                    out.append(dict(base, lib=lib, top=tm, ns=nsarg, via=via, direct=direct and via is None, mutate=True))
    return out


# ------------------------------------------------------------------------------------------
# correspondence
# ------------------------------------------------------------------------------------------
def case_json(c: dict) -> dict:
    return json.loads(json.dumps(c))


def compare(run: Run, cases: list[dict], nops: int = 6, stats: bool = True) -> None:
    st = run.stats
    built = []
    for c in cases:
        try:
            b = Built(c)
        except Exception as e:   # the library refused the construction: not a case
            st.count(f'construction-refused:{type(e).__name__}')
            continue
        root, nodes, dump, walks = run_impl(b, run.rng)
        kinds = ''.join(KIND.get(n.node_kind, '?') for n in nodes)
        ops = gen_ops(run.rng, len(nodes), nops, kinds) if root is not None else []
        built.append((c, b, root, nodes, dump, ops, walks))
    lines = [b.line(ops, walks['lz'] if walks else '_/_') for (_, b, _, _, _, ops, walks) in built]
    answers = run.driver('C02', lines)
    for (c, b, root, nodes, dump, ops, walks), line, ans in zip(built, lines, answers):
        case = {'line': line, 'case': case_json(c)}
        if not ans.startswith('model='):
            run.disagree(Disagreement(case, 'driver:' + ans, what='protocol'))
            continue
        f = dict(kv.split('=', 1) for kv in ans.split(' '))
        model, spec_k = f['model'], f['spec']
        spec, flags = strip_flags(spec_k)
        impl_spec = spec_view_of_impl(dump) if not dump.startswith('ERR:type') else 'ERR'
        model_spec = spec_view_of_impl(model) if not model.startswith('ERR') else 'ERR'
        if stats:
            st.case(line, nontrivial=len(nodes) > 1)
            st.count(f'lib:{c["lib"]}')
            st.count(f'root:{"tree" if c["tree"] else ("subelement" if c["path"] else "element")}'
                     f'/frag={c["frag"]}')
            st.count('ns-arg:' + ('None' if c['ns'] is None else
                                  ('xml' if any(k == 'xml' for k, _ in c['ns']) else '') +
                                  ('default' if any(k == '' for k, _ in c['ns']) else '') + f'#{len(c["ns"])}'))
            st.count(f'nodes:{min(len(nodes), 64) // 8 * 8}+')
            def late(n, top=True):
                return n[0] == 'E' and ((not top and n[6] not in (None, '') and any(k[0] == 'E' for k in n[5]))
                                        or any(late(k, False) for k in n[5]))
            if c['top'] is not None and late(c['top']):
                st.count('mixed-content: element with element children AND a tail (inside the root)')
            if c['pro'] or c['epi']:
                st.count('lxml-doc-siblings')
            if c['lib'] == 'L' and b.top is not None:
                maps = [(e, dict(e.nsmap)) for e in b.top.iter() if isinstance(e.tag, str)]
                if len({len(m) for _, m in maps}) > 1:
                    st.count('lxml-nsmap-size-varies-in-tree')
                if any(e.getparent() is not None and any(m.get(k) != v for k, v in e.getparent().nsmap.items() if k in m)
                       for e, m in maps):
                    st.count('lxml-prefix-redeclared-at-depth')
            if c['lib'] == 'E' and c['ns'] and b.top is not None:
                used = {t.tag[1:].split('}')[0] for t in b.top.iter() if isinstance(t.tag, str) and t.tag[0] == '{'}
                uris = {v for _, v in c['ns']}
                st.count('etree-namespaces-arg:' + ('covers-document-uris' if used and used <= uris else
                                                    'partly-or-not-covering' if used else 'document-without-namespaces'))
            if dump.startswith('ERR'):
                st.count('impl:' + dump)
            elif nodes and nodes[0].node_kind == 'document':
                st.count('result:document' + ('(dummy@0)' if nodes[0].position == 0 else ''))
            else:
                st.count('result:element-root')
            if c.get('direct'):
                st.count('called:build_*_node_tree directly')
            if c.get('via') == 'ctx':
                st.count('called:XPathContext(root, namespaces, variables, documents)')
            if c.get('mutate'):
                st.count('history:caller-owned inputs mutated before first lazy use' +
                         ('/namespaces-dict' if c['ns'] is not None else '/no-namespaces-dict'))
        if impl_spec != spec:
            tags = []
            if stats and not impl_spec.startswith(('ERR', 'NONSTRICT', 'ITER')) and spec != 'ERR':
                st.count('string-value-or-image-mismatch')
            run.disagree(Disagreement(case, impl_spec, model_spec, spec=spec, what='xdm-image',
                                      site='tree_builders / xpath_nodes / etree_iter_strings', tags=tags))
        if dump != model:
            run.disagree(Disagreement(case, dump, model, what='positions-dump',
                                      site='tree_builders.build_node_tree/build_lxml_node_tree, xpath_nodes lazy nodes'))
            continue
        if root is None:
            continue
        if walks is not None:
            # iter_lazy before / after building some lazy lists, iter_descendants: vs model and vs the spec
            # (eager items + the namespace / attribute items of the chosen elements, in document order)
            srecs = [r.split(',') for r in spec.split('|')] if spec != 'ERR' else []
            ns_sel, at_sel = [set() if x == '_' else set(map(int, x.split('.'))) for x in walks['lz'].split('/')]
            eager = [k for k, r in enumerate(srecs) if r[0] not in 'NA']
            lazy1 = [k for k, r in enumerate(srecs) if r[0] not in 'NA' or
                     (r[0] == 'N' and int(r[2]) in ns_sel) or (r[0] == 'A' and int(r[2]) in at_sel)]

            def j(l):
                return '.'.join(map(str, l)) or '_'
            for key, sp in (('lazy0', j(eager)), ('lazy1', j(lazy1)), ('desc', j(eager))):
                if stats:
                    st.evaluations += 1
                    st.count('walk:' + key)
                wcase = dict(case, walk=key, lz=walks['lz'])
                if walks[key] != sp:
                    run.disagree(Disagreement(wcase, walks[key], f.get(key), spec=sp, what='walk:' + key,
                                              site='xpath_nodes.py iter_lazy / iter_descendants'))
                elif walks[key] != f.get(key):
                    run.disagree(Disagreement(wcase, walks[key], f.get(key), what='walk-model:' + key))
            if stats:
                st.count('lazy-state:' + ('nothing-built' if not ns_sel and not at_sel else
                                          'all-built' if len(ns_sel) == len(at_sel) == sum(r[0] == 'E' for r in srecs)
                                          else 'partly-built'))
        # nodes of TWO trees: this case's tree as context tree + the previous tree of the batch
        prev = _other.get('next')
        _other['next'] = {'root': root, 'nodes': nodes}
        if prev is not None and prev['root'] is not root and nodes and prev['nodes']:
            _other.update(prev)
            for xop in gen_xops(run.rng, len(nodes), len(prev['nodes']), ''):
                _flags.clear()
                impl, sp, xtags = run_xop(root, nodes, xop)
                impl += ''.join(sorted(set(_flags)))
                if stats:
                    st.evaluations += 1
                    st.count('xop:' + ':'.join(xop.split(':')[:2] if xop.startswith('xset') else xop.split(':')[:1]))
                if impl != sp:
                    if stats and xtags:
                        st.count('F02e-region-hit')
                    run.disagree(Disagreement(dict(case, op=xop, other_tree_nodes=len(prev['nodes'])), impl, None,
                                              spec=sp, what='cross-tree:' + xop.split(':')[0], tags=xtags,
                                              site='helpers.node_position / evaluate__node_comparison / get_root'))
        opans = f['ops'].split(';') if f['ops'] != '_' else []
        checked_unchanged = False
        for op, ms in zip(ops, opans):
            m, _, s = ms.partition('/')
            name = op.split(':')[0]
            if name == 'reget' and not checked_unchanged:
                # the tree must be unchanged by the evaluations so far (reget fragment=False may re-root it)
                checked_unchanged = True
                if '|'.join(run_dump_again(root)) != dump.partition('!')[0]:
                    run.disagree(Disagreement(case, 'changed-after-ops', dump, what='positions-dump'))
            impl = run_op(root, nodes, op)
            region = s.endswith('!')
            s = s.rstrip('!')
            if stats:
                st.evaluations += 1
                st.count('op:' + name)
                if impl.startswith('ERR'):
                    st.count('op-impl:' + impl)
                if name == 'nav':
                    # branch histogram of the link-reading API: kind of the node, length of the ancestor chain,
                    # number of children, size of the descendant block
                    nf = s.split(',')
                    if len(nf) == 5:
                        cnt = lambda f: 0 if f == '_' else f.count('.') + 1
                        st.count(f"nav:kind={KIND.get(nodes[int(op.split(':')[1])].node_kind, '?')}")
                        st.count(f'nav:ancestors={min(cnt(nf[2]), 4)}{"+" if cnt(nf[2]) >= 4 else ""}')
                        st.count(f'nav:children={min(cnt(nf[1]), 3)}{"+" if cnt(nf[1]) >= 3 else ""}')
                        st.count(f'nav:descendants={"1" if cnt(nf[4]) == 1 else ("2-4" if cnt(nf[4]) <= 4 else "5+")}')
                if name == 'px':
                    pp = op.split(':')
                    st.count(f'px:{pp[3]}/{"abs" if pp[4][0].isupper() else "rel"}-{"abs" if pp[5][0].isupper() else "rel"}'
                             f'/form-{pp[1]}')
                if name in ('croot', 'cprec', 'cfoll'):
                    st.count(f'ctx-root:{"none" if op.split(":")[1] == "-" else ("tree-root" if op.split(":")[1] == "0" else "inner")}'
                             f'{"/operand-outside" if region else ""}')
            ocase = dict(case, op=op, expr=px_expr(op, nodes) if name == 'px' else OP_EXPR[name])
            if s == '-' and name == 'reget':
                if impl != m:
                    run.disagree(Disagreement(ocase, impl, m, what='reget',
                                              site='tree_builders.get_node_tree l. 49-61, get_document_node, getroot'))
                continue
            if stats and region and impl == s:
                st.count('F02e-region-but-agrees (trigger not exact)')
            if impl != s:
                tags = ['F02e'] if region else []
                if stats and tags:
                    st.count('F02e-region-hit')
                run.disagree(Disagreement(ocase, impl, m, spec=s, what='operator:' + name, tags=tags,
                                          site='_xpath2_operators.py / _xpath1_operators.py / _xpath30_functions.py'
                                               ' / xpath_context.get_root'))
                if impl != m:
                    run.disagree(Disagreement(ocase, impl, m, what='operator-model:' + name))
            elif impl != m:
                run.disagree(Disagreement(ocase, impl, m, what='operator-model:' + name))
        # the tree must be unchanged by the evaluations
        if ops and not checked_unchanged and '|'.join(run_dump_again(root)) != dump.partition('!')[0]:
            run.disagree(Disagreement(case, 'changed-after-ops', dump, what='positions-dump'))


def run_dump_again(root):
    nodes = list(root.iter())
    index = {id(n): k for k, n in enumerate(nodes)}
    out = []
    for n in nodes:
        par = -1 if n.parent is None else index.get(id(n.parent), -2)
        out.append(f'{KIND.get(n.node_kind, "?")},{enc(n.name)},{n.position},{par},{enc(n.string_value)}')
    return out


def correspond(run: Run) -> None:
    rng = run.rng
    cases = corpus()
    ntrees = run.scale(700, 9000)
    for _ in range(ntrees):
        cases += gen_cases(rng, run.quick)
    run.stats.rule = (
        'abstract trees (names from {x,y,a,{u1}x,{u2}a} so that same-named elements nest; 0-6 attributes incl. '
        'xml:lang and namespaced ones; 0-6 lxml namespace declarations incl. the default one, redeclared at '
        'depth; text/tail None, empty or string; comments, PIs; lxml document-level comment/PI siblings) built '
        'with xml.etree AND lxml, handed over as Element, sub-element or ElementTree, fragment None/True/False, '
        'namespaces argument None, {}, with xml, with default, 6 entries; through get_node_tree or the builders '
        'directly.  Compared per case: dump (kind, name, position, parent index by identity, string_value) of '
        'root.iter() with the Lean model, the position-sorted view with the Lean XDM spec; parent/children links, '
        'tree.elements map, lazy-node ownership, iter_lazy()==iter(); then 6 operator evaluations ($a is $b, <<, >>, '
        'union, intersect, except, innermost, outermost, root) through XPath30Parser on sampled nodes. '
        'distinct = distinct request lines with more than one node')
    for k in range(0, len(cases), 1500):
        compare(run, cases[k:k + 1500])
    if not run.quick:
        # thorough tier: the exhaustive small-scope enumeration is part of the correspondence
        small = search_cases(5)
        run.stats.count('exhaustive-small-trees', len(small))
        for k in range(0, len(small), 3000):
            compare(run, small[k:k + 3000], nops=3)


# ------------------------------------------------------------------------------------------
# failing-input search: exhaustive small trees
# ------------------------------------------------------------------------------------------
def shapes(n: int):
    """all ordered trees with n nodes as nested tuples of children"""
    if n == 1:
        yield ()
        return
    for parts in compositions(n - 1):
        for kids in itertools.product(*[list(shapes(p)) for p in parts]):
            yield tuple(kids)


def compositions(n: int):
    if n == 0:
        yield ()
        return
    for first in range(1, n + 1):
        for rest in compositions(n - first):
            yield (first,) + rest


def decorate(shape, nattr, nns, textmode, leafkind, depth=0, counter=None):
    counter = counter if counter is not None else [0]
    k = counter[0]
    counter[0] += 1

    def txt(tag):
        if textmode == 0:
            return None
        if textmode == 1:
            return f'{tag}{k}'
        return f'{tag}{k}' if k % 2 == 0 else None
    if not shape and depth > 0 and leafkind and k % 2 == 1:
        return ('C', 'c', txt('l')) if leafkind == 1 else ('P', 'pi', 'd', txt('l'))
    kids = [decorate(s, nattr, nns, textmode, leafkind, depth + 1, counter) for s in shape]
    return ('E', 'xya'[depth % 3], [(PREFIXES[j], f'u{j}') for j in range(nns)] if depth % 2 == 0 else [],
            [(f'a{j}', 'v') for j in range(nattr)], txt('t'), kids, txt('l') if depth else None)


def search_cases(max_nodes: int):
    out = []
    for n in range(1, max_nodes + 1):
        for shape in shapes(n):
            for nattr in range(4):
                for nns in range(4):
                    for textmode in (0, 1, 2):
                        leafkind = (nattr + nns + textmode) % 3
                        for lib in 'EL':
                            top = decorate(shape, nattr, nns, textmode, leafkind)
                            nsarg = [None, [('xml', XML_NS)], [('', 'u0'), ('p', 'u1')],
                                     [('xml', XML_NS), ('q', 'u'), ('r', 'u')]][nns] if lib == 'E' else None
                            for tree, frag in ((True, None), (False, None), (False, False), (True, True)):
                                out.append(dict(lib=lib, tree=tree, frag=frag, ns=nsarg, path=[],
                                                pro=[('C', 'c', None)] if (lib == 'L' and nattr == 1) else [],
                                                top=top, epi=[('P', 'p', 'd', None)] if (lib == 'L' and nns == 2) else [],
                                                direct=False))
    return out


def search(run: Run):
    sub = Run(PROP, run.tier, run.seed)
    cases = search_cases(5 if run.quick else 6)
    for k in range(0, len(cases), 3000):
        compare(sub, cases[k:k + 3000], nops=4, stats=False)
        if any(d.kind == 'violation' and not d.tags for d in sub.disagreements):
            break
    run.notes.append(f'search: {len(cases)} exhaustive small-tree cases (<= {5 if run.quick else 6} nodes x '
                     f'attribute/namespace counts 0..3 x text patterns x call forms), '
                     f'{len(sub.disagreements)} disagreements')
    return sub.disagreements


# ------------------------------------------------------------------------------------------
# shrinking: greedy structural reduction of the abstract tree, re-checked through the whole pipeline
# ------------------------------------------------------------------------------------------
def reductions(node):
    """smaller variants of an abstract node"""
    if node[0] != 'E':
        if node[-1] is not None:
            yield node[:-1] + (None,)
        return
    _, name, nsdecl, attrs, text, kids, tail = node
    for k in range(len(kids)):
        yield ('E', name, nsdecl, attrs, text, kids[:k] + kids[k + 1:], tail)
    for k, ch in enumerate(kids):
        for r in reductions(ch):
            yield ('E', name, nsdecl, attrs, text, kids[:k] + [r] + kids[k + 1:], tail)
    if attrs:
        yield ('E', name, nsdecl, attrs[:-1], text, kids, tail)
    if nsdecl:
        yield ('E', name, nsdecl[:-1], attrs, text, kids, tail)
    if text is not None:
        yield ('E', name, nsdecl, attrs, None, kids, tail)
    if tail is not None:
        yield ('E', name, nsdecl, attrs, text, kids, None)


def fails_like(d: Disagreement, c: dict, op=None):
    sub = Run(PROP, 'quick', 0)
    try:
        compare(sub, [c], nops=0 if op is None else 8, stats=False)
    except Exception:
        return None
    for x in sub.disagreements:
        if x.kind == d.kind and x.what == d.what and x.tags == d.tags:
            return x
    return None


def shrink(d: Disagreement) -> Disagreement:
    if not isinstance(d.case, dict) or 'case' not in d.case or d.what.startswith('operator'):
        return d
    c = d.case['case']

    def norm(n):
        if n is None:
            return None
        if n[0] == 'E':
            return ('E', n[1], [tuple(x) for x in n[2]], [tuple(x) for x in n[3]], n[4], [norm(k) for k in n[5]], n[6])
        return tuple(n)
    c = dict(c, top=norm(c['top']), pro=[norm(x) for x in c['pro']], epi=[norm(x) for x in c['epi']],
             ns=None if c['ns'] is None else [tuple(x) for x in c['ns']])
    best = d
    budget = 150
    progress = True
    while progress and budget > 0 and c['top'] is not None and not c['path']:
        progress = False
        cands = [dict(c, top=r) for r in reductions(c['top'])]
        cands += [dict(c, pro=c['pro'][:-1])] if c['pro'] else []
        cands += [dict(c, epi=c['epi'][:-1])] if c['epi'] else []
        cands += [dict(c, ns=c['ns'][:-1])] if c['ns'] else []
        for cand in cands:
            budget -= 1
            x = fails_like(d, cand)
            if x is not None:
                c, best, progress = cand, x, True
                break
            if budget <= 0:
                break
    return best


def body(run: Run) -> int:
    run.trusted_base += [
        'xml.etree.ElementTree and lxml.etree as tree containers (tag/attrib/text/tail/children, lxml nsmap '
        'inheritance and document-level siblings are read back from the library objects)',
        'EPV/Model/Builder.lean (recursive) and EPV/Model/BuilderLoop.lean (explicit iterators/ancestors stacks, '
        'proved equal to the recursive form by loop_eq_build) are hand transcriptions of tree_builders.py / '
        'xpath_nodes.py; that they mirror the Python is what the correspondence checks on every run',
        'CPython sorted() is a stable sort; set iteration order is arbitrary (theorems quantify over it)']
    run.assumptions += [
        'no schema is bound to the tree (schema-defaulted attributes belong to C20)',
        'the wrapped etree is not mutated between building the node tree and reading it',
        'dict keys are unique (NsWF) for the exact-gap / faithful-image theorems; the strict-order theorem needs nothing']
    run.prove(['EPV.Props.C02', 'EPV.Props.C02Nav'],
              ['EPV.Spec.XDMTree', 'EPV.Spec.XDMNav', 'EPV.Model.Builder', 'EPV.Model.BuilderLoop', 'EPV.Model.BuilderNav', 'EPV.Proto'])
    try:
        if run.replay:
            payload = json.loads(Path(run.replay).read_text())
            fi = payload.get('failing_input') or {}
            c = (fi.get('case') or {}).get('case')
            if c:
                compare(run, [c], nops=8)
        else:
            correspond(run)
    except DriverError as e:
        run.broken.append('driver:C02 ' + str(e)[:300])
    return run.finish('proof', shrink=shrink, search=search)


if __name__ == '__main__':
    cli(PROP, body)

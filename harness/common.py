"""
Shared machinery of the /verif checks (see DESIGN.md section 2).

One check run =  translate (optional) -> lake build (proofs re-checked) -> axiom audit ->
correspondence (model/spec executed by the Lean driver vs. the real elementpath in /repo)
-> decide (known findings / violations / no-failing-input-found) -> evidence.

Exit codes: 0 property held on everything explored (KNOWN-FINDING lines allowed),
            1 VIOLATION line printed, 2 harness fault / timeout (never a verdict).
"""
from __future__ import annotations

import fcntl
import hashlib
import json
import os
import random
import re
import subprocess
import sys
import time
import traceback
from pathlib import Path
from typing import Any, Callable, Iterable, Optional, Sequence

VERIF = Path(__file__).resolve().parent.parent
LEAN = VERIF / 'lean'
REPO = Path(os.environ.get('VERIF_REPO', '/repo'))
EVIDENCE = VERIF / 'evidence'
REPLAYS = VERIF / 'replays'
CORPUS = VERIF / 'corpus'
KNOWN = VERIF / 'known_findings.json'

ALLOWED_AXIOMS = {'propext', 'Classical.choice', 'Quot.sound'}
FORBIDDEN_RE = re.compile(
    r'\bsorry\b|\badmit\b|^\s*axiom\s|native_decide|bv_decide|implemented_by|'
    r'\bunsafe\s|maxHeartbeats\s+0\b|ofReduceBool|trustCompiler', re.M)

os.environ.setdefault('ELEMENTPATH_VERIF', '1')


def use_repo() -> None:
    """Make `import elementpath` resolve to /repo's *current working tree*."""
    p = str(REPO)
    if p in sys.path:
        sys.path.remove(p)
    sys.path.insert(0, p)
    for name in list(sys.modules):
        if name == 'elementpath' or name.startswith('elementpath.'):
            del sys.modules[name]
    import elementpath  # noqa
    assert Path(elementpath.__file__).resolve().parent.parent == REPO.resolve(), \
        f"elementpath imported from {elementpath.__file__}, not from {REPO}"


# --------------------------------------------------------------------------------------
# Lean side
# --------------------------------------------------------------------------------------
class BuildLock:
    def __enter__(self):
        (LEAN / '.lake').mkdir(exist_ok=True)
        self.f = open(LEAN / '.lake' / 'verif.lock', 'w')
        fcntl.flock(self.f, fcntl.LOCK_EX)
        return self

    def __exit__(self, *a):
        fcntl.flock(self.f, fcntl.LOCK_UN)
        self.f.close()


def _strip_comments(src: str) -> str:
    # nested /- -/ block comments and -- line comments
    out = []
    i, depth, n = 0, 0, len(src)
    while i < n:
        if src.startswith('/-', i):
            depth += 1
            i += 2
        elif depth and src.startswith('-/', i):
            depth -= 1
            i += 2
        elif depth:
            i += 1
        elif src.startswith('--', i):
            while i < n and src[i] != '\n':
                i += 1
        elif src[i] == '"':
            j = i + 1
            while j < n and src[j] != '"':
                j += 2 if src[j] == '\\' else 1
            out.append('""')
            i = j + 1
        else:
            out.append(src[i])
            i += 1
    return ''.join(out)


def forbidden_words(paths: Iterable[Path]) -> list[str]:
    hits = []
    for p in paths:
        try:
            text = _strip_comments(p.read_text())
        except FileNotFoundError:
            continue
        for m in FORBIDDEN_RE.finditer(text):
            line = text.count('\n', 0, m.start()) + 1
            hits.append(f'{p.relative_to(LEAN)}:{line}: {m.group(0).strip()}')
    return hits


def module_deps(module: str, seen: Optional[set] = None) -> set[str]:
    """transitive set of EPV.* modules imported by `module` (by reading the sources)"""
    seen = set() if seen is None else seen
    if module in seen:
        return seen
    seen.add(module)
    path = LEAN / (module.replace('.', '/') + '.lean')
    if path.exists():
        for m in re.finditer(r'^\s*(?:public\s+)?import\s+(EPV[\w.]*)', path.read_text(), re.M):
            module_deps(m.group(1), seen)
    return seen


def module_path(module: str) -> Path:
    return LEAN / (module.replace('.', '/') + '.lean')


def lake_build(modules: Sequence[str], timeout: int = 1500) -> tuple[bool, str]:
    with BuildLock():
        p = subprocess.run(['lake', 'build', *modules], cwd=LEAN, capture_output=True,
                           text=True, timeout=timeout)
    return p.returncode == 0, (p.stdout + p.stderr)


def lean_audit(modules: Sequence[str], timeout: int = 600) -> tuple[dict[str, list[str]], list[str], str]:
    """returns ({theorem: axioms}, [declared axioms], raw output)"""
    p = subprocess.run(['lake', 'env', 'lean', '--run', 'Audit.lean', *modules], cwd=LEAN,
                       capture_output=True, text=True, timeout=timeout)
    thms: dict[str, list[str]] = {}
    decls: list[str] = []
    for line in p.stdout.splitlines():
        if line.startswith('THEOREM '):
            _, name, _, *rest = line.split(' ')
            axs = [a for a in ' '.join(rest).split(',') if a]
            thms[name] = axs
        elif line.startswith('AXIOMDECL '):
            decls.append(line.split(' ', 1)[1])
    if p.returncode != 0:
        raise RuntimeError('audit tool failed:\n' + p.stdout[-2000:] + p.stderr[-2000:])
    return thms, decls, p.stdout


def leanchecker(modules: Sequence[str], timeout: int = 1500) -> tuple[bool, str]:
    p = subprocess.run(['lake', 'env', 'leanchecker', *modules], cwd=LEAN, capture_output=True,
                       text=True, timeout=timeout)
    return p.returncode == 0, (p.stdout + p.stderr)[-3000:]


def run_driver(driver: str, lines: Sequence[str], timeout: int = 1500) -> list[str]:
    """Run `lake env lean --run Drivers/<driver>.lean` on the given protocol lines;
    returns one output line per input line (the driver's contract)."""
    if not lines:
        return []
    for ln in lines:
        assert '\n' not in ln, repr(ln)
    ensure_driver_built(driver)
    data = '\n'.join(lines) + '\n'
    p = subprocess.run(['lake', 'env', 'lean', '--run', f'Drivers/{driver}.lean'], cwd=LEAN,
                       input=data, capture_output=True, text=True, timeout=timeout)
    out = p.stdout.split('\n')
    if out and out[-1] == '':
        out.pop()
    if p.returncode != 0 or len(out) != len(lines):
        raise DriverError(f'driver {driver}: rc={p.returncode}, {len(out)} answers for '
                          f'{len(lines)} lines\n{p.stdout[-1500:]}\n{p.stderr[-3000:]}')
    return out


class DriverError(RuntimeError):
    pass


_DRIVERS_BUILT: set[str] = set()


def ensure_driver_built(driver: str) -> None:
    """`lean --run Drivers/X.lean` loads the compiled .olean of every module the driver imports; make
    sure they are up to date with the sources (a no-op when they are), once per process."""
    if driver in _DRIVERS_BUILT:
        return
    src = LEAN / 'Drivers' / f'{driver}.lean'
    mods = re.findall(r'^\s*import\s+(EPV[\w.]*)', src.read_text(), re.M) if src.exists() else []
    if mods:
        ok, out = lake_build(mods)
        if not ok:
            raise DriverError(f'driver {driver}: imported modules do not build\n{out[-3000:]}')
    _DRIVERS_BUILT.add(driver)


# --------------------------------------------------------------------------------------
# results of a correspondence pass
# --------------------------------------------------------------------------------------
class Disagreement:
    """impl: what /repo computed;  model: what the Lean model computed (None = n/a);
    spec: what the Lean spec computed (None = n/a).  kind is derived:
      'violation'  impl != spec           (property fails on the real code)
      'tie'        impl != model, impl == spec or spec n/a (model no longer mirrors the code)"""

    def __init__(self, case: Any, impl: Any, model: Any = None, spec: Any = None,
                 what: str = '', site: str = '', tags: Sequence[str] = ()):
        self.case, self.impl, self.model, self.spec = case, impl, model, spec
        self.what, self.site, self.tags = what, site, list(tags)

    @property
    def kind(self) -> str:
        if self.spec is not None and self.impl != self.spec:
            return 'violation'
        return 'tie'

    def to_json(self) -> dict:
        return {'case': self.case, 'impl': self.impl, 'model': self.model, 'spec': self.spec,
                'what': self.what, 'site': self.site, 'tags': self.tags, 'kind': self.kind}


class Stats:
    def __init__(self):
        self.evaluations = 0
        self.distinct: set = set()
        self.hist: dict[str, int] = {}
        self.samples: list = []
        self.rule = ''
        self.extra: dict[str, Any] = {}

    def count(self, key: str, n: int = 1):
        self.hist[key] = self.hist.get(key, 0) + n

    def case(self, case: Any, nontrivial: bool = True, sample_every: int = 997):
        self.evaluations += 1
        if nontrivial:
            h = hashlib.blake2b(json.dumps(case, sort_keys=True, default=str).encode(),
                                digest_size=8).digest()
            self.distinct.add(h)
        if len(self.samples) < 6 and (self.evaluations % sample_every == 1):
            self.samples.append(case)


# --------------------------------------------------------------------------------------
# known findings
# --------------------------------------------------------------------------------------
def load_known(prop: str) -> list[dict]:
    """findings of `prop` from known_findings.json (the committed, consolidated file) and from
    findings/<prop>.json (per-property source files it is consolidated from); read-only."""
    out: dict[str, dict] = {}
    for path in [KNOWN, VERIF / 'findings' / f'{prop}.json']:
        if path.exists():
            data = json.loads(path.read_text())
            for f in data.get('findings', []):
                if f.get('property') == prop:
                    out.setdefault(f['id'], f)
    return list(out.values())


def match_known(d: Disagreement, known: list[dict]) -> Optional[dict]:
    """A finding matches when its id is among the tags that the *check's own trigger
    predicate* attached to the disagreement (tags are computed from the input, by the
    same decidable predicate that is the hypothesis of the `_partial` theorem)."""
    for f in known:
        if f['id'] in d.tags:
            return f
    return None


# --------------------------------------------------------------------------------------
# the run object
# --------------------------------------------------------------------------------------
class Run:
    def __init__(self, prop: str, tier: str, seed: int):
        self.prop, self.tier, self.seed = prop, tier, seed
        self.t0 = time.time()
        self.rng = random.Random(f'{prop}/{seed}')
        self.broken: list[str] = []      # names of theorems / correspondences that no longer check
        self.disagreements: list[Disagreement] = []
        self.stats = Stats()
        self.obligations: list[str] = []
        self.discharged: list[str] = []
        self.axioms: dict[str, list[str]] = {}
        self.notes: list[str] = []
        self.build_log = ''
        self.assumptions: list[str] = []
        self.trusted_base: list[str] = []
        self.checker_cmd = ''
        self.known_lines: list[str] = []
        self.violations = 0

    @property
    def quick(self) -> bool:
        return self.tier == 'quick'

    def scale(self, quick: int, thorough: int) -> int:
        return quick if self.quick else thorough

    def log(self, *a):
        print(f'[{self.prop} {time.time() - self.t0:6.1f}s]', *a, file=sys.stderr, flush=True)

    # ---- proof side -------------------------------------------------------------------
    def prove(self, props_modules: Sequence[str], extra_modules: Sequence[str] = (),
              gen_note: str = '') -> bool:
        """build the property's theorem modules (+ driver deps) and audit their axioms."""
        mods = list(props_modules) + list(extra_modules)
        self.checker_cmd = (f'cd lean && lake build {" ".join(mods)} && lake env lean --run '
                            f'Audit.lean {" ".join(props_modules)}')
        # obligations = theorems written in the Props modules (counted from source so that a
        # failed build still knows what it owed)
        for m in props_modules:
            src = _strip_comments(module_path(m).read_text()) if module_path(m).exists() else ''
            ns = ''
            for line in src.splitlines():
                mm = re.match(r'\s*namespace\s+(\S+)', line)
                if mm:
                    ns = mm.group(1) + '.'
                mm = re.match(r'\s*(?:@\[[^\]]*\]\s*)?(?:private\s+|protected\s+)?theorem\s+(\S+)', line)
                if mm:
                    self.obligations.append(ns + mm.group(1))
        ok, out = lake_build(mods)
        self.build_log = out[-6000:]
        if not ok:
            failed = sorted(set(re.findall(r'error: (\S+\.lean:\d+:\d+)', out)))
            self.broken.append('proof-build:' + ','.join(props_modules) +
                               (' at ' + ' '.join(failed[:8]) if failed else ''))
            self.log('BUILD FAILED\n' + out[-3000:])
            return False
        all_src = set()
        for m in mods:
            all_src |= module_deps(m)
        hits = forbidden_words(module_path(m) for m in sorted(all_src))
        if hits:
            self.broken.append('forbidden-constructs:' + ';'.join(hits[:10]))
        thms, decls, _ = lean_audit(list(props_modules))
        if decls:
            self.broken.append('axiom-declared:' + ','.join(decls))
        self.axioms = thms
        for name, axs in thms.items():
            bad = [a for a in axs if a not in ALLOWED_AXIOMS]
            if bad:
                self.broken.append(f'axioms:{name}:{",".join(bad)}')
            else:
                self.discharged.append(name)
        missing = [o for o in self.obligations if o not in thms]
        if missing:
            # private/namespaced names: fall back to suffix match
            for o in list(missing):
                if any(t.endswith('.' + o.split('.')[-1]) or t == o for t in thms):
                    missing.remove(o)
        if missing:
            self.broken.append('theorems-missing-from-build:' + ','.join(missing[:10]))
        if not self.quick:
            ok, out = leanchecker(list(props_modules))
            if not ok:
                self.broken.append('leanchecker:' + out[-400:])
            else:
                self.notes.append('leanchecker re-checked ' + ' '.join(props_modules))
        return not self.broken

    # ---- correspondence side ----------------------------------------------------------
    def driver(self, name: str, lines: Sequence[str]) -> list[str]:
        return run_driver(name, lines)

    def disagree(self, d: Disagreement):
        self.disagreements.append(d)

    # ---- verdict ----------------------------------------------------------------------
    def finish(self, level: str = 'proof', shrink: Optional[Callable[[Disagreement], Disagreement]] = None,
               search: Optional[Callable[['Run'], list[Disagreement]]] = None) -> int:
        known = load_known(self.prop)
        viol = [d for d in self.disagreements if d.kind == 'violation']
        ties = [d for d in self.disagreements if d.kind == 'tie']
        if ties:
            names = sorted({f'correspondence:{self.prop}/{d.what or "model"}' for d in ties})
            self.broken.extend(names)
        new_viol: list[Disagreement] = []
        seen_known: dict[str, Disagreement] = {}
        for d in viol:
            f = match_known(d, known)
            if f is None:
                new_viol.append(d)
            else:
                seen_known.setdefault(f['id'], d)
        # something broke but no failing input yet -> look for one
        if self.broken and not new_viol and search is not None:
            try:
                self.log('broken:', self.broken, '-> searching for a failing input')
                for d in search(self):
                    if d.kind == 'violation' and match_known(d, known) is None:
                        new_viol.append(d)
            except Exception:  # search trouble must not mask the verdict
                self.log('search failed:\n' + traceback.format_exc())
        for fid, d in sorted(seen_known.items()):
            f = next(x for x in known if x['id'] == fid)
            line = f"KNOWN-FINDING: property={self.prop} {fid} {f['what']}"
            self.known_lines.append(line)
            print(line)
        rc = 0
        replay_path = None
        if new_viol:
            d = new_viol[0]
            if shrink is not None:
                try:
                    d = shrink(d)
                except Exception:
                    self.log('shrink failed:\n' + traceback.format_exc())
            replay_path = self.write_replay({'failing_input': d.to_json(),
                                             'other_failures': [x.to_json() for x in new_viol[1:6]],
                                             'broken': self.broken})
            print(f'VIOLATION property={self.prop} replay={replay_path}')
            rc = 1
        elif self.broken:
            replay_path = self.write_replay({'failing_input': None, 'broken': self.broken,
                                             'tie_breaks': [x.to_json() for x in ties[:6]],
                                             'build_log_tail': self.build_log[-3000:]})
            print(f'VIOLATION property={self.prop} replay={replay_path} no-failing-input-found')
            rc = 1
        self.violations = len(new_viol) if new_viol else (1 if self.broken else 0)
        self.write_evidence(level, len(seen_known))
        return rc

    def write_replay(self, payload: dict) -> str:
        d = REPLAYS / self.prop
        d.mkdir(parents=True, exist_ok=True)
        payload = dict(payload, property=self.prop, tier=self.tier, seed=self.seed,
                       replay_cmd=f'./check {self.prop} --replay <this file>')
        name = hashlib.blake2b(json.dumps(payload, sort_keys=True, default=str).encode(),
                               digest_size=6).hexdigest()
        path = d / f'{name}.json'
        path.write_text(json.dumps(payload, indent=1, default=str))
        return str(path.relative_to(VERIF))

    def write_evidence(self, level: str, known_hit: int):
        EVIDENCE.mkdir(exist_ok=True)
        s = self.stats
        cov: dict[str, Any] = {
            'obligations': len(self.obligations),
            'discharged': len([o for o in self.obligations
                               if any(t == o or t.endswith('.' + o.split('.')[-1]) for t in self.discharged)]),
            'checker_cmd': self.checker_cmd or 'n/a',
            'trusted_base': self.trusted_base + [
                'Lean 4.33.0 kernel', 'axioms used: ' + ', '.join(sorted({a for v in self.axioms.values() for a in v}) or ['none']),
                'harness/common.py + this property\'s correspondence harness',
                'CPython 3.12 executing /repo'],
            'theorems': sorted(self.axioms),
            'evaluations': s.evaluations,
            'distinct_nontrivial': len(s.distinct),
            'rule': s.rule,
            'samples': s.samples[:8] or ['(no correspondence cases run)'],
            'traces_validated_against_impl': s.evaluations,
            'histogram': dict(sorted(s.hist.items())),
            'disagreements': len(self.disagreements),
            'known_findings_hit': known_hit,
            'known_finding_lines': self.known_lines,
            'broken': self.broken,
            'notes': self.notes,
        }
        cov.update(s.extra)
        ev = {'property_id': self.prop, 'tier': self.tier, 'seed': self.seed, 'level': level,
              'coverage': cov, 'assumptions': self.assumptions,
              'wall_s': round(time.time() - self.t0, 2), 'violations': self.violations}
        (EVIDENCE / f'{self.prop}.json').write_text(json.dumps(ev, indent=1, default=str))


def cli(prop: str, body: Callable[[Run], int], translate: Optional[Callable[[Run], Any]] = None) -> None:
    """common entry point:  harness/cXX.py --tier quick|thorough [--replay file] [--translate-only]"""
    import argparse
    ap = argparse.ArgumentParser()
    ap.add_argument('--tier', default=os.environ.get('VERIF_TIER') or 'quick', choices=['quick', 'thorough'])
    ap.add_argument('--replay')
    ap.add_argument('--translate-only', action='store_true')
    args = ap.parse_args()
    seed = int(os.environ.get('VERIF_SEED', '0') or 0)
    run = Run(prop, args.tier, seed)
    run.replay = args.replay
    try:
        use_repo()
        if args.translate_only:
            if translate is not None:
                translate(run)
            sys.exit(0)
        rc = body(run)
    except subprocess.TimeoutExpired as e:
        print(f'TIMEOUT in {prop}: {e}', file=sys.stderr)
        rc = 2
    except Exception:
        traceback.print_exc()
        rc = 2
    sys.exit(rc)

"""C20 phase 5: direct probe of decoder.get_atomic_sequence on texts of ANY number of tokens.

For atomic types (builtins, restrictions) and unions of atomic members the real
`get_atomic_sequence(xsd_type, text)` is compared with the Lean model (`atomicSequence isValid`) and the
Lean specification (`Spec.decode`) through the driver op `DEC stype text` — on multi-token texts the
expected agreement is a REJECTION for every non-string builtin (theorems `pyDecode_eq_xsdLex_all`,
`typed_value_eq_spec_builtin_all`, `typed_value_eq_spec_union_all`).  The c20 module is passed in as
`M` (this file is imported by harness/c20.py).
"""
from __future__ import annotations

NONSTR = ['boolean', 'decimal', 'double', 'integer', 'long', 'int', 'short', 'byte', 'nonNegativeInteger',
          'positiveInteger', 'unsignedLong', 'unsignedInt', 'unsignedShort', 'unsignedByte',
          'nonPositiveInteger', 'negativeInteger', 'date', 'dateTime', 'gYear', 'gYearMonth']
STRFAM = ['string', 'normalizedString', 'token', 'anyURI']
SEPS = [' ', ' ', '  ', '\t', '\n', ' \r\n', '\r']
JUNK = ['x', '1', 'true', '-', 'Z', '1e1', '2001-01-01', 'T', '.', '+']


def probe_types(M) -> list:
    B = lambda n: ('B', n)                                                           # noqa: E731
    have = set(M.BUILTINS)
    out = [B(n) for n in NONSTR + STRFAM if n in have]
    myint = ('R', 'p5myint', B('int'), {'enum': None, 'min': None, 'max': 100})
    byte100 = ('R', 'p5byte', B('byte'), {'enum': None, 'min': -5, 'max': 100})
    mydec = ('R', 'p5dec', B('decimal'), {'enum': ['1.50', '2'], 'min': None, 'max': None})
    mydate = ('R', 'p5date', B('date'), {'enum': None, 'min': None, 'max': None})
    out += [myint, byte100, mydec, mydate,
            ('U', 'p5u1', [B('int'), B('boolean')]),
            ('U', 'p5u2', [myint, B('boolean'), B('token')]),
            ('U', 'p5u3', [B('decimal'), B('date'), B('double')]),
            ('U', 'p5u4', [byte100, B('string')]),
            ('U', 'p5u5', [B('gYear'), B('dateTime'), B('unsignedByte'), B('gYearMonth')]),
            ('U', 'p5u6', [B('double'), B('normalizedString')])]
    return out


def family(st) -> str:
    if st[0] == 'U':
        return 'union:' + ('with-string-member' if any(leaf(m) in STRFAM for m in st[2]) else 'numeric-date-only')
    lf = leaf(st)
    k = 'restr:' if st[0] == 'R' else ''
    if lf in STRFAM:
        return k + 'string-family'
    if lf in ('date', 'dateTime', 'gYear', 'gYearMonth', 'boolean', 'decimal', 'double'):
        return k + lf
    return k + 'integer-family'


def leaf(st):
    while st[0] == 'R':
        st = st[2]
    return st[1] if st[0] == 'B' else None


def gen_probe_text(M, rng, st) -> str:
    """one to four tokens: valid literals of the type (or of a member) and junk, joined by white space"""
    r = rng.random()
    n = 1 if r < 0.15 else 2 if r < 0.7 else 3 if r < 0.9 else 4
    toks = []
    for _ in range(n):
        if rng.random() < 0.2:
            toks.append(rng.choice(JUNK))
            continue
        try:
            t = M.gen_text(rng, st).split()
        except Exception:
            t = []
        toks.append(t[0] if t else rng.choice(JUNK))
    s = toks[0]
    for t in toks[1:]:
        s += rng.choice(SEPS) + t
    if rng.random() < 0.3:
        s = rng.choice(['', ' ', '\n', '\t ']) + s + rng.choice([' ', '', '\n'])
    return s


def build(M, version: str, types: list):
    import xmlschema
    sch = M.Schema(version)
    named = []

    def collect(st):
        if st[0] == 'B':
            return
        for m in (st[2] if st[0] == 'U' else [st[2]]):
            collect(m)
        if st[1] and st not in named:
            named.append(st)
    for st in types:
        collect(st)
    parts = [f'<xs:schema xmlns:xs="{M.XSD_NS}" xmlns:t="{M.NS}" targetNamespace="{M.NS}" elementFormDefault="qualified">']
    parts += [sch.st_xsd(st, True) for st in named]
    parts += [f'<xs:element name="e{k}" type="{sch.st_ref(st)}"/>' for k, st in enumerate(types)]
    parts.append('</xs:schema>')
    xsd = ''.join(parts)
    cls = xmlschema.XMLSchema10 if version == '1.0' else xmlschema.XMLSchema11
    xs = cls(xsd)
    return sch, xsd, [xs.elements[f'e{k}'].type for k in range(len(types))]


def decoder_probe(run, n: int, M) -> None:
    from elementpath.decoder import get_atomic_sequence
    from harness.common import Disagreement
    rng = run.rng
    types = probe_types(M)
    st_ = run.stats
    for version in ('1.0', '1.1'):
        M.CUR_VERSION[0] = version
        sch, xsd, xts = build(M, version, types)
        cases = []
        for k, st in enumerate(types):               # every type gets its share, multi-token first
            for j in range(max(2, n // (2 * len(types)))):
                text = gen_probe_text(M, rng, st)
                cases.append((k, st, text))
        cases += [(k, st, t) for k, st in enumerate(types) for t in ('1 2', 'true false', ' 2001-01-01 Z', '1\t.5')]
        lines = ['DEC ' + ' '.join(sch.st_tok(st)) + ' ' + M.enc(text) for _, st, text in cases]
        answers = run.driver('C20', lines)
        for (k, st, text), ans in zip(cases, answers):
            cid = {'where': 'decoder-probe', 'type': sch.st_ref(st), 'text': text, 'version': version, 'xsd': xsd,
                   'xml': f'<e{k} xmlns="{M.NS}">{M.esc(text)}</e{k}>'}
            if ans.startswith('bad-'):
                run.disagree(Disagreement(cid, 'driver:' + ans, what='protocol'))
                continue
            A = dict(f.partition('=')[::2] for f in ans.split('|'))
            try:
                vs = list(get_atomic_sequence(xts[k], text))
                iv = M.canon_tv(vs, text, False)
            except Exception as e:
                iv = M.impl_err(e)
            mv, sv = A['M'], A['S']
            sv_tv = 'err' if sv == 'none' else sv
            ntok = len(text.split())
            multi = ntok >= 2
            fam = family(st)
            st_.count('dec:tokens:' + ('1' if ntok == 1 else '0' if ntok == 0 else '2+'))
            st_.count(f'dec:{fam}:' + ('multi' if multi else 'single') + (':rejected' if iv == 'err' else ':accepted'))
            st_.count('dec:xsd:' + version)
            # the two white-space facts of the theorem, against Python's own strip/split
            py_sw = '1' if any(c in ' \t\n\r' for c in text.strip(' \t\n\r')) else '0'
            py_cw = '1' if ' ' in ' '.join(text.split()) else '0'
            if (A['W'], A['SW'], A['CW']) != (str(ntok), py_sw, py_cw):
                run.disagree(Disagreement(cid, impl=f'{ntok}/{py_sw}/{py_cw}', model=f"{A['W']}/{A['SW']}/{A['CW']}",
                                          spec=None, what='decoder-probe-tokens', site='str.split/str.strip'))
            # `typed_value_eq_spec_all` speaks about VALID literals of a facet-restricted atomic type (the decoder of an
            # atomic type does not look at facets: validity is the schema processor's business; only the member
            # selection of a union does, and unions are an equation).  A literal of the base type that the facets
            # reject is outside the statement: model and code must still agree on it.
            facet_invalid = st[0] == 'R' and sv_tv == 'err' and iv == mv and iv != 'err'
            if facet_invalid:
                st_.count('dec:facet-invalid-literal-of-restriction(outside-the-statement,model=impl)')
            if iv != mv or (iv != sv_tv and not facet_invalid):
                run.disagree(Disagreement(cid, impl=iv, model=mv, spec=sv_tv, what='decoder-probe',
                                          site='decoder.get_atomic_sequence'))
            # third oracle: the schema processor's own verdict on the literal
            try:
                ok = bool(xts[k].is_valid(text))
            except Exception:
                ok = None
            if ok is not None:
                st_.count('dec:xmlschema-verdict-compared')
                if ok != (sv != 'none'):
                    st_.count('dec:xmlschema-verdict-differs')
                    run.stats.extra.setdefault('dec_xmlschema_differs', [])
                    if len(run.stats.extra['dec_xmlschema_differs']) < 10:
                        run.stats.extra['dec_xmlschema_differs'].append([sch.st_ref(st), text, ok, sv])
            run.stats.case({'dec': sch.st_ref(st), 'text': text, 'version': version}, nontrivial=multi, sample_every=97)

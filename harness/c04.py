"""
C04 — token trees realise the XPath grammar; source text round-trips; no hash-seed dependence.

 translate : walks the live symbol_table of XPath1Parser / XPath2Parser / XPath30Parser /
             XPath31Parser and writes lean/EPV/Gen/C04Tables.lean: per operator symbol lbp, what its
             led does (infix rbp / typed / bracket + closer, guards, next-token checks) and what
             its nud does (prefix rbp / group).  rbp, kind, closers: read from closures and the ast of
             the led/nud functions; guards (`deny`) and next-token checks (`rhs`): probed on the live
             parser and cross-checked against the ast where the guard is a plain `left.symbol in X`.
 prove     : EPV.Props.C04 (generic Pratt theorems), EPV.Props.C04Tables (`decide` over the tables)
 correspond: (i) random operator/operand sequences: real parser vs Lean model vs Lean EBNF parser
             (ii) parse(tok.source) == tok   (iii) whitespace / (: :) insertion   (iv) hash seeds
 search    : exhaustive 1-3 operator expressions over all pairs of operators (no parentheses)
"""
from __future__ import annotations

import ast
import inspect
import itertools
import json
import os
import subprocess
import sys
import textwrap
from pathlib import Path

sys.path.insert(0, str(Path(__file__).resolve().parent.parent))
from harness.common import (Run, Disagreement, cli, LEAN, VERIF, REPO, DriverError)  # noqa: E402

PROP = 'C04'
VERSIONS = ['10', '20', '30', '31']
# the 2.0+ parsers built with compatibility_mode=True: same EBNF, own generated tables and theorems
COMPAT = ['20c', '30c', '31c']
ALL_VERSIONS = VERSIONS + COMPAT
VNUM = {'10': 10, '20': 20, '30': 30, '31': 31, '20c': 120, '30c': 130, '31c': 131}


def base_of(ver: str) -> str:
    return ver[:2]

TYPED_KEYWORD = {'instance': 'instance of', 'treat': 'treat as', 'castable': 'castable as', 'cast': 'cast as'}
CLOSERS = {')': 0, ']': 1}
NOT_IN_FRAGMENT = {':', '#', 'Q{', '{', '}'}     # QName / EQName / named function reference syntax
CLOSER_TEXT = {0: ')', 1: ']'}
# sample operand texts per atom kind (kind k, id n)
# 6 (XPath 3.1 only): the `*` lookup key (used only after `?`); 4, 5 are no longer used: the unary lookup
# `? KeySpecifier` (3.1 [76]) is now a prefix symbol of the Lean model and a primary of the Lean grammar.
# 7-9: names that spell operator keywords, unprefixed / prefixed `x:` / wildcard `*:` (2.0+);
# 10: static function calls with 0-2 arguments (nested); 11 (3.1): parenthesised arrow expressions with every
# function-specifier form.  All are primaries of the EBNF: operands for the model and the reference parser.
KEYWORDS = ['div', 'mod', 'and', 'or', 'union', 'intersect', 'except', 'to', 'eq', 'ne', 'lt', 'le', 'gt', 'ge', 'is',
            'idiv', 'instance', 'treat', 'cast', 'castable', 'if', 'for', 'some', 'every', 'let', 'return', 'satisfies',
            'map', 'array']
FN = 'http://www.w3.org/2005/xpath-functions'
# (first version, text, tree written by hand in the notation of Token.tree)
CALLS = [
    ('10', 'true()', '(true)'), ('10', 'count(n1)', '(count (n1))'), ('10', "concat('s1', n2)", "(concat ('s1') (n2))"),
    ('10', 'string(count(n1))', '(string (count (n1)))'), ('10', 'not(n1 = 2)', '(not (= (n1) (2)))'),
    ('20', "fn:string-length(upper-case('s1'))", "(: (fn) (string-length (upper-case ('s1'))))"),
    ('20', "concat(x:div, string(x:mod), *:union)", "(concat (: (x) (div)) (string (: (x) (mod))) (: (*) (union)))"),
    ('30', "Q{%s}concat('s1', string(2))" % FN, "(Q{ ('%s') (concat ('s1') (string (2))))" % FN),
]
ARROWS = [
    ("('s1' => concat(upper-case('s2')))", "(=> ('s1') (concat) (upper-case ('s2')))"),
    ("('s1' => fn:concat(upper-case('s2')))", "(=> ('s1') (: (fn) (concat)) (upper-case ('s2')))"),
    ("('s1' => Q{%s}concat(upper-case('s2'), string(1)))" % FN,
     "(=> ('s1') (Q{ ('%s') (concat)) (, (upper-case ('s2')) (string (1))))" % FN),
    ("('s1' => (concat#2)(upper-case('s2')))", "(=> ('s1') (# (concat) (2)) (upper-case ('s2')))"),
    ("('s1' => $v1(upper-case('s2')))", "(=> ('s1') ($ (v1)) (upper-case ('s2')))"),
    ("('s1' => (function($a, $b) { concat($a, $b) })(string(count(n1))))",
     "(=> ('s1') (function ($ (a)) ($ (b))) (string (count (n1))))"),
    ("('s1' => fn:concat(concat('s2', string(3)), 4))", "(=> ('s1') (: (fn) (concat)) (, (concat ('s2') (string (3))) (4)))"),
    ("((1, 2) => fn:count() => fn:string())", "(=> (=> (, (1) (2)) (: (fn) (count)) ()) (: (fn) (string)) ())"),
    ("(n1 => fn:concat(?1, x:div))", "(=> (n1) (: (fn) (concat)) (, (? (1)) (: (x) (div))))"),
    ("('s1' => fn:concat('s2' => upper-case()))", "(=> ('s1') (: (fn) (concat)) (=> ('s2') (upper-case) ()))"),
    ("('s1' => fn:upper-case())", "(=> ('s1') (: (fn) (upper-case)) ())"),
]


def atom_kind_list(ver: str) -> list[int]:
    b = base_of(ver)
    kinds = [0, 1, 2, 3, 7, 8, 10]
    if b >= '20':
        kinds.append(9)
    if b == '31':
        kinds += [6, 11]
    return sorted(kinds)


def atom_ids(ver: str, k: int) -> list[int]:
    """identities available for an operand kind in a version"""
    if k in (7, 8, 9):
        return list(range(len(KEYWORDS)))
    if k == 10:
        return [i for i, c in enumerate(CALLS) if c[0] <= base_of(ver)]
    if k == 11:
        return list(range(len(ARROWS)))
    if k == 6:
        return [0]
    return list(range(1, 8))


def atom_text(k: int, n: int) -> str:
    if k == 7:
        return KEYWORDS[n]
    if k == 8:
        return 'x:' + KEYWORDS[n]
    if k == 9:
        return '*:' + KEYWORDS[n]
    if k == 10:
        return CALLS[n][1]
    if k == 11:
        return ARROWS[n][0]
    return [f'n{n}', f'{n}', f'$v{n}', f"'s{n}'", f'?n{n}', f'?{n}', '*'][k]


TREE2ATOM = {}
for _i, _k in enumerate(KEYWORDS):
    TREE2ATOM[f'({_k})'] = f'7.{_i}'
    TREE2ATOM[f'(: (x) ({_k}))'] = f'8.{_i}'
    TREE2ATOM[f'(: (*) ({_k}))'] = f'9.{_i}'
for _i, _c in enumerate(CALLS):
    TREE2ATOM[_c[2]] = f'10.{_i}'
for _i, _c in enumerate(ARROWS):
    TREE2ATOM[_c[1]] = f'11.{_i}'

# type tokens: `ty n` = base type n // 4 with occurrence indicator n % 4 ('' ? * +), as in EPV/Spec/EBNF.lean (tyBase, tyOcc);
# base 0 is empty-sequence() (no indicator).  The W3C lexical constraint xgc:occurrence-indicators is part of the Lean
# spec (`absorbOcc`): a `+ * ?` operator token directly after a type without indicator is absorbed into the type.
BASES = ['empty-sequence()', 'xs:integer', 'xs:string', 'xs:decimal', 'xs:boolean', 'item()', 'node()', 'element()',
         'attribute()', 'function(*)', 'map(*)', 'array(*)']
OCC = ['', '?', '*', '+']
ATOMIC_BASES = [1, 2, 3, 4]
TYPES = [b + o for b in BASES for o in OCC]       # index n = 4 * base + occurrence


def type_ids(ver: str, sym: str) -> list[int]:
    """type tokens a typed operator may be followed by in a version"""
    if sym in ('cast', 'castable'):
        return [4 * b + o for b in ATOMIC_BASES for o in (0, 0, 1)]
    nb = {'20': 9, '30': 10, '31': 12}.get(base_of(ver), 9)
    return [0, 0] + [4 * b + o for b in range(1, nb) for o in range(4)]


def ty_text(n: int) -> str:
    return TYPES[n % len(TYPES)]


_parsers: dict = {}


def parser_class(ver: str):
    import elementpath
    from elementpath.xpath30 import XPath30Parser
    from elementpath.xpath31 import XPath31Parser
    return {'10': elementpath.XPath1Parser, '20': elementpath.XPath2Parser,
            '30': XPath30Parser, '31': XPath31Parser}[base_of(ver)]


def parser(ver: str, **options):
    """the parser instance of a version key ('20c' = XPath2Parser(compatibility_mode=True)); extra
    constructor options give other cached variants"""
    key = (ver, json.dumps(options, sort_keys=True))
    if key not in _parsers:
        kw = dict(options)
        kw.setdefault('namespaces', {'x': 'urn:c04:x'})
        if ver.endswith('c'):
            kw['compatibility_mode'] = True
        _parsers[key] = parser_class(ver)(**kw)
    return _parsers[key]


# --------------------------------------------------------------------------- impl observation
class Unmappable(Exception):
    pass


def dump(tok, symidx=None) -> str:
    """canonical S-expression of a token tree in the abstract alphabet of the Lean model"""
    s = tok.symbol
    n = len(tok)
    if s in ('(name)', ':', 'Q{') or str(tok.label).endswith('function') or \
            (s == '(' and n == 1 and tok[0].symbol == '=>' and tok[0].span[0] >= tok.span[0]):
        tr = TREE2ATOM.get(tok.tree)
        if tr is not None and (s != '(' or tr.startswith('11.')):
            return tr
    if s == '(name)':
        v = tok.value
        if isinstance(v, str) and v[:1] == 'n' and v[1:].isdigit():
            return f'0.{v[1:]}'
        return f'?name:{v}'
    if s == '(integer)':
        return f'1.{tok.value}'
    if s == '$' and n == 1 and tok[0].symbol == '(name)' and str(tok[0].value)[:1] == 'v':
        return f'2.{tok[0].value[1:]}'
    if s == '(string)':
        v = tok.value
        if isinstance(v, str) and v[:1] == 's' and v[1:].isdigit():
            return f'3.{v[1:]}'
        return f'?str:{v}'
    if s == '*' and n == 0:
        return '6.0'
    if s == '(':
        if n == 0:
            return '(G( _)'
        if n == 1:
            if tok[0].span[0] < tok.span[0]:
                return f'(X( {dump(tok[0])} _)'
            return f'(G( {dump(tok[0])})'
        if n == 2:
            return f'(X( {dump(tok[0])} {dump(tok[1])})'
    if s == '[' and n == 2:
        return f'(X[ {dump(tok[0])} {dump(tok[1])})'
    if s in TYPED_KEYWORD and n >= 2:
        t = ''.join(x.source for x in tok[1:]).replace(' ', '')
        return f'(T{s} {dump(tok[0])} {t})'
    if s == '=>' and n == 3:
        return f'(A=> {dump(tok[0])} {dump(tok[1])} {dump(tok[2])})'
    if n == 1:
        return f'(P{s} {dump(tok[0])})'
    if n == 2:
        return f'(B{s} {dump(tok[0])} {dump(tok[1])})'
    return '(?' + s + ''.join(' ' + dump(x) for x in tok) + ')'


def state_check(ver: str, src: str, p) -> None:
    """`XPath1Parser.parse` (xpath1_parser.py:248-251) wraps the syntactic phase in `try … finally:
    self.parse_arguments = True` ("left False by a failed arrow operator parse").  The harness observes the syntactic
    phase alone (`tdop.Parser.parse`) on cached parser objects, so it has to do the same reset; without it a failed
    `x => f +` makes every later case on that parser object read `g(1)` as a name followed by a dynamic call."""
    if getattr(p, 'parse_arguments', True) is not True:
        p.parse_arguments = True


def impl_parse(ver: str, src: str, **options):
    """returns (canonical dump or ERR:.., token or None)"""
    from elementpath.exceptions import ElementPathError
    from elementpath.tdop import Parser as TdopParser
    try:
        return impl_parse_(ver, src, **options)
    finally:
        state_check(ver, src, parser(ver, **options))


def impl_parse_(ver: str, src: str, **options):
    from elementpath.exceptions import ElementPathError
    from elementpath.tdop import Parser as TdopParser
    try:
        # the syntactic phase of XPath1Parser.parse (tdop.Parser.parse); the static evaluation that
        # XPath1Parser.parse runs afterwards is not part of this property
        tok = TdopParser.parse(parser(ver, **options), src)
    except ElementPathError as e:
        code = (getattr(e, 'code', None) or 'none').split(':')[-1]
        return f'ERR:{code}', None
    except RecursionError:
        return 'ERR:OTHER:RecursionError', None
    except Exception as e:  # anything else escaping the parser
        return f'ERR:OTHER:{type(e).__name__}', None
    try:
        return dump(tok), tok
    except Exception as e:
        return f'ERR:OTHER:dump:{type(e).__name__}', tok


def is_err(s: str) -> bool:
    return s.startswith('ERR')


STATIC_CODES = ('ERR:XPST0003', 'ERR:XPST0017', 'ERR:XPTY0004')


def same(impl: str, lean: str) -> bool:
    """impl result vs Lean (model or spec) result; static errors of the parser are one class"""
    if lean.startswith('ERR:syntax') or lean == 'ERR':
        return impl in STATIC_CODES
    return impl == lean


# ------------------------------------------------------------------------------ translator
def _src_ast(func):
    src = textwrap.dedent(inspect.getsource(func))
    return ast.parse(src).body[0]


def _closure(func) -> dict:
    try:
        return dict(inspect.getclosurevars(func).nonlocals)
    except Exception:
        return {}


_current_version = ['31']
_current_cls = [None]


def _eval(node, func):
    """value of an expression inside a led/nud (binding powers may depend on `self.parser.version`)"""
    import types
    loc = _closure(func)
    cls = _current_cls[0]
    loc.setdefault('self', types.SimpleNamespace(parser=parser(_current_version[0]), lbp=getattr(cls, 'lbp', 0),
                                                 rbp=getattr(cls, 'rbp', 0), symbol=getattr(cls, 'symbol', '')))
    return eval(compile(ast.Expression(node), '<c04>', 'eval'), dict(func.__globals__), loc)


def analyse(func) -> dict:
    """what a led/nud function does, read from its source"""
    fdef = _src_ast(func)
    info = {'expr': [], 'advance': [], 'seqtype': False, 'guards': [], 'expected_next': [], 'expected': [],
            'empty_check': False, 'first_advance': False, 'calls': [], 'line': func.__code__.co_firstlineno,
            'name': func.__qualname__}
    body = [s for s in fdef.body if not (isinstance(s, ast.Expr) and isinstance(getattr(s, 'value', None), ast.Constant))]
    for node in ast.walk(fdef):
        if isinstance(node, ast.Call) and isinstance(node.func, ast.Attribute):
            name = node.func.attr
            info['calls'].append(name)
            if name == 'expression':
                arg = None
                if node.args:
                    arg = node.args[0]
                for kw in node.keywords:
                    if kw.arg == 'rbp':
                        arg = kw.value
                try:
                    info['expr'].append(0 if arg is None else int(_eval(arg, func)))
                except Exception:
                    info['expr'].append(None)
            elif name == 'advance':
                if node.args and isinstance(node.args[0], ast.Constant):
                    info['advance'].append(node.args[0].value)
                elif node.args and isinstance(node.args[0], ast.IfExp):
                    info['advance'].append('?')
                elif not node.args:
                    info['advance'].append(None)
            elif name == 'parse_sequence_type':
                info['seqtype'] = True
            elif name == 'expected_next':
                info['expected_next'].append([a.value for a in node.args if isinstance(a, ast.Constant)])
            elif name == 'expected':
                info['expected'].append([a.value for a in node.args if isinstance(a, ast.Constant)])
        if isinstance(node, ast.Compare) and len(node.ops) == 1 and isinstance(node.ops[0], ast.NotEq):
            c = node.comparators[0]
            if isinstance(c, ast.Constant) and c.value in CLOSERS:
                info['empty_check'] = True
    # guards: top-level `if left.symbol in X: raise` / `if left.symbol == 'x': raise`
    for st in body:
        if isinstance(st, ast.If) and len(st.body) == 1 and isinstance(st.body[0], ast.Raise) and not st.orelse:
            t = st.test
            if isinstance(t, ast.Compare) and isinstance(t.left, ast.Attribute) and t.left.attr == 'symbol' \
                    and isinstance(t.left.value, ast.Name) and t.left.value.id == 'left' and len(t.ops) == 1:
                try:
                    if isinstance(t.ops[0], ast.In):
                        info['guards'].append(sorted(str(x) for x in _eval(t.comparators[0], func)))
                    elif isinstance(t.ops[0], ast.Eq):
                        info['guards'].append([str(_eval(t.comparators[0], func))])
                except Exception:
                    info['guards'].append(None)
    if body and isinstance(body[0], ast.Expr) and isinstance(body[0].value, ast.Call) \
            and isinstance(body[0].value.func, ast.Attribute) and body[0].value.func.attr == 'advance':
        info['first_advance'] = True
    return info


def analyse_arrow(func):
    """led__arrow_operator: `self[:] = left, <specifier>` with `expression(s)` in every branch that parses the
    specifier, then at top level `right = self.parser.expression(a)`, `right.expected('(')`, `self.append(right)`"""
    fdef = _src_ast(func)

    def is_expr_call(n):
        return isinstance(n, ast.Call) and isinstance(n.func, ast.Attribute) and n.func.attr == 'expression'

    def rbp_of(call):
        arg = call.args[0] if call.args else None
        for kw in call.keywords:
            if kw.arg == 'rbp':
                arg = kw.value
        return 0 if arg is None else int(_eval(arg, func))

    tops = [st for st in fdef.body if isinstance(st, ast.Assign) and len(st.targets) == 1
            and isinstance(st.targets[0], ast.Name) and is_expr_call(st.value)]
    if len(tops) != 1:
        return None
    name = tops[0].targets[0].id
    opened, appended = None, False
    for st in fdef.body:
        if isinstance(st, ast.Expr) and isinstance(st.value, ast.Call) and isinstance(st.value.func, ast.Attribute):
            c = st.value
            if c.func.attr == 'expected' and isinstance(c.func.value, ast.Name) and c.func.value.id == name \
                    and len(c.args) == 1 and isinstance(c.args[0], ast.Constant):
                opened = c.args[0].value
            if c.func.attr == 'append' and len(c.args) == 1 and isinstance(c.args[0], ast.Name) and c.args[0].id == name:
                appended = True
    if opened is None or not appended:
        return None
    try:
        inner = {rbp_of(n) for n in ast.walk(fdef) if is_expr_call(n) and n is not tops[0].value}
        arbp = rbp_of(tops[0].value)
    except Exception:
        return None
    if len(inner) != 1:
        return None
    return {'srbp': inner.pop(), 'arbp': arbp, 'open': opened}


def classify_led(sym: str, cls, base_led) -> dict:
    f = cls.led
    if f is base_led:
        return {'kind': 'none'}
    if sym in NOT_IN_FRAGMENT:
        return {'kind': 'other', 'why': 'name syntax, not an operator of the fragment'}
    try:
        a = analyse(f)
    except Exception as e:
        return {'kind': 'other', 'why': f'unreadable:{type(e).__name__}'}
    ex = a['expr']
    adv = a['advance']
    if a['first_advance'] and (a['seqtype'] or len(ex) == 1):
        return {'kind': 'typed', 'ast': a}
    if len(ex) == 1 and ex[0] == 0 and adv and adv[-1] in CLOSERS and 'append' not in a['calls']:
        return {'kind': 'bracket', 'close': CLOSERS[adv[-1]], 'empty_ok': a['empty_check'], 'ast': a}
    if len(ex) == 1 and ex[0] is not None and not [x for x in adv if x is not None] and 'nud' not in a['calls']:
        return {'kind': 'infix', 'rbp': ex[0], 'ast': a}
    ar = analyse_arrow(f)
    if ar is not None:
        return dict(ar, kind='arrow', ast=a)
    return {'kind': 'other', 'why': f'expr={ex} advance={adv}', 'ast': a}


def classify_nud(sym: str, cls, base_nud) -> dict:
    f = cls.nud
    if f is base_nud:
        return {'kind': 'none'}
    try:
        a = analyse(f)
    except Exception as e:
        return {'kind': 'other', 'why': f'unreadable:{type(e).__name__}'}
    ex, adv = a['expr'], a['advance']
    simple = set(a['calls']) <= {'expression', 'advance'}
    if simple and len(ex) == 1 and ex[0] == 0 and adv == [')']:
        return {'kind': 'group', 'close': 0, 'empty_ok': a['empty_check'], 'ast': a}
    if simple and len(ex) == 1 and ex[0] is not None and not adv:
        return {'kind': 'prefix', 'rbp': ex[0], 'ast': a}
    if set(a['calls']) <= {'expression', 'expected_next'} and len(ex) == 1 and ex[0] is not None and not adv \
            and any('(integer)' in e for e in a['expected_next']):
        # unary lookup: `expected_next(name, integer, '(', '*')` then `expression(rbp)`: a prefix with a next-token check
        return {'kind': 'prefix', 'rbp': ex[0], 'check_next': True, 'ast': a}
    return {'kind': 'other', 'why': f'calls={sorted(set(a["calls"]))}', 'ast': a}


def table_rows(ver: str) -> list[dict]:
    """rows for every symbol of the version's symbol_table that has a led of its own or a modelled nud"""
    from elementpath.tdop import Token
    P = parser_class(ver)
    _current_version[0] = ver
    rows = []
    for sym, cls in P.symbol_table.items():
        label = str(cls.label)
        if cls.pattern is not None and sym not in ('Q{',):
            continue        # functions, axes, kind tests: operands of the fragment, not operators
        _current_cls[0] = cls
        led = classify_led(sym, cls, Token.led)
        nud = classify_nud(sym, cls, Token.nud)
        if led['kind'] == 'none' and nud['kind'] not in ('prefix', 'group'):
            continue
        rows.append({'sym': sym, 'lbp': int(cls.lbp), 'rbp_attr': int(cls.rbp), 'label': label,
                     'led': led, 'nud': nud})
    rows.sort(key=lambda r: (r['lbp'], r['sym']))
    for i, r in enumerate(rows):
        r['idx'] = i
    return rows


def op_code(i: int) -> int:
    return 2 * i + 1


def atom_code(k: int) -> int:
    return 2 * k + 2


def tok_text(rows, tok) -> str:
    kind = tok[0]
    if kind == 'a':
        return atom_text(tok[1], tok[2])
    if kind == 'o':
        s = rows[tok[1]]['sym']
        return TYPED_KEYWORD.get(s, s)
    if kind == 'c':
        return CLOSER_TEXT[tok[1]]
    raise ValueError(tok)


def render(rows, toks) -> str:
    """tokens -> source text (single spaces between tokens; a type token follows its typed operator)"""
    out = []
    prev_typed = None
    for t in toks:
        if t[0] == 't':
            out.append(ty_text(t[1]))
        else:
            out.append(tok_text(rows, t))
        prev_typed = rows[t[1]]['sym'] if t[0] == 'o' and rows[t[1]]['sym'] in TYPED_KEYWORD else None
    return ' '.join(out)


def probe_guards(ver: str, rows: list[dict]) -> None:
    """fill led['deny'] (codes of left-operand heads the led rejects) and led['rhs'] (codes the next token
    must have; [] = unconstrained) by parsing minimal expressions with the live parser"""
    byidx = {r['idx']: r for r in rows}

    def ok(src: str) -> bool:
        r, _ = impl_parse(ver, src)
        return not is_err(r)

    group = next((r for r in rows if r['nud']['kind'] == 'group'), None)
    # sample left operands by head code
    samples: dict[int, str] = {}
    for k in atom_kind_list(ver):
        samples[atom_code(k)] = atom_text(k, atom_ids(ver, k)[min(1, len(atom_ids(ver, k)) - 1)])
    if group is not None:
        samples[op_code(group['idx'])] = '( n1 )'
    for r in rows:
        k = r['led']['kind']
        s = r['sym']
        if k == 'infix':
            cand = [f'n1 {s} n2', f'$v1 {s} n2', f'n1 {s} 2']
        elif k == 'typed':
            cand = [f'n1 {TYPED_KEYWORD[s]} xs:integer?']       # a type that carries its indicator (xgc:occurrence-indicators)
        elif k == 'bracket':
            cand = [f'n1 {s} 1 {CLOSER_TEXT[r["led"]["close"]]}', f'$v1 {s} 1 {CLOSER_TEXT[r["led"]["close"]]}']
        else:
            cand = []
        if r['nud']['kind'] == 'prefix':
            good = [c for c in [f'{s} n1'] if ok(c)]
            if good:
                samples[op_code(r['idx']) + 100000] = good[0]      # prefix-topped operand (separate key)
        good = [c for c in cand if ok(c)]
        if good:
            samples[op_code(r['idx'])] = good[0]
    for r in rows:
        led = r['led']
        k = led['kind']
        if k not in ('infix', 'typed', 'bracket'):
            continue
        s = r['sym']
        if k == 'infix':
            tail = lambda rhs='n9': f'{s} {rhs}'
        elif k == 'typed':
            tail = lambda rhs=None: f'{TYPED_KEYWORD[s]} xs:integer'
        else:
            tail = lambda rhs=None: f'{s} 1 {CLOSER_TEXT[led["close"]]}'
        deny = []
        for code, sample in sorted(samples.items()):
            if code > 100000:
                continue
            # would the sample's top be the left operand of this led?  only if nothing of the sample is
            # re-bracketed: heads built by an infix led need ledRbp >= lbp(this)
            top = byidx.get((code - 1) // 2) if code % 2 == 1 else None
            if top is not None and top['led']['kind'] == 'infix' and code != (op_code(group['idx']) if group else -1):
                if top['led']['rbp'] < r['lbp']:
                    continue
            if not ok(f'{sample} {tail()}'):
                deny.append(code)
        led['deny'] = deny
        if k == 'infix':
            # next-token check: which first tokens of the right operand are accepted
            firsts = {atom_code(kk): atom_text(kk, atom_ids(ver, kk)[-1]) for kk in atom_kind_list(ver)}
            if group is not None:
                firsts[op_code(group['idx'])] = '( n9 )'
            for rr in rows:
                if rr['nud']['kind'] == 'prefix':
                    firsts[op_code(rr['idx'])] = f'{rr["sym"]} n9'
            acc = [c for c, txt in sorted(firsts.items()) if ok(f'n1 {tail(txt)}')]
            if any('(integer)' in e for e in (led.get('ast') or {}).get('expected_next', [])):
                # lookup key: the parser also takes QNames and parenthesised operands of the new kinds as keys
                # (a laxity outside the fragment, see out_of_fragment 'lookup-key-not-ncname'): not in the model
                acc = [c for c in acc if c not in (atom_code(8), atom_code(9), atom_code(10), atom_code(11))]
            led['rhs'] = [] if len(acc) == len(firsts) else acc
            led['rhs_probed_over'] = sorted(firsts)
        # cross-check with the guard read from the source
        a = led.get('ast') or {}
        ast_syms = None
        if a.get('guards') and all(g is not None for g in a['guards']) and len(a['guards']) == 1:
            ast_syms = set(a['guards'][0])
        led['ast_guard'] = sorted(ast_syms) if ast_syms is not None else None
        if ast_syms is not None:
            sym_of = {op_code(x['idx']): x['sym'] for x in rows}
            probed_syms = {sym_of[c] for c in deny if c in sym_of}
            probe_space = {sym_of[c] for c in samples if c in sym_of}
            led['guard_mismatch'] = sorted((ast_syms & probe_space) ^ probed_syms)
        else:
            led['guard_mismatch'] = []


# --------------------------------------------------------- tokenizer custom alternatives
_class_cache: dict = {}


def class_ranges(cls_src: str) -> list:
    """code point ranges matched by a one-character regex class"""
    import re
    if cls_src not in _class_cache:
        rx = re.compile(cls_src)
        out, start = [], None
        for c in range(0x110000 + 1):
            ok = c < 0x110000 and rx.fullmatch(chr(c)) is not None
            if ok and start is None:
                start = c
            elif not ok and start is not None:
                out.append((start, c - 1))
                start = None
        _class_cache[cls_src] = out
    return _class_cache[cls_src]


def first_set(nodes) -> tuple[set, bool]:
    """over-approximation of the FIRST set of a parsed regex sequence and whether it can match without
    consuming/inspecting a character (sre parse tree)"""
    try:
        import re._constants as sc
    except ImportError:              # Python < 3.11
        import sre_constants as sc
    acc: set = set()
    for op, arg in nodes:
        name = str(op)
        if name == 'LITERAL':
            return acc | {arg}, False
        if name == 'IN':
            f = set()
            for iop, iarg in arg:
                iname = str(iop)
                if iname == 'LITERAL':
                    f.add(iarg)
                elif iname == 'RANGE':
                    f |= set(range(iarg[0], iarg[1] + 1))
                elif iname == 'CATEGORY' and str(iarg) == 'CATEGORY_SPACE':
                    f |= {r for lo, hi in class_ranges(r'\s') for r in range(lo, hi + 1)}
                else:
                    raise ValueError(f'unsupported class item {iop} {iarg}')
            return acc | f, False
        if name in ('MAX_REPEAT', 'MIN_REPEAT'):
            lo, hi, sub = arg
            f, nullable = first_set(sub)
            acc |= f
            if lo > 0 and not nullable:
                return acc, False
            continue
        if name == 'SUBPATTERN':
            f, nullable = first_set(arg[-1])
            acc |= f
            if not nullable:
                return acc, False
            continue
        if name == 'BRANCH':
            nullable_any = False
            for alt in arg[1]:
                f, nullable = first_set(alt)
                acc |= f
                nullable_any |= nullable
            if not nullable_any:
                return acc, False
            continue
        if name == 'ASSERT':
            direction, sub = arg
            if direction == 1:
                f, nullable = first_set(sub)
                if not nullable:
                    return acc | f, False
            continue
        if name in ('ASSERT_NOT', 'AT'):
            continue
        raise ValueError(f'unsupported regex node {op}')
    return acc, True


NC_HEAD = re_head = None


def analyse_pattern(pat: str) -> dict:
    """custom token pattern -> {'head': None | text, 'la': None | sorted first set, classes}"""
    import re
    try:
        import re._parser as sp
    except ImportError:
        import sre_parse as sp
    m = re.fullmatch(r'(\(\?<!\\\$\))?(\\b)?(?P<head>.*?)(?P<la>\(\?=.*\))?', pat, re.S)
    head, la = m.group('head'), m.group('la')
    g = re.fullmatch(r'(?P<start>\[\^\\d\\W\])(?P<chars>\[[^\]]*\])\*', head)
    out = {'pattern': pat}
    if g:
        out['head'] = None
        out['start_class'], out['char_class'] = g.group('start'), g.group('chars')
    else:
        parsed = sp.parse(head)
        if not all(str(op) == 'LITERAL' for op, _ in parsed):
            raise ValueError(f'head of custom pattern not understood: {head!r}')
        out['head'] = [a for _, a in parsed]
    if la is None:
        out['la'] = None
    else:
        nodes = list(sp.parse(la))
        if len(nodes) != 1 or str(nodes[0][0]) != 'ASSERT' or nodes[0][1][0] != 1:
            raise ValueError(f'look-ahead not understood: {la!r}')
        f, nullable = first_set(nodes[0][1][1])
        if nullable:
            raise ValueError(f'look-ahead can succeed at the end of the text: {la!r}')
        out['la'] = sorted(f)
    return out


_alts_cache: dict = {}


def alternatives() -> dict:
    """per version: the custom alternatives of the tokenizer (sorted by pattern text) + the NCName classes"""
    if not _alts_cache:
        for v in VERSIONS:
            P = parser_class(v)
            pats = sorted({c.pattern for c in P.symbol_table.values() if c.pattern is not None})
            alts, err = [], None
            for pat in pats:
                try:
                    alts.append(analyse_pattern(pat))
                except Exception as e:      # a shape the model does not describe
                    err = f'{type(e).__name__}: {e}'
                    alts.append({'pattern': pat, 'head': [0], 'la': None, 'unreadable': err})
            starts = {a['start_class'] for a in alts if a.get('start_class')} or {r'[^\d\W]'}
            chars = {a['char_class'] for a in alts if a.get('char_class')} or {r'[\w.\-]'}
            _alts_cache[v] = {'alts': alts, 'error': err if err else (None if len(starts) == 1 and len(chars) == 1
                                                                      else 'different NCName classes in one tokenizer'),
                              'start_class': sorted(starts)[0], 'char_class': sorted(chars)[0]}
    return _alts_cache


def lean_alts() -> list[str]:
    out = []
    info = alternatives()
    emitted = {}
    for v in VERSIONS:
        a = info[v]
        for key, src in (('nameStart', a['start_class']), ('nameChar', a['char_class'])):
            name = f'{key}_v{v}'
            rngs = class_ranges(src)
            out.append(f'def {name} : EPV.Lexer.Ranges := [' + ', '.join(f'({lo}, {hi})' for lo, hi in rngs) + ']')
        out.append(f'def classes_v{v} : EPV.Lexer.Classes := ⟨nameStart_v{v}, nameChar_v{v}⟩')

        def one(alt):
            h = 'none' if alt['head'] is None else 'some ' + lean_list(alt['head'])
            la = 'none' if alt['la'] is None else 'some ' + lean_list(alt['la'])
            return f'  ⟨{h}, {la}⟩'
        out.append(f'def alts_v{v} : List EPV.Lexer.Alt := [\n' + ',\n'.join(one(x) for x in a['alts']) + '\n]')
        out.append('')
    return out


# ------------------------------------------------------------------ textual source tables
def lexemes_of(ver: str, text: str) -> list[str]:
    """lexemes of a text according to the live tokenizer"""
    P = parser_class(ver)
    return [m.group().strip() for m in P.tokenizer.finditer(text) if m.group().strip()]


def lexeme_cls(ver: str, lx: str) -> str:
    import re
    a = alternatives()[base_of(ver)]
    if lx[0] == "'":
        return '.str'
    if lx[0].isdigit():
        return '.num'
    if re.fullmatch(a['start_class'], lx[0]):
        return '.word'
    return '.sym'


def lean_lexemes(ver: str, text: str) -> str:
    return '[' + ', '.join(f'({lexeme_cls(ver, lx)}, {lean_list([ord(c) for c in lx])})' for lx in lexemes_of(ver, text)) + ']'


def source_style(ver: str, row: dict) -> int:
    """how `source` separates an infix symbol from its operands: 0 `l sym r`, 1 `lsymr`, 2 `lsym r` (probed)"""
    if row['led']['kind'] != 'infix':
        return 0
    sym = row['sym']
    for src in (f'n1 {sym} n2', f'$v1 {sym} n2', f'n1 {sym} 2'):
        d, tok = impl_parse(ver, src)
        if tok is not None and len(tok) == 2 and tok.symbol == sym:
            try:
                out = tok.source
            except Exception:
                continue
            l, r = tok[0].source, tok[1].source
            if out == f'{l} {sym} {r}':
                return 0
            if out == f'{l}{sym}{r}':
                return 1
            if out == f'{l}{sym} {r}':
                return 2
            return 9            # a shape the model does not describe: the text comparison will show it
    return 0


def lean_text_tables() -> list[str]:
    import re
    out = []
    tabs = tables()
    for v in VERSIONS:
        rows = tabs[v]
        P = parser_class(v)
        namepat = P.name_pattern
        syms2 = sorted(s for s in P.symbol_table if len(s) == 2 and namepat.match(s) is None
                       and P.symbol_table[s].pattern is None and s not in ('(:', ':)') or s in ('(:', ':)') and s in P.symbol_table)
        out.append(f'def textTbl_v{v} : EPV.Source.TextTbl where')
        out.append('  sym o := ([' + ', '.join(lean_lexemes(v, TYPED_KEYWORD.get(r['sym'], r['sym'])) for r in rows) + '][o]?).getD []')
        out.append('  style o := ([' + ', '.join(str(source_style(v, r)) for r in rows) + '][o]?).getD 0')
        out.append('  close c := ([' + ', '.join(lean_lexemes(v, CLOSER_TEXT[c]) for c in (0, 1)) + '][c]?).getD []')
        out.append('  ty n := ([' + ', '.join(lean_lexemes(v if v != '10' else '20', t) for t in TYPES)
                   + f'][n % {len(TYPES)}]?).getD []')
        out.append('  syms2 := [' + ', '.join(f'({ord(s[0])}, {ord(s[1])})' for s in syms2) + ']')
        # the fragment's texts are ASCII: the lexeme model uses the ASCII part of the NCName classes
        a = alternatives()[v]
        for key, src in (('wordStart', a['start_class']), ('wordChar', a['char_class'])):
            rngs = [(lo, min(hi, 127)) for lo, hi in class_ranges(src) if lo < 128]
            out.append(f'  {key} := [' + ', '.join(f'({lo}, {hi})' for lo, hi in rngs) + ']')
        out.append('  digit := [(48, 57)]')
        # F: characters that may directly follow an operand (first characters of the symbols `source` glues to their left
        # operand and of the closers); S: characters an operand may start with (names, digits, $, quote, ?, and the first
        # characters of the prefix and opening symbols)
        follow, start = set(), {110, 36, 39, 63, 42} | set(range(48, 58))
        for r in rows:
            first = ord(TYPED_KEYWORD.get(r['sym'], r['sym'])[0])
            if r['led']['kind'] == 'bracket' or (r['led']['kind'] == 'infix' and source_style(v, r) >= 1):
                follow.add(first)
            if r['nud']['kind'] in ('prefix', 'group'):
                start.add(first)
        follow |= {ord(CLOSER_TEXT[c][0]) for c in (0, 1)}
        out.append(f'def followCh_v{v} : List Nat := {lean_list(sorted(follow))}')
        out.append(f'def startCh_v{v} : List Nat := {lean_list(sorted(start))}')
        out.append(f'def ntys_v{v} : Nat := {len(TYPES)}')
        out.append('')
    return out


def probe_prefix_checks(ver: str, rows: list[dict]) -> None:
    """next-token check of a prefix nud (unary lookup): which first tokens of the operand are accepted"""
    group = next((r for r in rows if r['nud']['kind'] == 'group'), None)
    for r in rows:
        nud = r['nud']
        if nud['kind'] != 'prefix' or not nud.get('check_next'):
            continue
        firsts = {atom_code(kk): atom_text(kk, atom_ids(ver, kk)[-1]) for kk in atom_kind_list(ver)}
        if group is not None:
            firsts[op_code(group['idx'])] = '( n9 )'
        for rr in rows:
            if rr['nud']['kind'] == 'prefix':
                firsts[op_code(rr['idx'])] = f'{rr["sym"]} n9'
        acc = [c for c, txt in sorted(firsts.items()) if not is_err(impl_parse(ver, f'{r["sym"]} {txt}')[0])]
        acc = [c for c in acc if c not in (atom_code(8), atom_code(9), atom_code(10), atom_code(11))]
        nud['rhs'] = [] if len(acc) == len(firsts) else acc


def probe_arrow(ver: str, rows: list[dict]) -> None:
    """which first tokens the arrow led accepts for the function specifier (the operand kinds whose text is a
    complete call are left out: the function-token branch of the led takes the name without parsing it)"""
    group = next((r for r in rows if r['nud']['kind'] == 'group'), None)
    for r in rows:
        led = r['led']
        if led['kind'] != 'arrow':
            continue
        g = next((x for x in rows if x['sym'] == led['open'] and x['nud']['kind'] == 'group'), None)
        if g is None:
            r['led'] = {'kind': 'other', 'why': f'arrow: no group symbol {led["open"]!r}'}
            continue
        led['g'] = g['idx']
        # first identity of each kind (for prefixed names: not `x:map` / `x:array`, see out_of_fragment)
        firsts = {atom_code(kk): atom_text(kk, atom_ids(ver, kk)[0]) for kk in atom_kind_list(ver) if kk < 9}
        if group is not None:
            firsts[op_code(group['idx'])] = '( n9 )'
        for rr in rows:
            if rr['nud']['kind'] == 'prefix':
                firsts[op_code(rr['idx'])] = f'{rr["sym"]} n9'
        led['start'] = [c for c, txt in sorted(firsts.items())
                        if not is_err(impl_parse(ver, f'n1 {r["sym"]} {txt} ( )')[0])]


def lean_list(l) -> str:
    return '[' + ', '.join(str(x) for x in l) + ']'


def lean_row(r: dict) -> str:
    led, nud = r['led'], r['nud']
    k = led['kind']
    if k == 'infix':
        L = f'.infix {led["rbp"]} {lean_list(led["deny"])} {lean_list(led["rhs"])}'
    elif k == 'typed':
        L = f'.typed {lean_list(led["deny"])}'
    elif k == 'bracket':
        L = f'.bracket {led["close"]} {"true" if led["empty_ok"] else "false"} {lean_list(led["deny"])}'
    elif k == 'arrow':
        L = f'.arrow {led["srbp"]} {led["arbp"]} {lean_list(led["start"])} {led["g"]}'
    elif k == 'none':
        L = '.none'
    else:
        L = '.other'
    k = nud['kind']
    if k == 'prefix':
        N = f'.prefix {nud["rbp"]} {lean_list(nud.get("rhs", []))}'
    elif k == 'group':
        N = f'.group {nud["close"]} {"true" if nud["empty_ok"] else "false"}'
    elif k == 'none':
        N = '.none'
    else:
        N = '.other'
    sym = r['sym'].replace('\\', '\\\\').replace('"', '\\"')
    return f'  ⟨"{sym}", {r["lbp"]}, {L}, {N}⟩'


_tables_cache: dict = {}


def tables() -> dict[str, list[dict]]:
    if not _tables_cache:
        for v in VERSIONS:
            parser_class(v)         # import all parser classes first: later versions patch shared token classes
        for v in ALL_VERSIONS:
            rows = table_rows(v)
            probe_guards(v, rows)
            probe_prefix_checks(v, rows)
            probe_arrow(v, rows)
            _tables_cache[v] = rows
    return _tables_cache


def translate(run: Run) -> dict:
    tabs = tables()
    out = ['/- GENERATED by harness/c04.py from the live symbol tables of /repo -- do not edit -/',
           'import EPV.Model.Pratt', 'import EPV.Model.PrattLexer', 'import EPV.Model.PrattSource', 'namespace EPV.Gen.C04', 'open EPV.Pratt', '']
    info = {}
    for v, rows in tabs.items():
        out.append(f'def opTable_v{v} : List Row := [')
        out.append(',\n'.join(lean_row(r) for r in rows))
        out.append(']')
        out.append('')
        info[f'v{v}'] = {'rows': len(rows),
                         'modelled': sum(1 for r in rows if r['led']['kind'] in ('infix', 'typed', 'bracket', 'arrow')),
                         'other_led': [r['sym'] for r in rows if r['led']['kind'] == 'other'],
                         'guard_mismatch': {r['sym']: r['led']['guard_mismatch'] for r in rows
                                            if r['led'].get('guard_mismatch')}}
    out += lean_alts()
    out += lean_text_tables()
    # the rbp with which the nud of the unary lookup `?` parses its key (read from the ast of the nud)
    for v in ('31', '31c'):
        row = next((r for r in tabs[v] if r['sym'] == '?'), None)
        ex = ((row or {}).get('nud', {}).get('ast') or {}).get('expr') or []
        out.append(f'def unaryLookupRbp_v{v} : Nat := {ex[0] if len(ex) == 1 and ex[0] is not None else 0}')
    out.append('')
    for v, a in alternatives().items():
        info[f'v{v}']['custom_alternatives'] = len(a['alts'])
        info[f'v{v}']['alternatives_error'] = a['error']
    out.append('end EPV.Gen.C04')
    gen = LEAN / 'EPV' / 'Gen' / 'C04Tables.lean'
    gen.parent.mkdir(exist_ok=True)
    text = '\n'.join(out) + '\n'
    if not gen.exists() or gen.read_text() != text:
        gen.write_text(text)
    return info


# ------------------------------------------------------------------------------ generator
class VInfo:
    def __init__(self, ver: str, rows: list[dict]):
        self.ver, self.rows = ver, rows
        self.infix = [r['idx'] for r in rows if r['led']['kind'] == 'infix']
        self.typed = [r['idx'] for r in rows if r['led']['kind'] == 'typed']
        self.bracket = [r['idx'] for r in rows if r['led']['kind'] == 'bracket']
        self.arrow = [r['idx'] for r in rows if r['led']['kind'] == 'arrow']
        self.arrow_sym = [r['idx'] for r in rows if r['sym'] == '=>']     # also when its led is not recognised
        self.prefix = [r['idx'] for r in rows if r['nud']['kind'] == 'prefix']
        self.group = [r['idx'] for r in rows if r['nud']['kind'] == 'group']
        self.sym = {r['idx']: r['sym'] for r in rows}
        self.idx = {r['sym']: r['idx'] for r in rows}


def gen_atom(rng, V=None):
    ver = V.ver if V is not None else '10'
    r = rng.random()
    if r < 0.22:
        k = rng.choice([x for x in (7, 7, 8, 8, 9, 10, 10, 11) if x in atom_kind_list(ver)])
    else:
        k = rng.choices([0, 1, 2, 3], [60, 15, 17, 8])[0]
    return ('a', k, rng.choice(atom_ids(ver, k)))   # kind 6 (`*` key) is only placed after `?`


def gen_tree(rng, V: VInfo, size: int):
    """random abstract tree with about `size` operators"""
    if size <= 0:
        return gen_atom(rng, V)
    r = rng.random()
    arrow_r = bool(V.arrow and V.group) and (0.57 <= r < 0.62 or 0.72 <= r < 0.74)   # 3.1: 10% arrows
    if r < 0.62 and V.infix and not arrow_r:
        o = rng.choice(V.infix)
        ls = rng.randrange(size)
        if V.sym[o] == '?' and rng.random() < 0.8:
            k = rng.choice([0, 1, 1, 7, 6])
            return ('b', o, gen_tree(rng, V, size - 1), ('a', k, rng.choice(atom_ids(V.ver, k))))
        return ('b', o, gen_tree(rng, V, ls), gen_tree(rng, V, size - 1 - ls))
    if r < 0.74 and V.prefix and not arrow_r:
        p = rng.choice(V.prefix)
        if V.sym[p] == '?' and rng.random() < 0.85:
            # unary lookup: mostly with a KeySpecifier (name, integer, keyword name, `*`, parenthesised expression)
            if rng.random() < 0.2 and V.group:
                g = V.group[0]
                return ('p', p, ('g', g, V.rows[g]['nud']['close'], gen_tree(rng, V, size - 1)))
            k = rng.choice([0, 1, 1, 7, 6])
            return ('p', p, ('a', k, rng.choice(atom_ids(V.ver, k))))
        return ('p', p, gen_tree(rng, V, size - 1))
    if r < 0.80 and V.typed and size >= 2 and not arrow_r:
        # a typed expression directly followed by `*`, `+` (or `?` in 3.1): the occurrence-indicator cases
        o = rng.choice(V.typed)
        n = rng.choice(type_ids(V.ver, V.sym[o]))
        follow = [x for x in ('*', '+', '?') if x in V.idx and V.rows[V.idx[x]]['led']['kind'] == 'infix']
        f = V.idx[rng.choice(follow)]
        left = ('t', o, gen_tree(rng, V, size - 2 if rng.random() < 0.5 else 0), n)
        if rng.random() < 0.35:
            # `T * * 2`: the first operator token is the indicator
            return ('b', f, ('b', V.idx[rng.choice(follow)], left, gen_atom(rng, V)), gen_atom(rng, V)) \
                if rng.random() < 0.3 else ('occ2', f, left, gen_atom(rng, V))
        return ('b', f, left, gen_atom(rng, V))
    if r < 0.84 and V.typed and not (V.arrow and r >= 0.81) and not arrow_r:
        o = rng.choice(V.typed)
        n = rng.choice(type_ids(V.ver, V.sym[o]))
        return ('t', o, gen_tree(rng, V, size - 1), n)
    if V.arrow and V.group and (0.81 <= r < 0.84 or 0.57 <= r < 0.62 or 0.72 <= r < 0.74):
        # arrow: `l => f ( args )`, f a name / variable / prefixed name / parenthesised expression; sometimes the lax
        # forms the led accepts (a lookup on the specifier, a second argument list)
        o = rng.choice(V.arrow)
        g = V.group[0]
        gc = V.rows[g]['nud']['close']
        fs, as_ = rng.randrange(max(1, size // 3)), rng.randrange(max(1, size // 2))
        q = rng.random()
        if q < 0.75:
            k = rng.choice([0, 0, 2, 2, 8])
            f = ('a', k, rng.choice(atom_ids(V.ver, k)))
        elif q < 0.9:
            f = ('g', g, gc, gen_tree(rng, V, fs))
        elif q < 0.96 and '?' in V.idx:
            f = ('b', V.idx['?'], ('a', 2, rng.choice(atom_ids(V.ver, 2))), ('a', 0, rng.choice(atom_ids(V.ver, 0))))
        else:
            f = gen_atom(rng, V)
        args = ('g', g, gc, gen_tree(rng, V, as_) if rng.random() < 0.8 else None)
        if rng.random() < 0.06:
            args = ('x', g, gc, args, gen_tree(rng, V, 0))
        return ('ar', o, gen_tree(rng, V, max(0, size - 1 - fs - as_)), f, args)
    if r < 0.96 and V.bracket:
        o = rng.choice(V.bracket)
        row = V.rows[o]
        if row['led']['empty_ok'] and rng.random() < 0.2:
            return ('x', o, row['led']['close'], gen_tree(rng, V, size - 1), None)
        es = rng.randrange(size)
        return ('x', o, row['led']['close'], gen_tree(rng, V, size - 1 - es), gen_tree(rng, V, es))
    if V.group:
        g = rng.choice(V.group)
        return ('g', g, V.rows[g]['nud']['close'], gen_tree(rng, V, size - 1))
    return gen_atom(rng, V)


def unparse(rng, V: VInfo, t, paren: float) -> list:
    """tokens of the tree in order; every proper subtree is parenthesised with probability `paren`"""
    def wrap(sub):
        toks = go(sub)
        if V.group and sub[0] != 'a' and rng.random() < paren:
            g = V.group[0]
            return [('o', g)] + toks + [('c', V.rows[g]['nud']['close'])]
        return toks

    def go(t):
        k = t[0]
        if k == 'a':
            return [t]
        if k == 'b':
            return wrap(t[2]) + [('o', t[1])] + wrap(t[3])
        if k == 'occ2':
            return go(t[2]) + [('o', t[1]), ('o', t[1])] + go(t[3])
        if k == 'p':
            return [('o', t[1])] + wrap(t[2])
        if k == 't':
            return wrap(t[2]) + [('o', t[1]), ('t', t[3])]
        if k == 'x':
            return wrap(t[3]) + [('o', t[1])] + (go(t[4]) if t[4] is not None else []) + [('c', t[2])]
        if k == 'g':
            return [('o', t[1])] + (go(t[3]) if t[3] is not None else []) + [('c', t[2])]
        if k == 'ar':
            return wrap(t[2]) + [('o', t[1])] + go(t[3]) + go(t[4])
        raise ValueError(t)
    return go(t)


def absorb_occ(V: VInfo, toks: list) -> list:
    """Python mirror of EPV.Syn.absorbOcc (only used by the generator's filters)"""
    out, i = [], 0
    occ = {'?': 1, '*': 2, '+': 3}
    while i < len(toks):
        t = toks[i]
        if t[0] == 'o' and i + 2 < len(toks) and toks[i + 1][0] == 't' and toks[i + 2][0] == 'o' \
                and V.sym[toks[i + 2][1]] in occ:
            n, k = toks[i + 1][1], occ[V.sym[toks[i + 2][1]]]
            single = V.sym[t[1]] in ('cast', 'castable')
            if n % 4 == 0 and n // 4 != 0 and (not single or k == 1):
                out += [t, ('t', n + k)]
                i += 3
                continue
        out.append(t)
        i += 1
    return out


def out_of_fragment(V: VInfo, toks: list) -> str | None:
    toks = absorb_occ(V, toks)
    for a, b in zip(toks, toks[1:]):
        if a[0] == 'o' and b[0] == 'o' and V.rows[b[1]]['nud']['kind'] == 'other' and V.rows[a[1]]['led']['kind'] in ('infix',) \
                and V.rows[a[1]]['nud']['kind'] != 'group':
            return 'operator-symbol-in-operand-position'   # `* *`, `+ div`: the second symbol is a name test / keyword name
    return out_of_fragment_(V, toks)


def out_of_fragment_(V: VInfo, toks: list) -> str | None:
    """token-level patterns that the level table does not describe (documented in docs/C04.md)"""
    seen_arrow = False
    for a, b in zip(toks, toks[1:] + [None]):
        if a[0] == 'o' and a[1] in V.arrow_sym:
            seen_arrow = True
            if b is not None and b[0] == 'a' and b[1] == 7:
                return 'arrow-keyword-function-name'   # `x => div(1)`: valid EQName, the led wants a (name) token
            if b is not None and b[0] == 'a' and b[1] >= 9:
                return 'arrow-call-atom'               # the operand's text is a call: its name is the specifier
            if b is not None and b[0] == 'a' and b[1] == 8 and atom_text(8, b[2]).split(':')[1] in ('map', 'array'):
                return 'arrow-map-array-name'          # `x => p:map()`: valid EQName, rejected (token pattern of `map(`)
        elif seen_arrow and b is not None and b[0] == 'a' and a[0] in ('a', 'c', 't'):
            # `x => $f $g(1)`: two operands side by side (invalid everywhere); after an arrow specifier the real
            # parser fails in the `led` of `$` / in the static call, the model goes on to the argument list
            return 'juxtaposed-operands-after-arrow'
    for i, t in enumerate(toks):
        # `?` directly after `(` or `,` without a key specifier is taken as an argument placeholder by the parser
        # (LookupOperatorToken.__init__ zeroes lbp there and nud returns the bare token): accepted although not in the
        # EBNF outside argument lists; not modelled
        if t[0] == 'o' and V.sym[t[1]] == '?' and i > 0 and toks[i - 1][0] == 'o' and V.sym[toks[i - 1][1]] in ('(', ','):
            rhs = V.rows[t[1]]['nud'].get('rhs') or []
            nxt = toks[i + 1] if i + 1 < len(toks) else None
            code = -1 if nxt is None else (atom_code(nxt[1]) if nxt[0] == 'a' else (op_code(nxt[1]) if nxt[0] == 'o' else -1))
            if code not in rhs:
                return 'placeholder-position'
    for a, b, c in zip(toks, toks[1:], toks[2:] + [None]):
        if a[0] == 't' and b[0] == 'o' and c is not None and c[0] == 'o' and V.sym[b[1]] == '?' and V.sym[c[1]] == '?' \
                and V.ver.startswith('31'):
            return 'lookup-after-type'
    for i, (a, b) in enumerate(zip(toks, toks[1:])):
        after_arrow = i > 0 and toks[i - 1][0] == 'o' and toks[i - 1][1] in V.arrow_sym
        if a[0] == 't' and b[0] == 'o' and V.sym[b[1]] == '?' and (a[1] % 4 != 0 or a[1] // 4 == 0):
            return 'lookup-after-type'               # `T? ? k`: outside the EBNF; accepted or not depending on the kind of type
        if a[0] == 't' and b[0] == 'a' and b[1] in (6, 7):
            return 'operator-spelling-after-type'    # `T? eq`, `T+ *`: the atom's text is an operator in this position
        if a[0] == 't' and (b[0] == 'o' and V.sym[b[1]] == '(' or b[0] == 'a' and b[1] == 11):
            return 'type-followed-by-parenthesis'    # `xs:string (` is tokenised as a constructor call
        if b[0] == 'o' and V.sym[b[1]] == '(' and a[0] == 'a' and a[1] != 2 and not (after_arrow and a[1] in (0, 8)):
            return 'static-call-or-literal-call'     # `n1(..)` is a static FunctionCall (XPST0017), `1(..)` XPTY0004
        if a[0] == 'o' and V.sym[a[1]] == '?' and b[0] == 'a' and b[1] in (8, 9, 10, 11):
            return 'lookup-key-not-ncname'           # 3.1 [54] KeySpecifier is an NCName / integer / parenthesised expr
        if V.ver == '10' and a[0] == 'o' and V.sym[a[1]] in ('/', '//') and b[0] == 'a' and b[1] >= 10:
            return 'xpath1-function-call-step'       # 1.0 [4]: a Step is not a function call
        if V.ver == '10' and a[0] == 'o' and V.sym[a[1]] in ('/', '//') and b[0] == 'a' and b[1] == 2:
            return 'xpath1-variable-step'            # 1.0 [4] Step needs a NodeTest; level table says "operand"
        if V.ver == '10' and a[0] == 'o' and V.sym[a[1]] in ('/', '//') and b[0] == 'o' and V.sym[b[1]] == '(':
            return 'xpath1-parenthesised-step'       # 1.0 [4]: a Step cannot be a parenthesised expression
    return None


def tok_str(t) -> str:
    return {'a': lambda: f'a{t[1]}.{t[2]}', 't': lambda: f't{t[1]}', 'o': lambda: f'o{t[1]}', 'c': lambda: f'c{t[1]}'}[t[0]]()


def line_of(ver: str, toks: list) -> str:
    return f'V={VNUM[ver]} T=' + ','.join(tok_str(t) for t in toks)


def canon(x: str) -> str:
    """static errors of the parser are one class"""
    if x in STATIC_CODES or x == 'ERR' or x == 'ERR:syntax':
        return 'ERR'
    return x


def lean_tree(s: str) -> str:
    import re
    return re.sub(r'#(\d+)', lambda m: ty_text(int(m.group(1))), s)


def parse_answer(ans: str) -> dict:
    d = {}
    for kv in ans.split(' '):
        k, _, v = kv.partition('=')
        d[k] = v
    # trees contain spaces: re-split on the field names
    import re
    m = re.match(r'model=(.*) spec=(.*) trig=(\S+) rel=(\d) chain=(\d) src=(\S*)$', ans)
    if not m:
        return {'bad': ans}
    src = None if m.group(6) in ('-', '') else ''.join(chr(int(x)) for x in m.group(6).split(','))
    return {'model': lean_tree(m.group(1)), 'spec': lean_tree(m.group(2)),
            'trig': [] if m.group(3) == '-' else m.group(3).split(','), 'rel': m.group(4),
            'chain': m.group(5), 'src': src}


# ----------------------------------------------------------------------- correspondence (i)
def compare_tokens(run: Run, cases: list[tuple[str, list]], origin: str = 'gen') -> None:
    """cases: (version, tokens).  real parser vs model vs EBNF reference parser"""
    tabs = tables()
    lines = [line_of(v, toks) for v, toks in cases]
    answers = run.driver('C04', lines)
    st = run.stats
    for (ver, toks), line, ans in zip(cases, lines, answers):
        rows = tabs[ver]
        src = render(rows, toks)
        a = parse_answer(ans)
        case = {'version': ver, 'source': src, 'line': line}
        if 'bad' in a:
            run.disagree(Disagreement(case, 'driver:' + ans, what='protocol'))
            continue
        impl, tok = impl_parse(ver, src)
        nops = sum(1 for t in toks if t[0] == 'o')
        st.case(line, nontrivial=nops >= 2)
        st.count(f'{origin}:v{ver}')
        st.count(f'ops={min(nops, 12)}')
        for t in toks:
            if t[0] == 'o':
                st.count(f'op:{rows[t[1]]["sym"]}')
        ci, cm, cs = canon(impl), canon(a['model']), canon(a['spec'])
        st.count('impl:' + ('error' if ci == 'ERR' else ('other:' + ci if is_err(ci) else 'tree')))
        st.count('spec:' + ('error' if cs == 'ERR' else 'tree'))
        if a['rel'] != '1':
            run.disagree(Disagreement(case, ci, cm, what='model-or-reference-parser-inconsistent-with-theorems'))
        for f in a['trig']:
            st.count('trigger:' + f)
        if ci != cs:
            run.disagree(Disagreement(case, ci, cm, cs, what='tree-vs-ebnf', site='Parser.expression / led / nud',
                                      tags=a['trig']))
        elif ci != cm:
            run.disagree(Disagreement(case, ci, cm, cs, what='model', site='operator table'))
        opaque = any(t[0] == 'a' and t[1] >= 7 for t in toks)      # operands whose text the Lean model does not render
        if a['chain'] != '1' and not opaque:
            run.disagree(Disagreement(case, 'n/a', 'chain=0', what='source-text-not-separable',
                                      site='model of XPathToken.source / lexeme model'))
        if tok is not None and ci == cm and a['src'] is not None and not opaque:
            # tie of the textual source model: the Lean rendering of the tree is the real `source` string
            try:
                real_src = tok.source
            except Exception as e:
                real_src = f'ERR:OTHER:{type(e).__name__}'
            st.count('source-text:compared')
            if real_src != a['src']:
                run.disagree(Disagreement(dict(case, real_source=real_src), real_src, a['src'], what='source-text-model',
                                          site='XPathToken.source'))
        if tok is not None:
            roundtrip(run, ver, src, tok, impl)


# ------------------------------------------------------------------- (ii) source round trip
def evaluate(ver: str, tok) -> str:
    """value of a parsed token on a small document, canonical text"""
    import xml.etree.ElementTree as ET
    from elementpath import XPathContext
    from elementpath.exceptions import ElementPathError
    root = ET.XML('<n1><n2 n3="1">7</n2><n3>2</n3><n2>x</n2></n1>')
    try:
        ctx = XPathContext(root, variables={f'v{i}': i for i in range(1, 10)})
        res = tok.get_results(ctx)
        return canon_value(res)
    except ElementPathError as e:
        return 'ERR:' + (getattr(e, 'code', None) or 'none').split(':')[-1]
    except RecursionError:
        return 'ERR:OTHER:RecursionError'
    except Exception as e:
        return f'ERR:OTHER:{type(e).__name__}'


def canon_value(v) -> str:
    if isinstance(v, list):
        return '[' + ','.join(canon_value(x) for x in v) + ']'
    if isinstance(v, float):
        return 'f:' + (v.hex() if v == v else 'nan')
    if hasattr(v, 'tag') and hasattr(v, 'attrib'):
        return f'<{v.tag}>'
    return f'{type(v).__name__}:{v}'


def trig_f04g(src: str) -> bool:
    """trigger of finding F04g: the source has a DoubleLiteral whose Python repr has no exponent (`1.5e3` ->
    `1500.0`, a DecimalLiteral) or a DecimalLiteral without fraction digits (`2.` -> `2`, an IntegerLiteral)"""
    import re
    text = re.sub(r"'[^']*'|\"[^\"]*\"", ' ', src)
    for m in re.finditer(r'(?<![\w.])(?:\d+\.?\d*|\.\d+)(?:[eE][+-]?\d+)?', text):
        lit = m.group()
        if 'e' in lit.lower():
            if 'e' not in repr(float(lit)):
                return True
        elif lit.endswith('.'):
            return True
    return False


def roundtrip_tags(src: str) -> list:
    return ['F04g'] if trig_f04g(src) else []


def roundtrip(run: Run, ver: str, src: str, tok, dumped: str, extra=()) -> None:
    st = run.stats
    try:
        src2 = tok.source
    except Exception as e:
        run.disagree(Disagreement({'version': ver, 'source': src}, f'ERR:OTHER:source:{type(e).__name__}', None,
                                  dumped, what='source-roundtrip', site='XPathToken.source'))
        return
    again, tok2 = impl_parse(ver, src2)
    st.count('roundtrip:compared')
    if again != dumped:
        run.disagree(Disagreement({'version': ver, 'source': src, 'unparsed': src2}, again, None, dumped,
                                  what='source-roundtrip', site='XPathToken.source',
                                  tags=roundtrip_tags(src) + list(extra)))
        return
    if tok2 is not None and st.hist.get('roundtrip:evaluated', 0) < run.scale(400, 4000):
        v1, v2 = evaluate(ver, tok), evaluate(ver, tok2)
        st.count('roundtrip:evaluated')
        if v1 != v2:
            run.disagree(Disagreement({'version': ver, 'source': src, 'unparsed': src2}, v2, None, v1,
                                      what='source-roundtrip-value', site='XPathToken.source',
                                      tags=roundtrip_tags(src) + list(extra)))


# --------------------------------------------------------- (iii) whitespace and comments
TIGHT = {'=', '!=', '<', '<=', '>', '>=', '|', '||', '+', '*', '/', '//', '!', ',', '(', ')', '[', ']', '<<', '>>', '?'}


def respace(rng, ver: str, rows, toks: list) -> str:
    """same tokens, different optional whitespace / comments between them"""
    texts = []
    prev_typed = False
    for t in toks:
        if t[0] == 't':
            texts.append(ty_text(t[1]))
        elif t[0] == 'o' and rows[t[1]]['sym'] in TYPED_KEYWORD:
            kw = TYPED_KEYWORD[rows[t[1]]['sym']].split(' ')
            texts.append(kw[0])
            texts.append(kw[1])
        else:
            texts.append(tok_text(rows, t))

    def gap(a: str, b: str) -> str:
        r = rng.random()
        pieces = []
        if ver != '10' and r < 0.3:
            c = rng.choice(['(: c :)', '(::)', '(: a (: nested :) b :)', '(: + * ( [ :)', '(:\n:)', '(: 1 (: 2 (: 3 (: 4 :) :) :) :)'])
            pieces = [rng.choice(['', ' ', '\n']), c, rng.choice(['', ' ', '\t'])]
            # a comment does not separate tokens lexically in elementpath nor in the W3C grammar when
            # adjacent to names: keep one real space on the side of a word
            if (a[-1:].isalnum() or a[-1:] in "_'") and pieces[0] == '':
                pieces[0] = ' '
            if (b[:1].isalnum() or b[:1] in "_$'") and pieces[2] == '':
                pieces[2] = ' '
            return ''.join(pieces)
        if r < 0.55:
            return rng.choice(['  ', '\t', '\n', ' \n ', '   '])
        if r < 0.8 and (a in TIGHT or b in TIGHT) and not (a == '-' or b == '-') \
                and not (a in ('<', '>', '!', '/', '|', '=') and b[:1] in '<>=!/|') \
                and not (a[-1:].isdigit() and b[:1] == '.') and not (a == '*' or b == '*') \
                and not (a == '?' or b == '?') and not (a == '/' or a == '//'):
            return ''
        return ' '
    out = [texts[0]] if texts else []
    for a, b in zip(texts, texts[1:]):
        out.append(gap(a, b))
        out.append(b)
    lead = rng.choice(['', ' ', '\n', '(: lead :) ']) if ver != '10' else rng.choice(['', ' ', '\n'])
    trail = rng.choice(['', ' ', '\n', ' (: trail :)']) if ver != '10' else rng.choice(['', ' '])
    return lead + ''.join(out) + trail


def comment_end(src: str, i: int) -> int:
    """src[i:i+2] == '(:' -> index just after the matching ':)' (comments nest, XPath 2.0 A.2.1 [77])"""
    depth, j = 0, i
    while j < len(src):
        if src.startswith('(:', j):
            depth += 1
            j += 2
        elif src.startswith(':)', j):
            depth -= 1
            j += 2
            if depth == 0:
                return j
        else:
            j += 1
    return len(src)


def comment_depth(src: str, i: int) -> int:
    """maximal nesting depth of the comment starting at src[i]"""
    depth = best = 0
    j = i
    while j < len(src):
        if src.startswith('(:', j):
            depth += 1
            best = max(best, depth)
            j += 2
        elif src.startswith(':)', j):
            depth -= 1
            j += 2
            if depth == 0:
                break
        else:
            j += 1
    return best


def trig_f04i(src: str) -> bool:
    """trigger of finding F04i (the nesting limit of the comment look-ahead in the token patterns): a name is
    followed by a sequence of comments, one of them nested five or more levels deep, and then by `(`, `::` or `{`"""
    import re
    for m in re.finditer(r'[^\d\W][\w.\-]*\s*(?=\(:)', src):
        j, deep = m.end(), False
        while src.startswith('(:', j):
            deep = deep or comment_depth(src, j) >= 5
            j = comment_end(src, j)
            while j < len(src) and src[j].isspace():
                j += 1
        if deep and re.match(r'\((?!:)|::|\{', src[j:]):
            return True
    return False


def comment_tags(src: str) -> list:
    return ['F04i'] if trig_f04i(src) else []


def keyword_prefix_pass(run: Run) -> None:
    """every symbol of the parser that is an NCName can be the prefix of a QName (XPath has no reserved words)"""
    import re
    st = run.stats
    for v in ALL_VERSIONS:
        table = parser(v).symbol_table
        for k in sorted(x for x in table if re.fullmatch(r'[A-Za-z_][\w.\-]*', x)):
            for src, want in ((f'{k}:n1', f'(: ({k}) (n1))'), (f'n2 | {k}:*', f'(| (n2) (: ({k}) (*)))')):
                if v == '10' and '|' in src and False:
                    continue
                got = full_parse_tree(v, src, namespaces={k: 'urn:c04:' + k, 'x': 'urn:c04:x'})
                st.evaluations += 1
                st.count('keyword-prefix')
                if got != want:
                    run.disagree(Disagreement({'version': v, 'source': src}, got, None, want, what='hand-written-tree',
                                              site='PrefixedNameToken.__init__'))


def strip_comments(src: str):
    """reference comment stripper written from the grammar (XPath 2.0 A.2.1 [77] Comment ::= "(:" (CommentContents |
    Comment)* ":)", [82] CommentContents ::= (Char+ - (Char* ('(:' | ':)') Char*))): left-to-right, a `(:` inside a
    comment opens a nested comment (also when its `:` could close, as in `(:)`), a `:)` closes the innermost one.
    Every outermost comment becomes one blank; None if a comment is not closed.  (Sources without string literals.)"""
    out, i, n = [], 0, len(src)
    while i < n:
        if src.startswith('(:', i):
            level, i = 1, i + 2
            while level:
                if i >= n:
                    return None
                if src.startswith('(:', i):
                    level, i = level + 1, i + 2
                elif src.startswith(':)', i):
                    level, i = level - 1, i + 2
                else:
                    i += 1
            out.append(' ')
        else:
            out.append(src[i])
            i += 1
    return ''.join(out)


def comment_bodies(maxlen: int):
    import itertools
    for n in range(maxlen + 1):
        for t in itertools.product('(:)a', repeat=n):
            yield ''.join(t)


COMMENT_SOURCES = ['1 (: a (:) b :) c :) + 2', '1 (:(:):):) + 2', '1 (:(:)(:):):) + 2', '1 (::(::):) + 2', '1 (:):(:) + 2',
                   '1 (:) + 2', '1 (:(:) + 2', '(:(:):):)1 + 2', '1 +(:a(:)::):)2', '1 (: (: :) (:) :) :) + (: ):( :) 2',
                   '1 (:(:(:):):):) + 2', '1 (::):) + 2']


def comment_pass(run: Run) -> None:
    """comments whose text is made of the delimiter characters themselves: every text `(:` + body + closers with body
    over the alphabet `( : ) a` (all bodies up to length 5 quick / 7 thorough), before and inside `1 + 2`; the real
    parser must read what the reference stripper leaves (or fail where a comment is not closed)"""
    st = run.stats
    srcs = list(COMMENT_SOURCES)
    for b in comment_bodies(run.scale(5, 7)):
        for k in (1, 2, 3):
            c = '(:' + b + ':)' * k
            srcs.append(f'1 {c} + 2')
            if k == 2:
                srcs.append(f'{c}1 +{c}2')
    for v in ('20', '31'):
        for src in srcs:
            ref = strip_comments(src)
            want = 'ERR' if ref is None else canon(impl_parse(v, ref)[0])
            got = canon(impl_parse(v, src)[0])
            st.evaluations += 1
            st.count('comment-delimiters:compared')
            if want != 'ERR':
                st.count('comment-delimiters:valid')
            if got != want:
                run.disagree(Disagreement({'version': v, 'source': src, 'without_comments': ref}, got, None, want,
                                          what='whitespace-comment-invariance', site='XPath2Parser.advance (comment scan)',
                                          tags=comment_tags(src)))


def whitespace_pass(run: Run, cases: list[tuple[str, list]]) -> None:
    tabs = tables()
    st = run.stats
    for ver, base_src, src in COMMENT_WITNESSES:
        base, got = impl_parse(ver, base_src)[0], impl_parse(ver, src)[0]
        st.evaluations += 1
        if canon(got) != canon(base):
            run.disagree(Disagreement({'version': ver, 'source': base_src, 'variant': src}, canon(got), None, canon(base),
                                      what='whitespace-comment-invariance', site='tokenizer / XPath2Parser.advance',
                                      tags=comment_tags(src)))
    for ver, toks in cases:
        rows = tabs[ver]
        base_src = render(rows, toks)
        base, _ = impl_parse(ver, base_src)
        for _ in range(2):
            src = respace(run.rng, ver, rows, toks)
            got, _ = impl_parse(ver, src)
            st.evaluations += 1
            st.count('whitespace:compared')
            if '(:' in src:
                st.count('whitespace:with-comment')
            if canon(got) != canon(base):
                run.disagree(Disagreement({'version': ver, 'source': base_src, 'variant': src}, canon(got), None,
                                          canon(base), what='whitespace-comment-invariance',
                                          site='tokenizer / XPath2Parser.advance',
                                          tags=comment_tags(src)))


# ---------------------------------------------------------------------- (iv) hash seeds
GENERAL_CORPUS = {
    '10': ["child::a/descendant-or-self::b[@c = 'x'][position() < 3]", "//a[not(b)] | /c/d[last()]", "count(//a) + sum(b/@c) * 2 mod 3",
           "a[1]/b[2]/..//c/.", "string-length(concat('a', \"b\", name(.)))", "-a div 2 - -3", "processing-instruction('x')/text()",
           "a/comment() | b/node()", "@*[name() != 'id'] and (b or c)", "ancestor-or-self::*[1]/following-sibling::node()"],
    '20': ["for $x in (1, 2, 3), $y in 4 to 6 return $x * $y", "if (a = 1) then 'y' else ('n', 0)", "some $x in a satisfies $x/b = 3 and every $y in c satisfies $y",
           "a instance of element()+", "(1, 2)[. gt 1] treat as xs:integer+", "'3' cast as xs:integer? + 1", "a castable as xs:date", "a union b intersect c except d",
           "xs:dateTime('2000-01-01T00:00:00') - xs:dayTimeDuration('P1D')", "a/element(b)/attribute(c)/text()", "1 to 3, 5 idiv 2, -(4)", "1.5e3 + .5 - 2.", "a/attribute(b, xs:string) | attribute::c", "a is b or a << b or a >> b",
           "$v eq 1 (: comment :) and $w ne 2", "child::element(*, xs:string)", "empty(()) and exists((1))", "(: start :) a (: mid (: nested :) :) / b"],
    '30': ["let $x := 1, $y := $x + 1 return $x || '-' || $y", "a ! (b + 1) ! string()", "function($a as xs:integer) as xs:integer { $a + 1 }(2)",
           "fn:abs#1(-3)", "Q{http://www.w3.org/2005/xpath-functions}abs(-1)", "(1 to 5) ! (. * 2)", "math:pi() * 2", "$f(1, ?)(2)",
           "for-each((1, 2), function($x) { $x * 2 })", "string-join(('a', 'b'), ',') || 'c'", "a/b ! name() = 'x'"],
    '31': ["map { 'a': 1, 'b': (2, 3) }?a", "[1, 2, [3, 4]]?3?1", "array { 1 to 3 }?*", "(1, 2) => sum() => string()", "'a' => upper-case() => concat('b')",
           "map { 1: map { 2: 'x' } }?1?2", "[1, 2](1) + map { 'k': 5 }('k')", "a[?k = 1]", "map:merge((map { 1: 2 }, map { 3: 4 }))?3", "array:size([(), ()]) eq 2",
           "let $m := map { 'a': [1, 2] } return $m?a?2", "for $k in map:keys(map { 'x': 1 }) return $k || '!'", "- 3 => abs()", "a ! b => count()"],
}


_DEEP5 = '(: 1 (: 2 (: 3 (: 4 (: 5 :) :) :) :) :)'
_DEEP4 = '(: 1 (: 2 (: 3 (: 4 :) :) :) :)'
COMMENT_WITNESSES = [('20', 'count(n1)', f'count {_DEEP5} (n1)'), ('20', 'child::n1', f'child {_DEEP5} :: n1'),
                     ('20', 'count(n1)', f'count {_DEEP4} (: x :) {_DEEP4} (n1)'), ('20', 'child::n1', f'child{_DEEP4}::n1'),
                     ('31', 'map { 1: 2 }', f'map {_DEEP4} {{ 1: 2 }}'), ('20', 'n1 + (n2)', f'n1 {_DEEP5} + {_DEEP5} (n2)'),('20', 'string = (1)', 'string (: x :) = (: y :) (1)'),
                    ('31', "1 cast as xs:string = ('1')", "1 cast as xs:string (: x :) = (: y :) ('1')"),
                    ('20', 'n1 + (n2)', 'n1 (: a :) + (: b :) (n2)'),
                    ('20', 'child::n1 = n2', 'child (: a :) :: n1 = n2 (: b :)'),
                    # comment bodies that end in a colon (fixed F04k), a comment between `(` / `,` and a placeholder (fixed F04l)
                    ('20', '1 + 2', '1 (:::) + 2'), ('20', '1 + 2', '(: a::) 1 + (::::) 2 (: (:::) ::)'),
                    ('20', 'n1', '(: x :) (: y :) n1 (: z :)'), ('31', '$v1(?, 1)', '$v1((: c :) ?, 1)'),
                    ('31', '$v1(1, ?)', '$v1(1, (: c :) (: d :) ?)'), ('31', '$v1(?, 1)', '$v1(? (: c :), 1)'),
                    ('31', 'n1[?n2]', 'n1[(: c :) ?n2]'), ('31', 'n1?n2', 'n1 (: c :) ?n2')]


def hash_corpus(run: Run, n: int) -> list[tuple[str, str]]:
    """(version, source) pairs: the general corpus + rendered operator sequences"""
    tabs = tables()
    out = []
    for v in VERSIONS:
        for vv in VERSIONS:
            if vv <= v:
                out += [(v, s) for s in GENERAL_CORPUS[vv]]
    rng = run.rng
    for _ in range(n):
        v = rng.choice(VERSIONS)
        V = VInfo(v, tabs[v])
        toks = unparse(rng, V, gen_tree(rng, V, rng.randrange(1, 7)), rng.choice([0, 0.2, 0.5]))
        out.append((v, render(tabs[v], toks)))
    return out


def hashseed_worker() -> None:
    """child process: reads JSON [[ver, src], ...] on stdin, prints JSON {patterns, results}"""
    import hashlib
    data = json.load(sys.stdin)
    pats = {}
    for v in VERSIONS:
        p = parser(v).tokenizer.pattern
        pats[v] = hashlib.blake2b(p.encode(), digest_size=8).hexdigest()
    res = []
    for v, src in data:
        d, tok = impl_parse(v, src)
        full = 'n/a'
        try:
            from elementpath.exceptions import ElementPathError
            try:
                try:
                    t2 = parser(v).parse(src)
                finally:
                    state_check(v, src, parser(v))
                full = t2.tree + ' | ' + t2.source
            except ElementPathError as e:
                full = 'ERR:' + (getattr(e, 'code', None) or 'none').split(':')[-1]
        except Exception as e:
            full = f'ERR:OTHER:{type(e).__name__}'
        res.append([d, full])
    json.dump({'patterns': pats, 'results': res}, sys.stdout)


def hashseed_pass(run: Run) -> None:
    corpus = hash_corpus(run, run.scale(150, 1500))
    seeds = list(range(1, run.scale(8, 64) + 1))
    payload = json.dumps(corpus)
    env = dict(os.environ, VERIF_REPO=str(REPO), PYTHONDONTWRITEBYTECODE='1')
    procs = []
    outs = {}
    width = 8
    for i in range(0, len(seeds), width):
        batch = seeds[i:i + width]
        procs = [(s, subprocess.Popen([sys.executable, __file__, '--hashseed-worker'], stdin=subprocess.PIPE,
                                      stdout=subprocess.PIPE, stderr=subprocess.PIPE, text=True,
                                      env=dict(env, PYTHONHASHSEED=str(s)))) for s in batch]
        for s, p in procs:
            o, e = p.communicate(payload, timeout=600)
            if p.returncode != 0:
                run.broken.append(f'hashseed-worker seed={s} rc={p.returncode}: {e[-300:]}')
                continue
            outs[s] = json.loads(o)
    if not outs:
        return
    ref_seed = min(outs)
    ref = outs[ref_seed]
    st = run.stats
    st.extra['hash_seeds'] = {'seeds': len(outs), 'corpus': len(corpus),
                              'distinct_tokenizer_patterns': {v: len({o['patterns'][v] for o in outs.values()}) for v in VERSIONS}}
    for s, o in outs.items():
        for (v, src), a, b in zip(corpus, ref['results'], o['results']):
            st.evaluations += 1
            if a != b:
                run.disagree(Disagreement({'version': v, 'source': src, 'PYTHONHASHSEED': s, 'reference_seed': ref_seed},
                                          str(b), None, str(a), what='hash-seed-independence',
                                          site='Parser.create_tokenizer (set of custom patterns)'))
        st.count('hashseed:runs')
    # in-process: the same corpus must give, with this process's seed, the reference result too
    for (v, src), a in zip(corpus, ref['results']):
        d, _ = impl_parse(v, src)
        if d != a[0]:
            run.disagree(Disagreement({'version': v, 'source': src, 'PYTHONHASHSEED': os.environ.get('PYTHONHASHSEED'),
                                       'reference_seed': ref_seed}, d, None, a[0], what='hash-seed-independence',
                                      site='Parser.create_tokenizer'))


def permutation_pass(run: Run) -> None:
    """all orderings (quick: a sample) of the custom-pattern alternatives of the tokenizer regex"""
    import re
    corpus = hash_corpus(run, run.scale(40, 200))
    st = run.stats
    for v in VERSIONS:
        P = parser_class(v)
        pats = sorted({c.pattern for c in P.symbol_table.values() if c.pattern is not None})
        full = P.tokenizer.pattern
        pos = sorted(pats, key=lambda x: full.find(x))
        joined = '|'.join(pos)
        if any(full.find(x) < 0 for x in pats) or joined not in full:
            # overlapping texts: order by scanning
            run.notes.append(f'permutation: custom alternatives of v{v} not located textually; skipped')
            continue
        perms = list(itertools.permutations(pos)) if len(pos) <= 6 else []
        if run.quick and len(perms) > 24:
            perms = run.rng.sample(perms, 24)
        if not perms:
            perms = [tuple(run.rng.sample(pos, len(pos))) for _ in range(run.scale(12, 120))]
        base = {}
        mine = [(vv, s) for vv, s in corpus if vv == v]
        for vv, s in mine:
            base[s] = impl_parse(v, s)[0]
        p = parser(v)
        saved = p.tokenizer
        try:
            for perm in perms:
                p.tokenizer = re.compile(full.replace(joined, '|'.join(perm)))
                for vv, s in mine:
                    got = impl_parse(v, s)[0]
                    st.evaluations += 1
                    if got != base[s]:
                        run.disagree(Disagreement({'version': v, 'source': s, 'alternation_order': list(perm)}, got, None,
                                                  base[s], what='tokenizer-alternation-order',
                                                  site='Parser.create_tokenizer'))
                st.count('tokenizer-permutations')
        finally:
            p.tokenizer = saved
        st.extra.setdefault('custom_patterns', {})[v] = len(pats)


def alternatives_pass(run: Run) -> None:
    """tie of the tokenizer-alternative model: wherever a real custom pattern (compiled alone) matches in a
    corpus text, the Lean `matchLen` of its `Alt` gives the same lexeme length"""
    import re
    info = alternatives()
    st = run.stats
    lines, expect = [], []
    corpus = hash_corpus(run, run.scale(60, 600)) + [(v, s) for v in VERSIONS for s in
                                                     ['Q{urn:x}a', 'map{1:2}', 'array{1}', 'map (: c :) {1:2}', 'attribute::a',
                                                      'attribute(a)', 'child :: a', 'f\t(1)', 'a-b.c(1)', 'x-attribute(1)',
                                                      'ancestor-or-self::node()', '$map{1}', 'array (1)', 'map(*)']]
    for v in VERSIONS:
        a = info[v]
        if a['error']:
            run.broken.append(f'translator:tokenizer-alternatives v{v}: {a["error"]}')
            continue
        for i, alt in enumerate(a['alts']):
            rx = re.compile(alt['pattern'])
            for vv, src in corpus:
                if vv != v:
                    continue
                for pos in range(len(src)):
                    m = rx.match(src, pos)
                    if m is None or m.end() == pos:
                        continue
                    suffix = src[pos:m.end() + 2]
                    lines.append(f'V={VNUM[v]} LEX={i} S=' + ','.join(str(ord(c)) for c in suffix))
                    expect.append((v, alt['pattern'], src, pos, m.end() - pos))
    seen = set()
    uniq = [(l, e) for l, e in zip(lines, expect) if not (l in seen or seen.add(l))]
    answers = run.driver('C04', [l for l, _ in uniq])
    for (line, (v, pat, src, pos, n)), ans in zip(uniq, answers):
        st.evaluations += 1
        st.count('tokenizer-alternative-matches')
        if ans != f'len={n}':
            run.disagree(Disagreement({'version': v, 'pattern': pat, 'source': src, 'offset': pos, 'line': line},
                                      f'len={n}', ans, what='tokenizer-alternative-model', site='custom token patterns'))


# -------------------------------------------------------------------------------- corpus
def sym_toks(V: VInfo, spec: list) -> list:
    """['n1', '=', 'n2', ...] -> tokens (operators by symbol)"""
    out = []
    for s in spec:
        if isinstance(s, tuple):
            out.append(s)
        elif s in (')', ']'):
            out.append(('c', CLOSERS[s]))
        elif s in V.idx:
            out.append(('o', V.idx[s]))
        elif s == '?*':
            out += [('o', V.idx['?']), ('a', 6, 0)]
        elif s[0] == '?' and len(s) > 1 and s[1] == 'n':
            out += [('o', V.idx['?']), ('a', 0, int(s[2:]))]
        elif s[0] == '?' and len(s) > 1:
            out += [('o', V.idx['?']), ('a', 1, int(s[1:]))]
        elif s[0] == 'n':
            out.append(('a', 0, int(s[1:])))
        elif s[0] == '$':
            out.append(('a', 2, int(s[1:])))
        elif s[0] == 'T':
            # T0..T5 of the seed corpus: xs:integer, xs:string, xs:decimal?, xs:boolean, item(), node()
            out.append(('t', [4, 8, 13, 16, 20, 24][int(s[1:])] if int(s[1:]) < 6 else int(s[1:])))
        else:
            out.append(('a', 1, int(s)))
    return out


SEED_CORPUS = [
    ('10', ['1', '=', '2', '=', '3']), ('10', ['1', '<', '2', '=', '3']), ('10', ['1', '=', '2', '<', '3']),   # F04a
    ('10', ['-', 'n1', '|', 'n2']), ('10', ['+', 'n1']), ('10', ['(', 'n1', ')', '/', 'n2']),                     # fixed F04c, F04b, fixed F04d (1.0)
    ('10', ['n1', 'or', 'n2', 'and', 'n3']), ('10', ['n1', '-', 'n2', '-', 'n3']), ('10', ['n1', '/', 'n2', '[', '1', ']']),
    ('20', ['n1', '=', 'n2', 'eq', 'n3']), ('20', ['n1', '<<', 'n2', '<<', 'n3']),                               # F04b
    ('20', ['1', 'cast', 'T0', 'cast', 'T0']), ('20', ['n1', 'instance', 'T0', 'treat', 'T1']),
    ('20', ['$1', '(', '1', ')']), ('20', ['n1', '/', '$1']),
    ('20', ['n1', 'to', 'n2', 'to', 'n3']), ('20', ['n1', '=', 'n2', '=', 'n3']), ('20', ['n1', 'is', 'n2', 'is', 'n3']),
    ('20', ['n1', ',', 'n2', ',', 'n3']), ('20', ['(', ')']), ('20', ['-', 'n1', 'cast', 'T0']),
    ('30', ['n1', '!', '-', 'n2']), ('30', ['n1', '||', 'n2', 'to', 'n3']), ('30', ['$1', '(', ')', '(', '1', ',', '2', ')']),
    ('31', ['n1', '?', 'n2', '/', 'n3']), ('31', ['n1', '/', 'n2', '?', 'n3']), ('31', ['n1', '?', '1', '[', '2', ']']),
    ('31', ['n1', '?', '(', '1', ')', '?', 'n2']), ('31', ['-', 'n1', '?', 'n2']), ('31', ['n1', '!', 'n2', '/', 'n3']),
    ('31', ['n1', 'or', 'n2', 'and', 'n3', '=', 'n4', '||', 'n5', 'to', 'n6', '+', 'n7', '*', 'n1', '|', 'n2', 'intersect', 'n3',
            'instance', 'T4']),
    # unary lookups as operands right after `(` and `,` (LookupOperatorToken zeroes its lbp/rbp there) and elsewhere
    ('31', ['(', '?1', '+', '?2', ')']), ('31', ['(', '?1', ',', '?2', ')']), ('31', ['$1', '(', '?1', ',', '?2', '+', '1', ')']),
    ('31', ['n1', '[', '(', '?1', '+', '1', ')', '=', '2', ']']), ('31', ['n1', '[', '?n1', '+', '1', '=', '2', ']']),
    ('31', ['(', '?*', '=', '?n2', ',', '?3', '*', '2', ')']), ('31', ['?n1', '?', 'n2', '?', '1']), ('31', ['-', '?1', '||', '?n2']),
    ('31c', ['(', '?1', '+', '?2', ')']),
    # grouping of unary minus / plus before the typed and set operators, also in compatibility mode
    ('20c', ['-', '1', 'instance', 'T0']), ('30c', ['-', '1', 'cast', 'T0']), ('31c', ['-', 'n1', '|', 'n2']),
    ('20c', ['+', 'n1', 'intersect', 'n2']), ('31c', ['-', 'n1', 'treat', 'T4']), ('20c', ['-', 'n1', 'castable', 'T1']),
    ('20c', ['-', 'n1', 'union', 'n2', 'except', 'n3']),
    # operands that spell operator keywords (prefixed, wildcard), static calls, arrows with every specifier form
    ('10', [('a', 8, 0), 'div', ('a', 8, 1)]), ('20', [('a', 8, 4), '|', ('a', 8, 1)]), ('20', [('a', 9, 0)]),
    ('31', [('a', 7, 0), 'div', ('a', 7, 1), 'mod', ('a', 9, 15)]), ('20', [('a', 7, 2), 'and', ('a', 7, 3), 'or', ('a', 8, 7)]),
    ('31', [('a', 11, 1), '||', ('a', 11, 2)]), ('31', [('a', 11, 3), '=', ('a', 11, 5), ',', ('a', 11, 6)]),
    ('31', ['-', ('a', 11, 7), '+', ('a', 10, 5)]), ('30', [('a', 10, 7), '!', ('a', 10, 3)]),
    ('10', [('a', 10, 1), '+', ('a', 10, 3), '*', ('a', 10, 4)]), ('31', ['n1', '[', ('a', 11, 8), ']']),
    ('31', ['(', ('a', 11, 9), ',', ('a', 11, 10), ')']), ('20', ['n1', '/', ('a', 8, 1), '/', ('a', 9, 0)]),
    # minimal failing inputs found by the mutation self-test (regression seeds)
    ('20', ['n1', 'to', 'n2', 'to', 'n3']), ('31', ['n1', '|', 'n2', '|', 'n3']), ('30', ['n1', 'intersect', 'n2', 'cast', 'T3']),
    ('20', ['-', 'n1', 'cast', 'T0']), ('30', ['n1', '||', 'n2', 'to', 'n3']), ('10', ['$1', '*', 'n5', '*', 'n6']),
    ('31', ['-', 'n1', '|', 'n2']), ('31', ['n1', 'union', 'n2', 'intersect', 'n3', 'except', 'n4']),
]


def corpus_cases() -> list[tuple[str, list]]:
    tabs = tables()
    out = []
    for v, spec in SEED_CORPUS:
        V = VInfo(v, tabs[v])
        out.append((v, sym_toks(V, spec)))
    cdir = VERIF / 'corpus' / PROP
    if cdir.exists():
        for f in sorted(cdir.glob('*.jsonl')):
            for ln in f.read_text().splitlines():
                if ln.strip():
                    d = json.loads(ln)
                    out.append((d['version'], [tuple(t) for t in d['tokens']]))
    return out


# --------------------------------------------------------------------------------- search
def led_tail_of(V, o, operand):
    k = V.rows[o]['led']['kind']
    if k == 'infix':
        return [('o', o), operand]
    if k == 'typed':
        return [('o', o), ('t', 4)]
    return [('o', o), ('a', 1, 1), ('c', V.rows[o]['led']['close'])]


def search(run: Run):
    """all expressions `a o1 b`, `a o1 b o2 c`, `p a o1 b`, `a o1 p b` and typed/bracket combinations over
    all ordered pairs of modelled operators of every version, without parentheses; real parser vs EBNF."""
    tabs = tables()
    sub = Run(PROP, run.tier, run.seed)
    cases = []
    A = [('a', 0, 1), ('a', 0, 2), ('a', 0, 3)]
    for v in ALL_VERSIONS:
        V = VInfo(v, tabs[v])
        if v.startswith('31') and V.group:
            # unary lookups ?k / ?name / ?* in every operand position: first token after `(` and after `,`
            # (parenthesised expression, call arguments, predicate), followed by each binary operator; postfix lookups
            g, gc = V.group[0], V.rows[V.group[0]]['nud']['close']
            comma = V.idx.get(',')
            pred = V.idx.get('[')
            look = V.idx.get('?')
            q = ('o', look)
            U = [[q, ('a', 1, 1)], [q, ('a', 0, 2)], [q, ('a', 6, 0)], [q, ('a', 1, 3)]]
            for o in V.infix:
                for u1 in U[:3]:
                    cases.append((v, [('o', g)] + u1 + [('o', o)] + U[3] + [('c', gc)]))
                    cases.append((v, u1 + [('o', o)] + U[3]))
                    if comma is not None:
                        cases.append((v, [('o', g), ('a', 1, 1), ('o', comma)] + u1 + [('o', o)] + U[3] + [('c', gc)]))
                        cases.append((v, [('a', 2, 1), ('o', g)] + u1 + [('o', o)] + U[3] + [('o', comma)] + U[1]
                                      + [('o', o), ('a', 1, 2), ('c', gc)]))
                    if pred is not None:
                        cases.append((v, [('a', 0, 1), ('o', pred)] + u1 + [('o', o), ('a', 1, 2), ('c', 1)]))
                        cases.append((v, [('a', 0, 1), ('o', pred), ('o', g)] + u1 + [('o', o), ('a', 1, 1), ('c', gc),
                                          ('o', o), ('a', 1, 2), ('c', 1)]))
                cases.append((v, [('a', 0, 1), q, ('a', 1, 1), ('o', o), ('a', 0, 2), q, ('a', 0, 3)]))
                cases.append((v, [('o', g), ('a', 0, 1), q, ('a', 1, 1), ('o', o)] + U[0] + [('c', gc)]))
            for p in V.prefix:
                if comma is not None:
                    cases.append((v, [('o', g), ('o', p)] + U[0] + [('o', comma), ('o', p)] + U[1] + [('c', gc)]))

        if V.arrow_sym and V.group:
            # arrow forms (also when the led of `=>` is not recognised by the translator): valid and invalid
            # specifiers / argument lists, and `=>` against every other operator on both sides
            ar, g, gc = ('o', V.arrow_sym[0]), ('o', V.group[0]), ('c', V.rows[V.group[0]]['nud']['close'])
            call = [ar, ('a', 0, 3), g, gc]
            specs = [[('a', 0, 2)], [('a', 2, 1)], [('a', 8, 0)], [g, ('a', 0, 2), gc], [('a', 1, 2)], [('a', 3, 1)],
                     [('a', 2, 1), ('o', V.idx['?']), ('a', 0, 2)] if '?' in V.idx else [('a', 2, 2)]]
            argls = [[g, gc], [g, ('a', 1, 1), gc], [g, ('a', 1, 1), ('o', V.idx[',']), ('a', 1, 2), gc], [('a', 1, 2)], [],
                     [g, gc, g, gc], [('o', V.idx['[']), ('a', 1, 1), ('c', 1)]]
            for sp_ in specs:
                for al in argls:
                    cases.append((v, [A[0], ar] + sp_ + al))
                    cases.append((v, [A[0], ar] + sp_ + al + call))
            for o in V.infix + V.typed + V.bracket:
                cases.append((v, [A[0]] + call + led_tail_of(V, o, A[1])))
                cases.append((v, [A[0]] + led_tail_of(V, o, A[1]) + call))
                cases.append((v, [A[0]] + call + led_tail_of(V, o, A[1]) + call))
            for p_ in V.prefix:
                cases.append((v, [('o', p_), A[0]] + call))
                cases.append((v, [A[0], ar, ('o', p_), A[1], g, gc]))

        def led_tail(o, operand):
            k = V.rows[o]['led']['kind']
            if k == 'infix':
                return [('o', o), operand]
            if k == 'typed':
                return [('o', o), ('t', 4)]
            return [('o', o), ('a', 1, 1), ('c', V.rows[o]['led']['close'])]
        leds = V.infix + V.typed + V.bracket
        for o1 in leds:
            cases.append((v, [A[0]] + led_tail(o1, A[1])))
            for p in V.prefix:
                cases.append((v, [('o', p), A[0]] + led_tail(o1, A[1])))
                if V.rows[o1]['led']['kind'] == 'infix':
                    cases.append((v, [A[0], ('o', o1), ('o', p), A[1]]))
            for o2 in leds:
                cases.append((v, [A[0]] + led_tail(o1, A[1]) + led_tail(o2, A[2])))
    cases = [(v, t) for v, t in cases if out_of_fragment(VInfo(v, tabs[v]), t) is None]
    for i in range(0, len(cases), 4000):
        compare_tokens(sub, cases[i:i + 4000], origin='search')
    run.notes.append(f'search: {len(cases)} exhaustive two-operator expressions, {len(sub.disagreements)} disagreements')
    return sub.disagreements


def parse_line(line: str):
    fs = dict(kv.split('=', 1) for kv in line.split(' '))
    fs['V'] = {str(n): v for v, n in VNUM.items()}[fs['V']]
    toks = []
    for t in fs['T'].split(','):
        if t[0] == 'a':
            k, n = t[1:].split('.')
            toks.append(('a', int(k), int(n)))
        else:
            toks.append((t[0], int(t[1:])))
    return fs['V'], toks


def reductions(toks: list):
    """smaller token lists: drop a balanced bracket span, unwrap a group, drop `op operand`, `operand op`,
    a prefix operator, a typed suffix"""
    n = len(toks)
    match = {}
    stack = []
    for i, t in enumerate(toks):
        if t[0] == 'o' and i + 1 < n:
            stack.append(i)
        if t[0] == 'c':
            # closers match the nearest unmatched opener candidate (brackets only)
            while stack:
                j = stack.pop()
                match[j] = i
                break
    out = []
    for i, t in enumerate(toks):
        if t[0] == 'o' and i in match:
            j = match[i]
            out.append(toks[:i] + toks[j + 1:])                    # drop the whole bracket span
            out.append(toks[:i] + toks[i + 1:j] + toks[j + 1:])    # unwrap
            out.append(toks[:i] + [('a', 0, 1)] + toks[j + 1:])    # replace by an operand
        if t[0] == 'o':
            if i + 1 < n and toks[i + 1][0] == 'a':
                out.append(toks[:i] + toks[i + 2:])
            if i > 0 and toks[i - 1][0] == 'a':
                out.append(toks[:i - 1] + toks[i + 1:])
            if i + 1 < n and toks[i + 1][0] == 't':
                out.append(toks[:i] + toks[i + 2:])
            out.append(toks[:i] + toks[i + 1:])
    seen, uniq = set(), []
    for c in out:
        key = tuple(c)
        if c and key not in seen and len(c) < n:
            seen.add(key)
            uniq.append(c)
    return uniq


def shrink(d: Disagreement) -> Disagreement:
    """greedy delta debugging on the token list, keeping `real parser != EBNF reference, no known trigger`"""
    if not isinstance(d.case, dict) or 'line' not in d.case or d.what != 'tree-vs-ebnf':
        return d
    ver, toks = parse_line(d.case['line'])
    best = d
    for _ in range(40):
        V = VInfo(ver, tables()[ver])

        def plausible(c):
            for i, t in enumerate(c):
                typed_before = i > 0 and c[i - 1][0] == 'o' and c[i - 1][1] in V.typed
                if (t[0] == 't') != typed_before:
                    return False
                if t[0] == 'a' and i > 0 and c[i - 1][0] in ('a', 't', 'c'):
                    return False
                if t[0] == 'o' and t[1] in V.prefix and V.rows[t[1]]['led']['kind'] in ('none', 'other', 'infix') \
                        and (i + 1 == len(c) or c[i + 1][0] == 'c') and (i == 0 or c[i - 1][0] == 'o'):
                    return False        # a prefix symbol without operand (`( ? )`: the placeholder form, outside the fragment)
                rhs = V.rows[t[1]]['nud'].get('rhs') if t[0] == 'o' else None
                if rhs and (i == 0 or c[i - 1][0] == 'o') and i + 1 < len(c):
                    nxt = c[i + 1]
                    code = atom_code(nxt[1]) if nxt[0] == 'a' else (op_code(nxt[1]) if nxt[0] == 'o' else -1)
                    if code not in rhs:
                        return False    # unary lookup without a key specifier (placeholder laxity, outside the fragment)
            return out_of_fragment(V, c) is None
        cands = [(ver, c) for c in reductions(toks) if plausible(c)]
        if not cands:
            break
        sub = Run(PROP, 'quick', 0)
        compare_tokens(sub, cands, origin='shrink')
        good = [x for x in sub.disagreements if x.kind == 'violation' and x.what == 'tree-vs-ebnf' and not x.tags]
        if not good:
            break
        good.sort(key=lambda x: len(x.case['line']))
        best = good[0]
        ver, toks = parse_line(best.case['line'])
    return best


# ----------------------------------------------------------------------------------- body
def correspond(run: Run) -> None:
    tabs = tables()
    rng = run.rng
    cases = corpus_cases()
    n = run.scale(5000, 60000)
    skipped = {}
    # quick: the four default parsers + XPath2Parser(compatibility_mode=True); thorough: all seven
    versions = VERSIONS + ['20c'] if run.quick else VERSIONS + COMPAT + COMPAT
    while len(cases) < n:
        v = rng.choice(versions)
        V = VInfo(v, tabs[v])
        size = rng.choice([1, 2, 2, 3, 3, 4, 5, 6, 7, 9] if run.quick else [1, 2, 3, 3, 4, 5, 6, 7, 9, 12])
        t = gen_tree(rng, V, size)
        toks = unparse(rng, V, t, rng.choice([0, 0, 0.15, 0.4]))
        why = out_of_fragment(V, toks)
        if why:
            skipped[why] = skipped.get(why, 0) + 1
            continue
        cases.append((v, toks))
    run.stats.extra['skipped_out_of_fragment'] = skipped
    run.stats.rule = ('token sequences = in-order yield of random trees (1..9 operators quick / 1..12 thorough) over all '
                      'modelled operators of the version (infix, prefix, typed, predicate, call, lookup, comma, 3.1: arrow `=>` with specifier and argument list) with '
                      'operands name/integer/variable/string (3.1: also unary lookups ?name ?int ?*), sequence types = 12 bases x occurrence indicator none/?/*/+ with `*`, `+`, `?`-led continuations after the type (occurrence-indicators constraint, normalised by EPV.EBNF.absorbOcc), every subtree parenthesised with probability 0/0.15/0.4; '
                      'compared: tree of the real parser (syntactic phase) vs Lean Pratt model with the generated table vs '
                      'Lean EBNF reference parser; then source round trip (tree, value), whitespace/comment variants, '
                      'hash seeds, tokenizer alternation orders, hand-written trees, constructor-option variants. distinct = distinct token lines with >= 2 operators')
    for i in range(0, len(cases), 5000):
        compare_tokens(run, cases[i:i + 5000])
    wcases = [c for c in cases if len(c[1]) >= 3][:run.scale(600, 6000)]
    whitespace_pass(run, wcases)
    comment_pass(run)
    # general corpus: source round trip of constructs outside the operator fragment
    for v in VERSIONS:
        for vv in VERSIONS:
            if vv <= v:
                for s in GENERAL_CORPUS[vv]:
                    d, tok = impl_parse(v, s)
                    run.stats.evaluations += 1
                    run.stats.count('general-corpus')
                    if tok is None:
                        run.disagree(Disagreement({'version': v, 'source': s}, d, None, 'parses', what='general-corpus-parse'))
                    else:
                        roundtrip(run, v, s, tok, d)
        for first, s in TYPE_TEXTS:
            if base_of(v) < first:
                continue
            d, tok = impl_parse(v, s)
            run.stats.evaluations += 1
            run.stats.count('type-text')
            try:
                back = tok.source if tok is not None else d
            except Exception as e:
                back = f'ERR:OTHER:source:{type(e).__name__}'
            if back != s:
                run.disagree(Disagreement({'version': v, 'source': s}, back, None, s, what='source-roundtrip',
                                          site='XPathToken.source of a sequence type'))
    expected_pass(run)
    kw_pass(run)
    keyword_prefix_pass(run)
    options_pass(run, cases)
    alternatives_pass(run)
    hashseed_pass(run)
    permutation_pass(run)


# constructs outside the abstract alphabet whose grouping is fixed by the EBNF: (first version, source, tree
# written by hand from the grammar in the notation of Token.tree).  Checked for the version and every later
# one, default and compatibility-mode parsers.
EXPECTED = [
    ('31', '(?1 + ?2)', '(+ (? (1)) (? (2)))'),
    ('31', '(?1, ?2)', '(, (? (1)) (? (2)))'),
    ('31', "concat(?1, '-', ?2)", "(concat (? (1)) ('-') (? (2)))"),
    ('31', '[?1 + 1, ?2]', '([ (+ (? (1)) (1)) (? (2)))'),
    ('31', '[(?1 + 1) = 2]', '([ (= (+ (? (1)) (1)) (2)))'),
    ('31', 'array { ?1, ?2 * 2 }', '(array (? (1)) (* (? (2)) (2)))'),   # the array token holds the members
    ('31', 'a[?k = 1 and ?*]', '([ (a) (and (= (? (k)) (1)) (? (*))))'),
    ('31', 'a?k?1 = ?k?1', '(= (? (? (a) (k)) (1)) (? (? (k)) (1)))'),
    ('31', 'max((?a, ?b + 1))', '(max (, (? (a)) (+ (? (b)) (1))))'),
    ('31', '-?1 + ?2', '(+ (- (? (1))) (? (2)))'),
    ('20', '-1 instance of xs:integer', '(instance (- (1)) (: (xs) (integer)))'),
    ('20', '-1 cast as xs:integer', '(cast (- (1)) (: (xs) (integer)))'),
    ('20', '+1 castable as xs:integer', '(castable (+ (1)) (: (xs) (integer)))'),
    ('20', '-a treat as item()', '(treat (- (a)) (item))'),
    ('20', '-a union b', '(union (- (a)) (b))'), ('20', '-a | b', '(| (- (a)) (b))'),
    ('20', '-a intersect b', '(intersect (- (a)) (b))'), ('20', '-a except b', '(except (- (a)) (b))'),
    ('20', '-a/b', '(- (/ (a) (b)))'), ('20', '-a[1]', '(- ([ (a) (1)))'), ('20', '- -a * b', '(* (- (- (a))) (b))'),
    ('30', '-a ! b', '(- (! (a) (b)))'), ('31', '-a => string()', '(=> (- (a)) (string) ())'),
    # arrow operator (3.1 [29] ArrowExpr ::= UnaryExpr ( "=>" ArrowFunctionSpecifier ArgumentList )*, below CastExpr)
    ('31', '1 cast as xs:string => upper-case()', '(=> (cast (1) (: (xs) (string))) (upper-case) ())'),
    ('31', 'a => string() => upper-case()', '(=> (=> (a) (string) ()) (upper-case) ())'),
    ('31', '1 => $f(2)', '(=> (1) ($ (f)) (2))'), ('31', "'a' => fn:upper-case()", "(=> ('a') (: (fn) (upper-case)) ())"),
    ('31', '(1, 2) => (function($x) { count($x) })()', '(=> (, (1) (2)) (function ($ (x))) ())'),
    ('31', 'a = b => string()', '(= (a) (=> (b) (string) ()))'), ('31', 'a || b => string()', '(|| (a) (=> (b) (string) ()))'),
    ('31', '- 1 => abs() cast as xs:integer', '(cast (=> (- (1)) (abs) ()) (: (xs) (integer)))'),
    ('31', 'a ! b => count()', '(=> (! (a) (b)) (count) ())'),
    # arrow: every function-specifier form x argument forms (static calls, nested calls, arrows, lookups, keywords)
] + [('31', a[0][1:-1], a[1]) for a in ARROWS] + [
    ('31', "'a' => fn:concat(upper-case('b'))", "(=> ('a') (: (fn) (concat)) (upper-case ('b')))"),
    ('31', "'a' => Q{%s}concat(upper-case('b'), 'c')" % FN, "(=> ('a') (Q{ ('%s') (concat)) (, (upper-case ('b')) ('c')))" % FN),
    ('31', "'a' => (concat#2)(string(count(x)))", "(=> ('a') (# (concat) (2)) (string (count (x))))"),
    ('31', "'a' => concat(string(1), string(2))", "(=> ('a') (concat) (, (string (1)) (string (2))))"),
    ('31', "'a' => $f(string(1), x:div)", "(=> ('a') ($ (f)) (, (string (1)) (: (x) (div))))"),
    ('31', "div => fn:string()", "(=> (div) (: (fn) (string)) ())"),
    ('31', "x:mod => string() => fn:concat(upper-case('b'))", "(=> (=> (: (x) (mod)) (string) ()) (: (fn) (concat)) (upper-case ('b')))"),
    # names that spell operator keywords, prefixed and as wildcard local parts, on an axis
    ('10', 'x:div div x:mod', '(div (: (x) (div)) (: (x) (mod)))'), ('10', 'child::x:mod', '(child (: (x) (mod)))'),
    ('20', 'x:union | x:mod', '(| (: (x) (union)) (: (x) (mod)))'), ('20', '*:div', '(: (*) (div))'),
    ('20', 'x:to to x:eq eq *:is', '(eq (to (: (x) (to)) (: (x) (eq))) (: (*) (is)))'),
    ('20', 'and and or or union union intersect', '(or (and (and) (or)) (union (union) (intersect)))'),
    ('20', 'x:instance instance of element() and x:cast cast as xs:string',
     '(and (instance (: (x) (instance)) (element)) (cast (: (x) (cast)) (: (xs) (string))))'),
    ('30', 'let/for/some/every/if/return/satisfies', '(/ (/ (/ (/ (/ (/ (let) (for)) (some)) (every)) (if)) (return)) (satisfies))'),
    ('20', 'count(x:div) + string-length(string(*:mod))', '(+ (count (: (x) (div))) (string-length (string (: (*) (mod)))))'),
    # placeholder, sequence types with occurrence / map / array tests, attribute axis and kind test, literals
    ('31', '$f(?, 1)', '(($ (f)) (, (?) (1)))'), ('31', 'a instance of element()?', '(instance (a) (element))'),
    ('31', '. instance of map(*)', '(instance (.) (map (*)))'),
    ('31', '. instance of array(xs:integer)', '(instance (.) (array (: (xs) (integer))))'),
    ('31', '. instance of map(xs:string, item()*)', '(instance (.) (map (: (xs) (string)) (item)))'),
    ('20', 'attribute::a', '(attribute (a))'), ('20', 'a/attribute(b, xs:string)', '(/ (a) (attribute (b) (: (xs) (string))))'),
    ('20', 'some $x in a, $y in b satisfies $x = $y', '(some ($ (x)) (a) ($ (y)) (b) (= ($ (x)) ($ (y))))'),
    ('30', 'n1(1)', 'ERR:XPST0017'),
    ('10', '-a | b', '(- (| (a) (b)))'), ('10', '-a * b', '(* (- (a)) (b))'), ('10', '-a div b', '(div (- (a)) (b))'),
    # occurrence indicators (XPath 2.0 A.1.2 "occurrence-indicators": a `?`, `*`, `+` directly after a sequence type
    # is its indicator; `empty-sequence()` takes none; SingleType takes only `?`); the last three lines are the cases of fixed F04j
    ('20', '() treat as empty-sequence() * 2', '(* (treat () (empty-sequence)) (2))'),
    ('20', 'n instance of empty-sequence() * 2', '(* (instance (n) (empty-sequence)) (2))'),
    ('20', 'n instance of empty-sequence() + 2', '(+ (instance (n) (empty-sequence)) (2))'),
    ('20', 'n instance of xs:integer* * 2', '(* (instance (n) (: (xs) (integer))) (2))'),
    ('20', 'n instance of xs:integer * * 2', '(* (instance (n) (: (xs) (integer))) (2))'),
    ('20', 'n treat as xs:integer+ + 1', '(+ (treat (n) (: (xs) (integer))) (1))'),
    ('20', 'n instance of element()? + 1', '(+ (instance (n) (element)) (1))'),
    ('20', 'n instance of xs:integer+ - 1', '(- (instance (n) (: (xs) (integer))) (1))'),
    ('20', 'n treat as node()* div 2', '(div (treat (n) (node)) (2))'),
    ('20', 'n instance of xs:integer ? and n', '(and (instance (n) (: (xs) (integer))) (n))'),
    ('20', '1 cast as xs:integer? * 2', '(* (cast (1) (: (xs) (integer))) (2))'),
    ('20', '1 cast as xs:integer * 2', '(* (cast (1) (: (xs) (integer))) (2))'),
    ('20', '1 castable as xs:integer + 2', '(+ (castable (1) (: (xs) (integer))) (2))'),
    ('20', 'n instance of xs:integer * 2', 'ERR:XPST0003'), ('20', 'n instance of xs:integer + 2', 'ERR:XPST0003'),
    ('20', 'n instance of empty-sequence()*', 'ERR:XPST0003'), ('20', 'n treat as empty-sequence()?', 'ERR:XPST0003'),
    ('20', 'n instance of xs:integer* *', 'ERR:XPST0003'), ('20', '1 cast as xs:integer+', 'ERR:XPST0003'),
    ('20', 'n instance of item()* * 2', '(* (instance (n) (item)) (2))'), ('20', '1 treat as item()+ + 2', '(+ (treat (1) (item)) (2))'),
    ('20', 'n treat as node()? + + 2', '(+ (treat (n) (node)) (+ (2)))'), ('20', 'n instance of element()* * 2', '(* (instance (n) (element)) (2))'),
    # fixed F04o: a parenthesised arrow specifier is an ordinary expression
    ('31', "'x' => (if (true()) then upper-case#1 else lower-case#1)()", "(=> ('x') (if (true) (# (upper-case) (1)) (# (lower-case) (1))) ())"),
    ('31', "4 => (concat('a', 'b'))(1)", "(=> (4) (concat ('a') ('b')) (1))"),
    ('31', "$v => (4 instance of node()?)(1)", "(=> ($ (v)) (instance (4) (node)) (1))"),
    ('31', 'n instance of array(*)+ + 1', '(+ (instance (n) (array (*))) (1))'), ('31', 'n instance of map(*)* * 2', '(* (instance (n) (map (*))) (2))'),
]

# sequence types whose text must come back unchanged from `source` (the occurrence indicator is not visible in `tree`)
_OCC_BASES = [('20', b) for b in ('xs:integer', 'item()', 'node()', 'text()', 'comment()', 'element()', 'attribute()',
                                  'document-node()', 'processing-instruction()', 'element(a)', 'attribute(a, xs:string)',
                                  'schema-element(a)', 'schema-attribute(a)')] + \
             [('30', b) for b in ('function(*)', 'function(xs:integer) as xs:string')] + \
             [('31', b) for b in ('map(*)', 'array(*)', 'map(xs:string, item()*)', 'array(xs:integer+)')]
TYPE_TEXTS = [(v, f'n1 {kw} {b}{o}') for v, b in _OCC_BASES for o in ('', '?', '*', '+') for kw in ('instance of', 'treat as')] + \
             [('20', 'n1 instance of empty-sequence()'), ('20', '1 cast as xs:integer?'), ('20', '1 castable as xs:integer?')]


def full_parse_tree(ver: str, src: str, **options) -> str:
    from elementpath.exceptions import ElementPathError
    from elementpath.tdop import Parser as TdopParser
    try:
        try:
            return TdopParser.parse(parser(ver, **options), src).tree
        finally:
            state_check(ver, src, parser(ver, **options))
    except ElementPathError as e:
        return 'ERR:' + (getattr(e, 'code', None) or 'none').split(':')[-1]
    except RecursionError:
        return 'ERR:OTHER:RecursionError'
    except Exception as e:
        return f'ERR:OTHER:{type(e).__name__}'


def expected_pass(run: Run) -> None:
    st = run.stats
    for first, src, tree in EXPECTED:
        if tree is None:
            continue
        for v in ALL_VERSIONS:
            if base_of(v) < first or (first == '10' and v != '10'):
                continue
            got = full_parse_tree(v, src)
            st.evaluations += 1
            st.count('expected-tree')
            if got != tree:
                run.disagree(Disagreement({'version': v, 'source': src}, got, None, tree, what='hand-written-tree',
                                          site='nud/led of the constructs outside the Lean model'))


# constructor options that could influence the syntactic phase; the grouping must not depend on them
OPTION_VARIANTS = [
    {'compatibility_mode': True}, {'strict': False}, {'xsd_version': '1.1'},
    {'default_namespace': 'urn:c04:default'}, {'function_namespace': 'urn:c04:functions'},
    {'namespaces': {'p': 'urn:c04:p', 'x': 'urn:c04:x'}},
]


def options_pass(run: Run, cases: list) -> None:
    """the same source parsed by parsers built with other constructor options gives the same tree"""
    tabs = tables()
    st = run.stats
    per_version = run.scale(60, 600)
    seen: dict = {}
    work = []
    for v, toks in cases:
        if v in ('20', '30', '31') and seen.get(v, 0) < per_version and len(toks) >= 3:
            seen[v] = seen.get(v, 0) + 1
            work.append((v, render(tabs[v], toks), True))
    for first, src, _ in EXPECTED:
        for v in ('20', '30', '31'):
            if v >= first and first != '10':
                work.append((v, src, False))
    for v in ('20', '30', '31'):
        for vv in VERSIONS:
            if vv <= v:
                work += [(v, s, False) for s in GENERAL_CORPUS[vv]]
    for v, src, fragment in work:
        base = full_parse_tree(v, src)
        for opt in OPTION_VARIANTS:
            if not fragment and ('function_namespace' in opt):
                continue        # unprefixed function names are resolved in the function namespace by design
            got = full_parse_tree(v, src, **opt)
            st.evaluations += 1
            st.count('option-variant:' + next(iter(opt)))
            if got != base:
                run.disagree(Disagreement({'version': v, 'source': src, 'options': opt}, got, None, base,
                                          what='constructor-option-invariance', site='parser options read by nud/led'))


# ------------------------------------------------- keyword ExprSingle layer (phase 5): if / for / let / some / every
KW_TEXT = {2: 'then', 3: 'else', 4: 'return', 5: 'in', 6: 'satisfies', 7: ':=', 8: 'if', 9: 'for', 10: 'let', 11: 'some', 12: 'every'}
KW_BINDERS = {'for': 9, 'let': 10, 'some': 11, 'every': 12}


def kw_sep(q: int) -> int:
    return 7 if q == 10 else 5


def kw_fin(q: int) -> int:
    return 6 if q in (11, 12) else 4


def dump_kw(tok) -> str:
    """`dump` extended by the keyword nodes of EPV/Model/PrattKw.lean (`(I c a b)`, `(Q<q> v r b)`) on top of `,`"""
    s, n = tok.symbol, len(tok)
    if s == ',' and n == 2:
        return f'(B, {dump_kw(tok[0])} {dump_kw(tok[1])})'
    if s == 'if' and n == 3:
        return f'(I {dump_kw(tok[0])} {dump_kw(tok[1])} {dump_kw(tok[2])})'
    if s in KW_BINDERS and n == 3:
        return f'(Q{KW_BINDERS[s]} {dump(tok[0])} {dump_kw(tok[1])} {dump_kw(tok[2])})'
    return dump(tok)


def kw_render(rows, toks) -> str:
    return ' '.join(KW_TEXT[t[1]] if t[0] == 'k' else (ty_text(t[1]) if t[0] == 't' else tok_text(rows, t)) for t in toks)


def kw_leaf(rng, V: VInfo, size: int) -> list:
    """tokens of an operator-fragment expression with operands name/integer/variable(ids 1..7)/string"""
    def simple(t):
        if t is None:
            return None
        if t[0] == 'a':
            return t if t[1] <= 3 or t[1] == 6 else ('a', 0, 1 + t[2] % 7)
        return tuple(simple(x) if isinstance(x, tuple) else x for x in t)
    for _ in range(5):
        toks = unparse(rng, V, simple(gen_tree(rng, V, size)), rng.choice([0, 0, 0.2]))
        if out_of_fragment(V, toks) is None:
            return toks
    return [('a', 0, 1)]


def kw_gen(rng, V: VInfo, depth: int, st, single: bool = True) -> list:
    """tokens of a random Expr / ExprSingle of the keyword layer; binder variables are `$v50…` (never in a range
    expression: the XPST0008 check of the nuds is outside the model)"""
    r = rng.random()
    lp = ('o', V.idx['('])
    if not single and r < 0.3:
        st.count('kw-node:comma')
        return kw_gen(rng, V, depth, st, False) + [('o', V.idx[','])] + kw_gen(rng, V, depth - 1, st, True)
    if depth <= 0 or r < 0.35:
        st.count('kw-node:leaf')
        return kw_leaf(rng, V, rng.choice([0, 0, 1, 1, 2, 3, 4]))
    if r < 0.65:
        st.count('kw-node:if')
        # condition: an ExprSingle, or an Expr with a top-level comma (F04p)
        cond = kw_gen(rng, V, depth - 1, st, rng.random() < 0.85)
        return [('k', 8), lp] + cond + [('c', 0), ('k', 2)] + kw_gen(rng, V, depth - 1, st) + [('k', 3)] + kw_gen(rng, V, depth - 1, st)
    q = rng.choice([9, 9, 11, 12] + ([10, 10] if base_of(V.ver) >= '30' else []))
    st.count('kw-node:' + KW_TEXT[q])
    var = [('a', 2, rng.randrange(50, 60))]
    if rng.random() < 0.06:       # F04q: the "variable" continues with an operator
        var += [('o', V.idx['+']), ('a', 1, 1)] if rng.random() < 0.5 else [('o', V.idx['[']), ('a', 1, 1), ('c', 1)]
    return [('k', q)] + var + [('k', kw_sep(q))] + kw_gen(rng, V, depth - 1, st) + [('k', kw_fin(q))] + kw_gen(rng, V, depth - 1, st)


def kw_mutate(rng, V: VInfo, toks: list):
    toks = list(toks)
    i = rng.randrange(len(toks))
    r = rng.random()
    if r < 0.4 and len(toks) > 1:
        del toks[i]
    elif r < 0.7:
        toks[i] = ('k', rng.choice([2, 3, 4, 5, 6, 7])) if toks[i][0] == 'k' else rng.choice([('c', 0), ('o', V.idx[',']), ('a', 0, 2)])
    else:
        j = rng.randrange(len(toks))
        toks[i], toks[j] = toks[j], toks[i]
    # a type token stays behind its typed operator
    for k, t in enumerate(toks):
        typed_before = k > 0 and toks[k - 1][0] == 'o' and toks[k - 1][1] in V.typed
        if (t[0] == 't') != typed_before:
            return None
    return toks


KW_CORPUS = [
    'if ( n1 ) then n2 else n3', 'if ( n1 ) then n2 else n3 , n4', 'n1 , if ( n1 ) then n2 else n3',
    'if ( n1 , n2 ) then n3 else n4', 'if ( n1 ) then n2 else n3 or n4', 'if ( n1 ) then n2', 'if ( ) then n1 else n2',
    'if ( n1 ) then n2 , n3 else n4', 'if ( if ( n1 ) then n2 else n3 ) then n2 else if ( n4 ) then n5 else n6',
    'for $v50 in n1 return n2', 'for $v50 in n1 return n2 , n3', 'for $v50 + 1 in n1 return n2', 'for $v50 in n1 satisfies n2',
    'some $v50 in n1 satisfies n2 = n3', 'every $v50 in n1 satisfies n2', 'some $v50 in n1 return n2',
    'for $v50 in if ( n1 ) then n2 else n3 return for $v51 in n1 return n2', 'for $v50 in n1 , $v51 in n2 return n3',
    'n1 + if ( n1 ) then n2 else n3', '( if ( n1 ) then n2 else n3 )', 'for $v50 in n1 return', 'if ( n1 ) else n2 then n3',
]
KW_CORPUS30 = ['let $v50 := n1 return n2', 'let $v50 := n1 return $v50 + 1 , n3', 'let $v50 in n1 return n2',
               'let $v50 := if ( n1 ) then n2 else n3 return some $v51 in n1 satisfies n2']


# F04r (bare `?` after `(` / `,` read as an argument placeholder outside argument lists); the first is the thorough seed-0 replay
KW_CORPUS31 = ['if ( ? - n6 != $v4 - n5 ) then n5 // $v3 and n1 else n3 ge n1 - n6 is $v7',
               'if ( ? - n6 ) then n1 else n2', 'n1 , ? - n6', 'if ( n1 , ? - n2 ) then n1 else n2',
               'if ( ? n1 ) then n1 else n2', 'if ( n1 ) then ? - n6 else n2']


def kw_lex(V: VInfo, src: str) -> list:
    out = []
    inv = {v: k for k, v in KW_TEXT.items()}
    for w in src.split(' '):
        if w in inv:
            out.append(('k', inv[w]))
        elif w in (')', ']'):
            out.append(('c', 0 if w == ')' else 1))
        elif w in V.idx:
            out.append(('o', V.idx[w]))
        elif w[0] == '$':
            out.append(('a', 2, int(w[2:])))
        elif w[0] == 'n':
            out.append(('a', 0, int(w[1:])))
        else:
            out.append(('a', 1, int(w)))
    return out


def kw_cases(run: Run, st) -> list:
    tabs = tables()
    rng = run.rng
    vers = ['20', '30', '31', '20c'] if run.quick else ['20', '30', '31', '20c', '30c', '31c']
    cases = []
    for v in vers:
        V = VInfo(v, tabs[v])
        for s in KW_CORPUS + (KW_CORPUS30 if base_of(v) >= '30' else []) + (KW_CORPUS31 if base_of(v) == '31' else []):
            cases.append((v, kw_lex(V, s), 'kw-corpus'))
    n = run.scale(1500, 15000)
    while len(cases) < n:
        v = rng.choice(vers)
        V = VInfo(v, tabs[v])
        toks = kw_gen(rng, V, rng.choice([1, 1, 2, 2, 3]), st, single=False)
        origin = 'kw-gen'
        if rng.random() < 0.2:
            toks = kw_mutate(rng, V, toks)
            origin = 'kw-mutated'
            if toks is None or out_of_fragment(V, toks) is not None:
                st.count('kw-skip:mutant-outside-the-operator-fragment')
                continue
        if not any(t[0] == 'k' for t in toks) and rng.random() < 0.8:
            continue
        cases.append((v, toks, origin))
    return cases


def kw_pass(run: Run) -> None:
    """keyword ExprSingle layer: real parser vs `EPV.Kw.xparse` (generated table) vs `EPV.Kw.xebnfParse` (W3C levels)"""
    import re
    tabs = tables()
    st = run.stats
    cases = kw_cases(run, st)
    lines = [f'V={VNUM[v]} KW=1 T=' + ','.join(f'k{t[1]}' if t[0] == 'k' else tok_str(t) for t in toks) for v, toks, _ in cases]
    answers = run.driver('C04', lines)
    for (ver, toks, origin), line, ans in zip(cases, lines, answers):
        rows = tabs[ver]
        src = kw_render(rows, toks)
        case = {'version': ver, 'source': src, 'line': line, 'layer': 'keyword'}
        m = re.match(r'model=(.*) spec=(.*) trig=(\S+) kwop=(\d) rel=(\d)$', ans)
        if not m:
            run.disagree(Disagreement(case, 'driver:' + ans, what='protocol'))
            continue
        model, spec = lean_tree(m.group(1)), lean_tree(m.group(2))
        trig = [] if m.group(3) == '-' else m.group(3).split(',')
        impl, tok = impl_parse(ver, src)
        if tok is not None:
            try:
                impl = dump_kw(tok)
            except Exception as e:
                impl = f'ERR:OTHER:dump:{type(e).__name__}'
        st.case(line, nontrivial=sum(1 for t in toks if t[0] == 'k') >= 3)
        st.count(f'{origin}:v{ver}')
        ci, cm, cs = canon(impl), canon(model), canon(spec)
        if 'F04r' in trig and not (ci != 'ERR' and cm == 'ERR' and cs == 'ERR'):
            trig.remove('F04r')       # the finding is: the real parser ACCEPTS what model and reference reject
        if model == 'ERR:unmodelled':
            st.count('kw-skip:unmodelled(keyword-as-name / second binding clause)')
            continue
        if m.group(4) == '1' and cm == 'ERR' and ci != 'ERR':
            st.count('kw-skip:keyword-form-under-an-operator-or-bracket')
            continue
        st.count('kw-impl:' + ('error' if ci == 'ERR' else ('other:' + ci if is_err(ci) else 'tree')))
        st.count('kw-spec:' + ('error' if cs == 'ERR' else 'tree'))
        for f in trig:
            st.count('kw-trigger:' + f)
        if m.group(5) != '1':
            run.disagree(Disagreement(case, ci, cm, cs, what='kw-model-or-reference-inconsistent-with-theorems'))
        if ci != cs:
            run.disagree(Disagreement(case, ci, cm, cs, what='kw-tree-vs-ebnf', site='nud__if_expression / nud__for_expression / '
                                      'nud__quantified_expressions / nud__let_expression', tags=trig))
        elif ci != cm:
            run.disagree(Disagreement(case, ci, cm, cs, what='kw-model', site='keyword nuds'))
        if tok is not None and ci == cm:
            roundtrip(run, ver, src, tok, dump(tok))


def body(run: Run) -> int:
    info = translate(run)
    run.stats.extra['tables'] = info
    for v, i in info.items():
        if i['guard_mismatch']:
            run.broken.append(f'translator:{v}: guard read from source differs from probed guard: {i["guard_mismatch"]}')
    run.trusted_base += ['translator harness/c04.py::translate (live symbol_table -> Lean rows; lbp/rbp/kinds read from '
                         'attributes, closures and ast; guards and next-token checks probed on the live parser)',
                         'W3C level tables transcribed by hand in EPV/Spec/EBNF.lean',
                         're (CPython regex engine) executing the tokenizer pattern']
    run.assumptions += ['operands are abstract: which primary expressions may occur as path steps or call targets is outside the level table',
                        'types are opaque tokens base x occurrence indicator; xgc:occurrence-indicators is the Lean normalisation absorbOcc',
                        'observation is the syntactic phase tdop.Parser.parse; static evaluation in XPath1Parser.parse is not part of C04']
    run.prove(['EPV.Props.C04', 'EPV.Props.C04Tables', 'EPV.Props.C04Kw'], ['EPV.Spec.EBNFKw', 'EPV.Lemmas.PrattTables', 'EPV.Lemmas.PrattComplete', 'EPV.Model.PrattLexer', 'EPV.Lemmas.PrattSource', 'EPV.Lemmas.PrattSourceAll', 'EPV.Lemmas.PrattEbnfComplete'])
    try:
        correspond(run)
    except DriverError as e:
        run.broken.append('driver:C04 ' + str(e)[:300])
    if os.environ.get('C04_DEBUG'):
        from collections import Counter
        c = Counter((d.what, d.kind, ','.join(d.tags)) for d in run.disagreements)
        for k, n in c.most_common():
            print('DEBUG', k, n, file=sys.stderr)
        seen = set()
        for d in run.disagreements:
            key = (d.what, ','.join(d.tags))
            if key in seen and not os.environ.get('C04_DEBUG_ALL'):
                continue
            seen.add(key)
            print('DEBUG', d.what, d.tags, json.dumps(d.case), '\n   impl=', d.impl, '\n   model=', d.model, '\n   spec=', d.spec, file=sys.stderr)
    return run.finish('proof', shrink=shrink, search=search)


if __name__ == '__main__':
    if '--hashseed-worker' in sys.argv:
        from harness.common import use_repo
        use_repo()
        hashseed_worker()
        sys.exit(0)
    cli(PROP, body, translate=translate)

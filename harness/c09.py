"""
C09 — string functions agree with their F&O definitions on all Unicode strings.

 prove     : EPV.Props.C09 (substring_eq_spec, translate_eq_spec, before_after_concat, ...)
 correspond: every generated call is evaluated by (a) the real elementpath through
             elementpath.select(root, expr, parser=P, variables=...) for every parser that has the
             function (XPath1Parser, XPath2Parser, XPath30Parser, XPath31Parser), (b) the Lean model
             and (c) the Lean spec (driver Drivers/C09.lean, strings travel as code-point lists),
             and for the XPath 1.0 functions (d) libxml2 through lxml.etree.XPath, the second oracle
             that validates the *spec* (and is itself part of the property for the 1.0 parser).
 search    : exhaustive small-scope enumeration (strings over {a, b, space} up to length 4, the
             whole .5 grid around them, +-INF, NaN) of every modelled function against the spec.
 shrink    : greedy deletion of characters / simplification of numbers, batched through the driver.
"""
from __future__ import annotations

import json
import math
import sys
from decimal import Decimal
from fractions import Fraction
from itertools import product
from pathlib import Path

sys.path.insert(0, str(Path(__file__).resolve().parent.parent))
from harness.common import (Run, Disagreement, cli, DriverError, LEAN)  # noqa: E402

PROP = 'C09'
SITE1 = 'elementpath/xpath1/_xpath1_functions.py'
SITE2 = 'elementpath/xpath2/_xpath2_functions.py'

# op -> (expression builder, argument kinds, first parser index having it, lxml oracle?, site)
#   kinds: S string, N number, L integer sequence, T string sequence (variadic tail)
V1, V2 = 0, 1
OPS = {
    'substring2': ('substring($a0,$a1)', 'SN', V1, True, SITE1 + ' evaluate__substring'),
    'substring3': ('substring($a0,$a1,$a2)', 'SNN', V1, True, SITE1 + ' evaluate__substring'),
    'before': ('substring-before($a0,$a1)', 'SS', V1, True, SITE1 + ' substring-before'),
    'after': ('substring-after($a0,$a1)', 'SS', V1, True, SITE1 + ' substring-after'),
    'contains': ('contains($a0,$a1)', 'SS', V1, True, SITE1 + ' evaluate__contains'),
    'starts': ('starts-with($a0,$a1)', 'SS', V1, True, SITE1 + ' evaluate__starts_with'),
    'ends': ('ends-with($a0,$a1)', 'SS', V2, False, SITE2 + ' evaluate__ends_with'),
    'translate': ('translate($a0,$a1,$a2)', 'SSS', V1, True, SITE1 + ' evaluate__translate'),
    'normalize': ('normalize-space($a0)', 'S', V1, True, SITE1 + ' evaluate__normalize_space'),
    'length': ('string-length($a0)', 'S', V1, True, SITE1 + ' evaluate__string_length'),
    'concat': (None, 'T', V1, True, SITE1 + ' evaluate__concat'),
    'join': ('string-join($a1,$a0)', 'ST', V2, False, SITE2 + ' evaluate__string_join'),
    'compare': ('compare($a0,$a1)', 'SS', V2, False, SITE2 + ' evaluate__compare'),
    'cpequal': ('codepoint-equal($a0,$a1)', 'SS', V2, False, SITE2 + ' evaluate__codepoint_equal'),
    's2cp': ('string-to-codepoints($a0)', 'S', V2, False, SITE2 + ' evaluate__string_to_codepoints'),
    'cp2s': ('codepoints-to-string($a0)', 'L', V2, False, SITE2 + ' evaluate__codepoints_to_string'),
    'upper': ('upper-case($a0)', 'S', V2, False, SITE2 + ' evaluate__upper_case'),
    'lower': ('lower-case($a0)', 'S', V2, False, SITE2 + ' evaluate__lower_case'),
    'hbefore': ("substring-before($a0,$a1,'%s')" % 'HTML', 'SS', V2, False, 'elementpath/collations.py CollationManager.find'),
    'hafter': ("substring-after($a0,$a1,'%s')" % 'HTML', 'SS', V2, False, 'elementpath/collations.py CollationManager.find'),
    'hcontains': ("contains($a0,$a1,'%s')" % 'HTML', 'SS', V2, False, 'elementpath/collations.py CollationManager.contains'),
    'hstarts': ("starts-with($a0,$a1,'%s')" % 'HTML', 'SS', V2, False, 'elementpath/collations.py CollationManager.startswith'),
    'hends': ("ends-with($a0,$a1,'%s')" % 'HTML', 'SS', V2, False, 'elementpath/collations.py CollationManager.endswith'),
    'hcompare': ("compare($a0,$a1,'%s')" % 'HTML', 'SS', V2, False, 'elementpath/collations.py html_ascii_strcoll'),
    'cp2sx': ('codepoints-to-string($a0)', 'X', V2, False, SITE2 + ' evaluate__codepoints_to_string'),
    'ctoken': ('contains-token($a1,$a0)', 'ST', 3, False, 'elementpath/xpath31/_xpath31_functions.py evaluate__contains_token'),
    'hctoken': ("contains-token($a1,$a0,'HTML')", 'ST', 3, False, 'elementpath/xpath31/_xpath31_functions.py evaluate__contains_token'),
    'encode': ('encode-for-uri($a0)', 'S', V2, False, SITE2 + ' evaluate__encode_for_uri'),
    'iri': ('iri-to-uri($a0)', 'S', V2, False, SITE2 + ' evaluate__iri_to_uri'),
    'html': ('escape-html-uri($a0)', 'S', V2, False, SITE2 + ' evaluate__escape_html_uri'),
}

HTML_URI = 'http://www.w3.org/2005/xpath-functions/collation/html-ascii-case-insensitive'
CP_URI = 'http://www.w3.org/2005/xpath-functions/collation/codepoint'
for _k, _v in list(OPS.items()):
    if _v[0] and "'HTML'" in _v[0]:
        OPS[_k] = (_v[0].replace('HTML', HTML_URI),) + _v[1:]

_env = {}


def env():
    """parsers, roots (lazy: elementpath must be imported after use_repo())"""
    if not _env:
        import xml.etree.ElementTree as ET
        import elementpath
        from elementpath import XPath1Parser, XPath2Parser
        from elementpath.xpath30 import XPath30Parser
        from elementpath.xpath31 import XPath31Parser
        try:
            import lxml.etree as le
            lroot = le.XML('<a/>')
        except Exception:  # lxml missing: the second oracle is simply not consulted
            le, lroot = None, None
        _env.update(ep=elementpath, parsers=[XPath1Parser, XPath2Parser, XPath30Parser, XPath31Parser],
                    root=ET.XML('<a/>'), le=le, lroot=lroot, lx={})
    return _env


# ------------------------------------------------------------------------------ values
def s_of(cps):
    """Python value of a string argument; the empty sequence is passed as []"""
    if isinstance(cps, str):
        return cps
    return [] if cps is None else ''.join(chr(c) for c in cps)


def num_value(n):
    k, v = n
    if k == 'f':
        return float.fromhex(v) if v not in ('nan', 'inf', '-inf') else float(v)
    if k == 'i':
        return int(v)
    return Decimal(v)


def num_line(n) -> str:
    v = num_value(n)
    if isinstance(v, float) and math.isnan(v):
        return 'nan'
    if isinstance(v, float) and math.isinf(v):
        return 'inf' if v > 0 else '-inf'
    if isinstance(v, Decimal) and not v.is_finite():
        return 'nan' if v.is_nan() else ('inf' if v > 0 else '-inf')
    fr = Fraction(v)
    return f'{fr.numerator}/{fr.denominator}'


def fnum(x: float):
    return ('f', x.hex() if math.isfinite(x) else ('nan' if math.isnan(x) else ('inf' if x > 0 else '-inf')))


def numarg_value(n):
    """Python value of a conv number: ('F', hex) float, ('I', str) int, ('D', str) Decimal, ('B', 0/1) bool"""
    k, v = n
    if k == 'F':
        return float.fromhex(v) if v not in ('nan', 'inf', '-inf') else float(v)
    if k == 'I':
        return int(v)
    if k == 'D':
        return Decimal(v)
    return bool(v)


def numarg_line(n) -> str:
    """what the Lean side gets: for a float the sign, the shortest round-trip digits and the position of the
    decimal point, all read off repr(x) (CPython's dtoa is the trusted source of the digits)"""
    k, _ = n
    x = numarg_value(n)
    if k == 'B':
        return f'B;{int(x)}'
    if k == 'I':
        return f'I;{x}'
    if k == 'D':
        sign, digits, exp = x.as_tuple()
        return f'D;{sign};{" ".join(map(str, digits))};{exp}'
    if math.isnan(x):
        return 'F;nan'
    if math.isinf(x):
        return 'F;inf' if x > 0 else 'F;-inf'
    sign, digits, exp = Decimal(repr(x)).as_tuple()
    digits = list(digits)
    while len(digits) > 1 and digits[-1] == 0:
        digits.pop()
        exp += 1
    if digits == [0]:
        return f'F;{sign};0;1'
    return f'F;{sign};{" ".join(map(str, digits))};{len(digits) + exp}'


def cps_line(cps) -> str:
    """a string as code points; None = the empty sequence"""
    if isinstance(cps, str):
        return cps           # '@': the position of the converted number in a conv case
    return '-' if cps is None else ' '.join(str(c) for c in cps)


def case_line(case, compat: bool = False) -> str:
    """driver request; compat = the XPath 1.0 reading (XPath1Parser: compatibility_mode is True)"""
    op, args = case['op'], case['args']
    if op == 'conv':
        # XPath1Parser callers convert through compat_string_value (driver op conv1), the others through string_value
        head = ('conv1|' if compat else 'conv|') + numarg_line(case['num'])
        if case['inner'] is None:
            return head
        return head + '|' + case_line({'op': case['inner'], 'args': args}, compat)
    if op == 'cp2sx':
        def tok(it):
            k = it[0]
            if k == 'i':
                return f'i:{it[1]}'
            if k == 'u':
                import re as _re
                return 'u:' + (str(int(it[1])) if _re.fullmatch(r'\s*[+-]?[0-9]+\s*', it[1]) else '-')
            return k
        return 'cp2sx|' + ' '.join(tok(it) for it in args[0])
    if op in ('ctoken', 'hctoken'):
        return '|'.join(['ctoken', 'h' if op == 'hctoken' else 'c', cps_line(args[0])] + [cps_line(x) for x in args[1]])
    kinds = OPS[op][1]
    out = [op + '1' if (compat and op == 'translate') else op]
    for k, a in zip(kinds, args):
        if k == 'S':
            out.append(cps_line(a))
        elif k == 'N':
            out.append(num_line(a))
        elif k == 'L':
            out.append(cps_line(a))
            out.append('')
        elif k == 'T':
            out.extend(cps_line(x) for x in a)
    if op in ('upper', 'lower'):
        out[0] = op + 'G'       # the driver uses the generated whole-range tables
    return '|'.join(out)


_caseprops: dict = {}


def case_props(chars):
    """CPython's Cased / Case_Ignorable properties of the given code points, observed through
    str.lower() on U+03A3 (the only place CPython consults them): X is case-ignorable iff
    'a'+X+'Σ' ends in final sigma but '1'+X+'Σ' does not; a non-ignorable X is cased iff X+'Σ' does."""
    cased, ign = [], []
    for c in chars:
        if c not in _caseprops:
            x = chr(c)
            fin = lambda s: s.lower().endswith('ς')  # noqa: E731
            i = fin('a' + x + 'Σ') and not fin('1' + x + 'Σ')
            cs = fin(x + 'Σ') if not i else fin(x + 'Σ')
            _caseprops[c] = (cs, i)
        cs, i = _caseprops[c]
        if cs:
            cased.append(c)
        if i:
            ign.append(c)
    return cased, ign


def canon(v) -> str:
    if isinstance(v, bool):
        return 'B:1' if v else 'B:0'
    if isinstance(v, int):
        return f'I:{v}'
    if isinstance(v, str):
        return 'S:' + cps_line([ord(c) for c in v])
    if isinstance(v, float):
        return 'F:' + v.hex()
    if isinstance(v, (list, tuple)):
        if all(isinstance(x, int) and not isinstance(x, bool) for x in v):
            return 'L:' + cps_line(v)
        return 'Q:' + ';'.join(canon(x) for x in v)
    return f'?:{type(v).__name__}'


def expr_of(case) -> tuple[str, dict]:
    op, args = case['op'], case['args']
    if op == 'conv':
        if case['inner'] is None:
            return 'string($a0)', {'a0': numarg_value(case['num'])}
        ie, ivar = expr_of({'op': case['inner'], 'args': args})
        for k_, v_ in list(ivar.items()):
            if isinstance(v_, str) and v_ == '@':
                ivar[k_] = numarg_value(case['num'])
            elif isinstance(v_, list) and '@' in v_:
                ivar[k_] = [numarg_value(case['num']) if x == '@' else x for x in v_]
        return ie, ivar
    e, kinds = OPS[op][0], OPS[op][1]
    if op == 'cp2sx':
        from elementpath.datatypes import UntypedAtomic
        conv = {'i': lambda it: int(it[1]), 'u': lambda it: UntypedAtomic(it[1]), 'b': lambda it: bool(it[1]),
                's': lambda it: it[1], 'o': lambda it: (float(it[1]) if it[2] == 'f' else Decimal(it[1]))}
        return e, {'a0': [conv[it[0]](it) for it in args[0]]}
    if op == 'concat':
        items = args[0]
        return 'concat(' + ','.join(f'$a{i}' for i in range(len(items))) + ')', \
            {f'a{i}': s_of(x) for i, x in enumerate(items)}
    var = {}
    for i, (k, a) in enumerate(zip(kinds, args)):
        if k == 'S':
            var[f'a{i}'] = s_of(a)
        elif k == 'N':
            var[f'a{i}'] = num_value(a)
        elif k == 'L':
            var[f'a{i}'] = list(a)
        elif k == 'T':
            var[f'a{i}'] = [s_of(x) for x in a]
    return e, var


def node_roots(cps):
    """two element trees whose string value / attribute value is the given string (built in memory, no parser:
    no line-end normalisation, any code point): <a>S1<b>S2</b>S3</a> and <a x="S"/>"""
    import xml.etree.ElementTree as ET
    t = ''.join(chr(c) for c in cps)
    i, j = len(t) // 3, 2 * len(t) // 3
    a = ET.Element('a')
    a.text = t[:i]
    b = ET.SubElement(a, 'b')
    b.text = t[i:j]
    b.tail = t[j:]
    a2 = ET.Element('a')
    a2.set('x', t)
    return a, a2


def lxml_copy(elem):
    """the same tree as an lxml element, when lxml accepts its text (XML-compatible characters only)"""
    E = env()
    if E['le'] is None:
        return None
    try:
        def cp(e):
            n = E['le'].Element(e.tag)
            n.text, n.tail = e.text, e.tail
            for k, v in e.attrib.items():
                n.set(k, v)
            for c in e:
                n.append(cp(c))
            return n
        return cp(elem)
    except Exception:
        return None


NODE_OPS = ('substring2', 'substring3', 'before', 'after', 'contains', 'starts', 'ends', 'translate', 'normalize',
            'length', 'compare', 'cpequal', 's2cp', 'upper', 'lower', 'encode', 'iri', 'html',
            'hbefore', 'hafter', 'hcontains', 'hstarts', 'hends', 'hcompare')


# forms evaluated by a parser constructed with options
FORM_KW = {
    'default-collation=html': lambda: {'default_collation': HTML_URI},
    'default-collation=html,arg=codepoint': lambda: {'default_collation': HTML_URI},
    'default-collation=codepoint': lambda: {'default_collation': CP_URI},
}
H_TO_PLAIN = {'hbefore': 'substring-before($a0,$a1)', 'hafter': 'substring-after($a0,$a1)',
              'hcontains': 'contains($a0,$a1)', 'hstarts': 'starts-with($a0,$a1)', 'hends': 'ends-with($a0,$a1)',
              'hcompare': 'compare($a0,$a1)', 'hctoken': 'contains-token($a1,$a0)'}


def variants(case, pidx: int):
    """the expressions through which the case is evaluated by parser `pidx`: the function call with
    all arguments as variables, plus (where they exist) the operator / short forms / literal forms /
    node-argument and context-item forms.  Items: (expression, variables, form name, root or None)"""
    e, var = expr_of(case)
    out = [(e, var, 'call', None)]
    op, args = case['op'], case['args']
    if op == 'conv':
        return out
    if op == 'concat' and pidx >= 2:
        out.append((' || '.join(f'$a{i}' for i in range(len(args[0]))), var, 'operator-||', None))
    if op == 'join' and pidx >= 2 and args[0] == []:
        out.append(('string-join($a1)', var, 'string-join/1', None))
    if op in ('before', 'after', 'contains', 'starts', 'ends', 'compare') and pidx >= 1:
        out.append((e[:-1] + f",'{CP_URI}')", var, 'collation-argument', None))
        # parser option default_collation: explicit argument wins over an HTML default; a code-point default
        out.append((e[:-1] + f",'{CP_URI}')", var, 'default-collation=html,arg=codepoint', None))
        out.append((e, var, 'default-collation=codepoint', None))
    if op in H_TO_PLAIN and pidx >= OPS[op][2]:
        # the 2-argument form under a parser whose default collation is the HTML ASCII case-insensitive one
        out.append((H_TO_PLAIN[op], var, 'default-collation=html', None))
    if op in ('substring2', 'substring3'):
        lits = []
        for n in args[1:]:
            if n[0] == 'f' and n[1] not in ('nan', 'inf', '-inf'):
                x = float.fromhex(n[1])
                if abs(x) < 1e6 and x * 4 == int(x * 4) and str(x) != '-0.0':
                    lits.append(repr(x))        # exact both as xs:decimal (2.0+) and as a 1.0 number
        if len(lits) == len(args) - 1:
            out.append(('substring($a0,' + ','.join(lits) + ')', {'a0': var['a0']}, 'literal-numbers', None))
            # the same numbers arriving as attribute nodes (number() / cast of xs:untypedAtomic) ...
            import xml.etree.ElementTree as ET
            a = ET.Element('a')
            for name, lit in zip('pq', lits):
                a.set(name, lit)
            out.append(('substring($a0,' + ','.join('@' + n for n, _ in zip('pq', lits)) + ')', {'a0': var['a0']},
                        'attribute-position', a, 'u'))
            # ... and, for XPath 1.0, as strings (number() conversion; known finding F09j)
            if pidx == 0:
                sv = dict({'a0': var['a0']}, **{n: lit for n, lit in zip('pq', lits)})
                out.append(('substring($a0,' + ','.join('$' + n for n, _ in zip('pq', lits)) + ')', sv,
                            'string-position', None, 's'))
    if pidx >= 2 and case.get('fnitem') and '(' in e and op != 's2cp':   # (s2cp: a one-item result is ambiguous)
        # the same call through a named function reference: the function token then carries its own context
        # (`if self.context is not None: context = self.context` in every evaluate method)
        i = e.index('(')
        out.append((f'{e[:i]}#{e[i:].count(",") + 1}{e[i:]}', var, 'function-item', None))
    if case.get('evalpaths') and op not in ('s2cp',):
        for path in ('token.evaluate', 'token.select', 'iter_select'):
            out.append((e, var, path, None))
    if op in NODE_OPS and isinstance(args[0], list) and case.get('nodeforms'):
        elem, attr = node_roots(args[0])
        rest = {k: v for k, v in var.items() if k != 'a0'}
        out.append((e.replace('$a0', '.'), rest, 'node-argument', elem))
        out.append((e.replace('$a0', '@x'), rest, 'attribute-argument', attr))
        import xml.etree.ElementTree as ET
        out.append((e.replace('$a0', '.'), rest, 'document-node-argument', ET.ElementTree(elem)))
        out.append((e.replace('$a0', 'a'), rest, 'child-of-document-argument', ET.ElementTree(elem)))
        lroot = lxml_copy(elem)
        if lroot is not None:
            out.append((e.replace('$a0', '.'), rest, 'lxml-node-argument', lroot))
            out.append((e.replace('$a0', '/a'), rest, 'lxml-node-argument', lroot.getroottree()))
        if op == 'length':
            out.append(('string-length()', {}, 'context-item', elem))
            out.append(('string-length(string())', {}, 'context-item', elem))
        if op == 'normalize':
            out.append(('normalize-space()', {}, 'context-item', elem))
    return out


def extra_lines(case) -> dict:
    """driver lines of the forms that have their own model entry (position arguments by kind)"""
    if case['op'] in ('substring2', 'substring3'):
        base = [case['op'] + 'x', cps_line(case['args'][0])]
        return {k: '|'.join(base + [k + ':' + num_line(n) for n in case['args'][1:]]) for k in ('u', 's')}
    return {}


def err_canon(ex) -> str:
    code = getattr(ex, 'code', None)
    from elementpath.exceptions import ElementPathError
    if isinstance(ex, ElementPathError) and code:
        return 'ERR:' + str(code).split(':')[-1]
    return f'ERR:OTHER:{type(ex).__name__}'


def run_impl(case, pidx: int, e=None, var=None, root=None, unwrap=False, kw=None, path=None) -> str:
    E = env()
    if e is None:
        e, var = expr_of(case)
    try:
        if path in ('token.evaluate', 'token.select'):
            tok = E['parsers'][pidx]().parse(e)
            ctx = E['ep'].XPathContext(E['root'] if root is None else root, variables=var)
            if path == 'token.evaluate':
                r = tok.evaluate(ctx)
            else:
                r = list(tok.select(ctx))
                r = r[0] if len(r) == 1 else r
        elif path == 'iter_select':
            r = list(E['ep'].iter_select(E['root'] if root is None else root, e, parser=E['parsers'][pidx],
                                         variables=var))
            r = r[0] if len(r) == 1 else r
        else:
            r = E['ep'].select(E['root'] if root is None else root, e, parser=E['parsers'][pidx], variables=var,
                               **(kw or {}))
        if unwrap and isinstance(r, list) and len(r) == 1:
            r = r[0]       # a dynamic function call yields its result as a sequence
        return canon(r)
    except Exception as ex:  # every exception is part of the observed behaviour
        code = getattr(ex, 'code', None)
        from elementpath.exceptions import ElementPathError
        if isinstance(ex, ElementPathError) and code:
            return 'ERR:' + str(code).split(':')[-1]
        return f'ERR:OTHER:{type(ex).__name__}'


LXML_SHAPES: dict = {}


def lxml_number_ok(n) -> bool:
    """libxml2 prints numbers with at most 15 significant digits and switches to exponent notation outside
    [1e-5, 1e9) (xmlXPathFormatNumber), which XPath 1.0 does not allow: it is an oracle for the conversion
    only inside that window (and for integers that fit 32 bits, booleans, zero)."""
    k, _ = n
    x = numarg_value(n)
    if k == 'B':
        return True
    if k == 'I':
        return abs(x) < 2 ** 31
    if k == 'D':
        if not x.is_finite() or len(x.as_tuple().digits) > 15:
            return False
        x = float(x)
        if Fraction(x) != Fraction(numarg_value(n)):
            return False
    if math.isnan(x) or math.isinf(x):
        return True       # libxml2: NaN, Infinity, -Infinity as in XPath 1.0
    if x == 0:
        return True
    fr = Fraction(x)
    # libxml2 prints a fixed number of fraction digits (not the shortest distinguishing digits): only values
    # with a short exact decimal expansion (dyadic, denominator <= 1024) are printed as XPath 1.0 prescribes
    return 1e-5 <= abs(x) < 1e9 and fr.denominator <= 1024 and len(str(abs(fr.numerator))) <= 9


def run_lxml(case):
    """libxml2's answer in canonical text, or None when lxml cannot take the input"""
    E = env()
    if E['le'] is None:
        return None
    if case['op'] == 'conv':
        if not lxml_number_ok(case['num']) or (case['inner'] is not None and not OPS[case['inner']][3]):
            return None
    elif not OPS[case['op']][3]:
        return None
    e, var = expr_of(case)
    lv = {}
    for k, v in var.items():
        if isinstance(v, str):
            lv[k] = v
        elif isinstance(v, list) and not v:
            lv[k] = []           # empty node-set: its string value is ''
        elif isinstance(v, (float, bool)):
            lv[k] = v
        elif isinstance(v, (int, Decimal)) and not isinstance(v, bool):
            try:
                f = float(v)
            except (OverflowError, ValueError):
                return None
            if not math.isfinite(f) or Fraction(f) != Fraction(v):
                return None      # libxml2 numbers are doubles: only exactly representable values are sent
            lv[k] = f
        else:
            return None
    try:
        x = E['lx'].get(e)
        if x is None:
            x = E['lx'][e] = E['le'].XPath(e)
        r = x(E['lroot'], **lv)
    except Exception:
        return None   # control characters, surrogates, NUL: not XML-compatible for lxml
    key = e + ('   [a number/boolean as argument]' if case['op'] == 'conv' else '')
    LXML_SHAPES[key] = LXML_SHAPES.get(key, 0) + 1
    if isinstance(r, bool):
        return canon(r)
    if isinstance(r, float):
        return canon(int(r)) if r == int(r) else canon(r)
    if isinstance(r, str):
        return canon(str(r))
    return None


# --------------------------------------------------------------------------- generator
ASCII = [97, 98, 99, 120, 121, 65, 66, 49, 50, 51]
WS = [32, 32, 32, 9, 10, 13]
WS_OTHER = [0xA0, 0x2003, 0x3000, 0x85, 0x2028, 0x0B, 0x0C, 0x1C, 0x1F, 0x200B, 0x1680]
ASTRAL = [0x1F600, 0x10000, 0x10FFFF, 0x1D11E]
COMBINING = [0x301, 0x308, 0x20D7]
EDGES = [0xD7FF, 0xE000, 0xFFFD, 0xFFFE, 0xFFFF, 0x7F, 0x80, 0x7FF, 0x800, 1, 8]
NONXML = [0, 0xD800, 0xDFFF, 0xDBFF]
CASEY = [0xDF, 0x3A3, 0x3C3, 0x3C2, 0x130, 0x1C5, 0x149, 0xE9, 0xC9, 0x1E9E, 0xFB01, 0x345, 0x2B0, 0x27, 0xAD,
         0x10400, 0x3B1, 0x391]
HTMLY = [65, 97, 66, 98, 90, 122, 64, 91, 96, 123, 0xDF, 115, 83, 0xE9, 0xC9, 0x17F, 0x212A, 75, 107, 0x130, 0x131, 105, 73]
URIish = [0x25, 0x7E, 0x2F, 0x3C, 0x3E, 0x22, 0x7B, 0x7D, 0x7C, 0x5C, 0x5E, 0x60, 0x23, 0x5B, 0x5D, 0x2D, 0x5F, 0x2E,
          0x21, 0x2A, 0x28, 0x3F, 0x40, 0x26, 0x3D, 0x2B, 0x24, 0x2C, 0x3B, 0x3A]


def gen_alpha(rng, op):
    pools = [ASCII, ASCII, WS, ASTRAL, COMBINING, EDGES, WS_OTHER]
    if op in ('upper', 'lower'):
        pools += [CASEY, CASEY, CASEY]
    if op in ('encode', 'iri', 'html'):
        pools += [URIish, URIish, URIish]
    if op == 'normalize':
        pools += [WS, WS, WS_OTHER]
    if op.startswith('h') and op != 'html':
        pools = [HTMLY, HTMLY, HTMLY, ASCII, ASTRAL]
    if op == 'ctoken':
        pools = [ASCII, ASCII, ASCII, ASTRAL, COMBINING, HTMLY]
    if rng.random() < 0.08:
        pools = pools + [NONXML]
    k = rng.choice([1, 2, 2, 3, 3, 4, 6])
    return [rng.choice(rng.choice(pools)) for _ in range(k)]


def gen_str(rng, alpha, maxlen=12):
    r = rng.random()
    n = 0 if r < 0.08 else rng.randint(1, 3) if r < 0.3 else rng.randint(1, maxlen)
    return [rng.choice(alpha) for _ in range(n)]


def gen_sub(rng, s, alpha):
    """second argument: often a factor of s"""
    r = rng.random()
    if r < 0.55 and s:
        i = rng.randrange(len(s) + 1)
        j = rng.randrange(i, min(len(s), i + 4) + 1)
        t = s[i:j]
        if rng.random() < 0.15 and t:
            t = t[:-1] + [rng.choice(alpha)]
        return t
    if r < 0.65:
        return []
    if r < 0.75:
        return list(s)
    if r < 0.8:
        return list(s) + [rng.choice(alpha)]
    return gen_str(rng, alpha, 4)


SPECIAL_F = [float('nan'), float('inf'), float('-inf'), -0.0, 0.0, 5e-324, -5e-324, 0.49999999999999994,
             -0.49999999999999994, 0.5000000000000001, 1e300, -1e300, 2.0 ** 53, 2.0 ** 53 + 2, -(2.0 ** 63),
             1.7976931348623157e308, 4503599627370495.5, 4503599627370496.5, -4503599627370495.5, 1e16, 2.5e15 + 0.5]


def gen_num(rng, n, wide=True):
    r = rng.random()
    if r < 0.5:
        return fnum(rng.randint(-6, 2 * n + 8) / 2.0)             # the .5 grid
    if r < 0.6:
        x = rng.randint(-6, 2 * n + 8) / 2.0
        return fnum(math.nextafter(x, rng.choice([-math.inf, math.inf])))   # one ulp off the grid
    if r < 0.66:
        return fnum(rng.choice(SPECIAL_F[:3]))                    # NaN, +INF, -INF
    if r < 0.74:
        return fnum(rng.choice(SPECIAL_F))
    if r < 0.8:
        return ('i', str(rng.randint(-3, n + 3)))
    if r < 0.9 and wide:
        q = rng.randint(-12, 4 * n + 12)
        return ('d', str(Decimal(q) / 4 + rng.choice([0, 0, Decimal('1e-20'), Decimal('-1e-20')])))
    if r < 0.93 and wide:
        return ('i', str(rng.choice([10 ** 30, -10 ** 30, 2 ** 64, -2 ** 64])))
    return fnum(rng.uniform(-3, n + 3))


def gen_numarg(rng):
    r = rng.random()
    if r < 0.08:
        return ('B', rng.randrange(2))
    if r < 0.22:
        return ('I', str(rng.choice([0, 1, -1, 7, -42, 100, 12345, 10 ** 15, -10 ** 20, 2 ** 63, rng.randint(-10 ** 6, 10 ** 6)])))
    if r < 0.40:
        q = rng.choice(['1.50', '-0.0', '0.000', '1E+3', '1E-10', '100', '-12.3400', '0.1', '123456789012345678901234567890.5',
                        '-0.00000000000000000001', '5E+1', '1.0', '-7', '000.5', '2.50', '1E+20', '0E+3', '-0E-5'])
        if rng.random() < 0.5:
            q = str(Decimal(rng.randint(-10 ** rng.randint(1, 12), 10 ** rng.randint(1, 12))).scaleb(rng.randint(-15, 6)))
        return ('D', q)
    # floats
    r = rng.random()
    if r < 0.12:
        x = rng.choice([float('nan'), float('inf'), float('-inf'), -0.0, 0.0])
    elif r < 0.30:
        x = rng.choice([1, -1, 1.5, 2.5, -3.75, 9.999]) * 10.0 ** rng.randint(-12, 24)
    elif r < 0.45:
        x = rng.randint(-10 ** 6, 10 ** 6) / rng.choice([1, 2, 4, 8, 10, 100, 1000, 3, 7])
    elif r < 0.55:
        x = rng.choice([1e15, 1e16, 9999999999999998.0, 1e-4, 0.0001, 9.999e-5, 1e-5, 123456789012345680.0, 2.0 ** 53,
                        5e-324, 1.7976931348623157e308, 0.1, 1 / 3, 2 / 3, 1e21, 1e22, 123456.789, 0.30000000000000004,
                        4.35, 0.5, 100.0, 1e9, 999999999.9, 1e-6])
    elif r < 0.75:
        x = round(rng.uniform(-1000, 1000), rng.randint(0, 6))
    else:
        import struct
        x = struct.unpack('<d', struct.pack('<Q', rng.getrandbits(64)))[0]
        if math.isnan(x):
            x = float('nan')
    x = float(x)
    return ('F', x.hex() if math.isfinite(x) else ('nan' if math.isnan(x) else ('inf' if x > 0 else '-inf')))


def gen_conv(rng):
    num = gen_numarg(rng)
    dot, minus, digits = [46], [45], [49, 50, 48]
    inner = rng.choice([None, None, 'join', 'concat', 'length', 'substring2', 'contains', 'starts', 'before', 'after',
                        'translate', 'normalize', 'concat'])
    if inner is None:
        args = []
    elif inner == 'concat':
        items = [rng.choice([[], [124], S('x')]), '@', rng.choice([[], [124]])]
        args = [items]
    elif inner == 'join':
        args = [rng.choice([[], [45], S(', ')]), [rng.choice([S('a'), []]), '@', S('z')][:rng.randint(2, 3)]]
    elif inner in ('length', 'normalize'):
        args = ['@']
    elif inner == 'substring2':
        args = ['@', fnum(rng.choice([1.0, 2.0, 2.5, 0.0, 3.0]))]
    elif inner == 'translate':
        args = ['@', rng.choice([dot, minus + dot, S('E-')]), rng.choice([[], S('!'), S(',~')])]
    else:
        args = ['@', rng.choice([dot, minus, digits[:1], S('E'), S('e'), S('.0'), S('Inf'), []])]
    return {'op': 'conv', 'num': num, 'inner': inner, 'args': args}


WEIGHTS = {'substring2': 10, 'substring3': 16, 'before': 6, 'after': 6, 'contains': 5, 'starts': 4, 'ends': 4,
           'translate': 10, 'normalize': 8, 'length': 2, 'concat': 3, 'join': 3, 'compare': 5, 'cpequal': 3,
           's2cp': 2, 'cp2s': 4, 'upper': 4, 'lower': 5, 'encode': 3, 'iri': 3, 'html': 3,
           'hbefore': 3, 'hafter': 3, 'hcontains': 2, 'hstarts': 2, 'hends': 2, 'hcompare': 4,
           'ctoken': 4, 'hctoken': 2, 'cp2sx': 4}


def gen_case(rng, ops=None):
    if ops is None and rng.random() < 0.09:
        return gen_conv(rng)
    ops = ops or ACTIVE_OPS
    op = rng.choices(ops, [WEIGHTS[o] for o in ops])[0]
    alpha = gen_alpha(rng, op)
    if op == 'cp2sx':
        items = []
        for _ in range(rng.randint(0, 4)):
            r = rng.random()
            if r < 0.45:
                items.append(('i', str(rng.choice([65, 66, 0x1F600, 9, 0x10FFFF, 0xE000, 0, 8, 0xD800, 0xFFFE, -1, 0x110000]
                                                 if rng.random() < 0.35 else [65, 97, 0x20AC, 0x1F600]))))
            elif r < 0.65:
                items.append(('u', rng.choice(['65', ' 66 ', '+67', '0', '-1', '55296', '128512', 'x', '', '6.5', '1e2', '0x41'])))
            elif r < 0.75:
                items.append(('b', rng.randrange(2)))
            elif r < 0.87:
                items.append(('s', rng.choice(['a', '65', ''])))
            else:
                items.append(('o', rng.choice(['2309.1', '65.0', '1.5']), rng.choice('fd')))
        return {'op': op, 'args': [items]}
    if op in ('ctoken', 'hctoken'):
        alpha = alpha + [32, 32, 9, 10, 13] + ([0xA0, 0x0C, 0x0B, 0x2003] if rng.random() < 0.3 else [])
        inputs = [gen_str(rng, alpha, 10) for _ in range(rng.randint(0, 3))]
        toks = [t for i in inputs for t in s_of(i).split()] if inputs else []
        if toks and rng.random() < 0.7:
            tok = [ord(c) for c in rng.choice(toks)]
            if op == 'hctoken' and rng.random() < 0.6:
                tok = [ord(chr(c).swapcase()) if len(chr(c).swapcase()) == 1 else c for c in tok]
            if rng.random() < 0.2:
                tok = tok[:-1]
        else:
            tok = gen_str(rng, alpha, 3)
        pad = [[], [32], [9, 32], [0xA0], [10]]
        tok = rng.choice(pad) + tok + rng.choice(pad) if rng.random() < 0.5 else tok
        return {'op': op, 'args': [tok, inputs]}
    s = gen_str(rng, alpha)
    if op == 'substring2':
        args = [s, gen_num(rng, len(s))]
    elif op == 'substring3':
        args = [s, gen_num(rng, len(s)), gen_num(rng, len(s))]
    elif op in ('before', 'after', 'contains', 'starts', 'ends'):
        args = [s, gen_sub(rng, s, alpha)]
    elif op in ('hbefore', 'hafter', 'hcontains', 'hstarts', 'hends'):
        t = gen_sub(rng, s, alpha)
        if rng.random() < 0.6:       # same factor in another case
            t = [ord(chr(c).swapcase()) if len(chr(c).swapcase()) == 1 and rng.random() < 0.7 else c for c in t]
        args = [s, t]
    elif op in ('compare', 'cpequal', 'hcompare'):
        t = gen_sub(rng, s, alpha) if rng.random() < 0.3 else list(s)
        if rng.random() < 0.6:
            t = t + gen_str(rng, alpha, 3) if rng.random() < 0.5 else t[:rng.randrange(len(t) + 1)] + gen_str(rng, alpha, 2)
        if op == 'hcompare' and rng.random() < 0.6:
            t = [ord(chr(c).swapcase()) if len(chr(c).swapcase()) == 1 and rng.random() < 0.5 else c for c in t]
        args = [s, t]
    elif op == 'translate':
        m = gen_str(rng, alpha + [rng.choice(ASCII)], 5)
        t = gen_str(rng, alpha + [rng.choice(ASCII), rng.choice(ASTRAL)], 6)
        args = [s, m, t]
    elif op == 'concat':
        args = [[gen_str(rng, alpha, 4) for _ in range(rng.randint(2, 5))]]
    elif op == 'join':
        args = [gen_str(rng, alpha, 2), [gen_str(rng, alpha, 3) for _ in range(rng.randint(0, 4))]]
    elif op == 'cp2s':
        l = []
        for _ in range(rng.randint(0, 6)):
            r = rng.random()
            l.append(rng.choice(alpha) if r < 0.6 else
                     rng.choice([0, 8, 9, 10, 13, 31, 32, 0xD7FF, 0xD800, 0xDFFF, 0xE000, 0xFFFD, 0xFFFE, 0xFFFF,
                                 0x10000, 0x10FFFF, 0x110000, -1, 2 ** 31, 2 ** 64]))
        args = [l]
    else:
        args = [s]
    if rng.random() < 0.05:
        # an empty-sequence argument where the signature has xs:string? / xs:string
        kinds = OPS[op][1]
        idx = [i for i, k in enumerate(kinds) if k == 'S']
        if idx:
            args[rng.choice(idx)] = None
        elif op == 'concat':
            args[0][rng.randrange(len(args[0]))] = None
    case = {'op': op, 'args': args}
    if op in NODE_OPS and isinstance(args[0], list) and rng.random() < 0.25:
        case['nodeforms'] = True       # also evaluate with the first argument given as a node / the context item
    if rng.random() < 0.2:
        case['fnitem'] = True          # also call through a named function reference (3.0+)
    if rng.random() < 0.15:
        case['evalpaths'] = True       # also through token.evaluate(), token.select() and iter_select()
    return case


def S(text: str):
    return [ord(c) for c in text]


CORPUS = [
    # F09a: half-to-even rounding of the pinned tree
    {'op': 'substring2', 'args': [S('12345'), fnum(2.5)]},
    {'op': 'substring3', 'args': [S('12345'), fnum(1.5), fnum(2.5)]},
    {'op': 'substring3', 'args': [S('12345'), fnum(-1.5), fnum(3.0)]},
    {'op': 'substring3', 'args': [S('12345'), fnum(0.5), fnum(0.5)]},
    {'op': 'substring2', 'args': [S('12345'), ('d', '2.5')]},
    # F09d: -INF start, two arguments
    {'op': 'substring2', 'args': [S('12345'), fnum(float('-inf'))]},
    # the worked examples of F&O 5.4.3
    {'op': 'substring3', 'args': [S('12345'), fnum(1.5), fnum(2.6)]},
    {'op': 'substring3', 'args': [S('12345'), fnum(0.0), fnum(3.0)]},
    {'op': 'substring3', 'args': [S('12345'), fnum(5.0), fnum(-3.0)]},
    {'op': 'substring3', 'args': [S('12345'), fnum(-3.0), fnum(5.0)]},
    {'op': 'substring3', 'args': [S('12345'), fnum(float('nan')), fnum(3.0)]},
    {'op': 'substring3', 'args': [S('12345'), fnum(1.0), fnum(float('nan'))]},
    {'op': 'substring3', 'args': [S('12345'), fnum(-42.0), fnum(float('inf'))]},
    {'op': 'substring3', 'args': [S('12345'), fnum(float('-inf')), fnum(float('inf'))]},
    {'op': 'substring3', 'args': [S('1\U0001F6002345'), fnum(1.5), fnum(2.5)]},
    # F09b: duplicates in the map string
    {'op': 'translate', 'args': [S('abca'), S('aa'), S('xy')]},
    {'op': 'translate', 'args': [S('aba'), S('aba'), S('x')]},
    {'op': 'translate', 'args': [S('bar'), S('abc'), S('ABC')]},
    {'op': 'translate', 'args': [S('--aaa--'), S('abc-'), S('ABC')]},
    {'op': 'translate', 'args': [S('abcdabc'), S('abc'), S('AB')]},
    # F09c: non-XML whitespace
    {'op': 'normalize', 'args': [S('a\xa0b')]},
    {'op': 'normalize', 'args': [S(' a　 b\x85')]},
    {'op': 'normalize', 'args': [S('  a  b\t\n c ')]},
    {'op': 'normalize', 'args': [S(' \t')]},
    {'op': 'before', 'args': [S('tattoo'), S('attoo')]},
    {'op': 'after', 'args': [S('tattoo'), S('tat')]},
    {'op': 'after', 'args': [S('abc'), []]},
    {'op': 'before', 'args': [S('abc'), []]},
    {'op': 'contains', 'args': [[], []]},
    {'op': 'ends', 'args': [S('tattoo'), S('too')]},
    {'op': 'compare', 'args': [S('a'), S('\U0001F600')]},
    {'op': 'compare', 'args': [S('￿'), S('\U00010000')]},
    # F09f: the HTML ASCII case-insensitive collation folds A-Z only
    {'op': 'hcompare', 'args': [S('ß'), S('ss')]},
    {'op': 'hcompare', 'args': [S('é'), S('É')]},
    {'op': 'hcompare', 'args': [S('a'), S('A')]},
    {'op': 'hbefore', 'args': [S('ßxy'), S('Y')]},
    {'op': 'hafter', 'args': [S('ßxy'), S('X')]},
    {'op': 'hcontains', 'args': [S('Straße'), S('SS')]},
    {'op': 'hcontains', 'args': [S('K'), S('k')]},
    {'op': 'hends', 'args': [S('abC'), S('c')]},
    {'op': 'hstarts', 'args': [S('é'), S('É')]},
    # contains-token (F09h: only XML whitespace separates / is trimmed)
    {'op': 'ctoken', 'args': [S(' red '), [S('red green blue')]]},
    {'op': 'ctoken', 'args': [S('red'), [S('red, green, blue')]]},
    {'op': 'ctoken', 'args': [S('\xa0a'), [S('a')]]},
    {'op': 'ctoken', 'args': [S('a'), [S('a\x0cb')]]},
    {'op': 'ctoken', 'args': [S('a'), [S('b\xa0a')]]},
    {'op': 'ctoken', 'args': [[], [S('a b')]]},
    {'op': 'ctoken', 'args': [S('a'), []]},
    {'op': 'hctoken', 'args': [S('RED'), [S('red green blue')]]},
    {'op': 'hctoken', 'args': [S('SS'), [S('ß')]]},
    # non-string arguments (XPath 1.0 string() conversion; repaired F09g: INF / exponent forms / -0 with the 1.0 parser)
    {'op': 'conv', 'num': ('I', '12345'), 'inner': 'substring2', 'args': ['@', fnum(2.0)]},
    {'op': 'conv', 'num': ('B', 1), 'inner': 'concat', 'args': [[S('1'), '@', []]]},
    {'op': 'conv', 'num': ('F', (12.5).hex()), 'inner': 'before', 'args': ['@', S('.')]},
    {'op': 'conv', 'num': ('F', 'inf'), 'inner': None, 'args': []},
    {'op': 'conv', 'num': ('F', '-inf'), 'inner': 'length', 'args': ['@']},
    {'op': 'conv', 'num': ('F', 'nan'), 'inner': None, 'args': []},
    {'op': 'conv', 'num': ('F', (-0.0).hex()), 'inner': None, 'args': []},
    {'op': 'conv', 'num': ('F', (1e16).hex()), 'inner': None, 'args': []},
    {'op': 'conv', 'num': ('F', (1e15).hex()), 'inner': None, 'args': []},
    {'op': 'conv', 'num': ('F', (1e-5).hex()), 'inner': None, 'args': []},
    {'op': 'conv', 'num': ('F', (1e-4).hex()), 'inner': None, 'args': []},
    {'op': 'conv', 'num': ('F', (1.5e20).hex()), 'inner': 'length', 'args': ['@']},
    {'op': 'conv', 'num': ('F', (1 / 3).hex()), 'inner': None, 'args': []},
    {'op': 'conv', 'num': ('F', (100.0).hex()), 'inner': None, 'args': []},
    {'op': 'conv', 'num': ('D', '1.50'), 'inner': None, 'args': []},
    {'op': 'conv', 'num': ('D', '-0.0'), 'inner': None, 'args': []},
    {'op': 'conv', 'num': ('D', '1E+3'), 'inner': None, 'args': []},
    {'op': 'conv', 'num': ('D', '1E-10'), 'inner': 'length', 'args': ['@']},
    {'op': 'conv', 'num': ('I', '-7'), 'inner': 'starts', 'args': ['@', S('-')]},
    # node arguments and the context item
    {'op': 'length', 'args': [S('abc déf')], 'nodeforms': True},
    {'op': 'normalize', 'args': [S('  a  b\t\n c ')], 'nodeforms': True},
    {'op': 'substring3', 'args': [S('12345'), fnum(1.5), fnum(2.6)], 'nodeforms': True},
    {'op': 'contains', 'args': [S('tattoo'), S('tt')], 'nodeforms': True},
    {'op': 'cp2sx', 'args': [[('i', '65'), ('u', ' 66 '), ('u', '+67')]]},
    {'op': 'cp2sx', 'args': [[('u', 'x')]]},
    {'op': 'cp2sx', 'args': [[('b', 1)]]},
    {'op': 'cp2sx', 'args': [[('s', 'z')]]},
    {'op': 'cp2sx', 'args': [[('i', '65'), ('o', '2309.1', 'f')]]},
    {'op': 'cp2sx', 'args': [[('i', '55296')]]},
    {'op': 'cp2s', 'args': [[65, 0]]},
    {'op': 'cp2s', 'args': [[0x2309, 0x1F600, 0xFFFD]]},
    {'op': 'cp2s', 'args': [[0xFFFE]]},
    {'op': 's2cp', 'args': [S('Thérèse')]},
    {'op': 'upper', 'args': [S('aßŉǅ')]},
    {'op': 'lower', 'args': [S('ΑΣ ΣΑ ΑΣ́. Σ')]},
    {'op': 'lower', 'args': [S('İA')]},
    {'op': 'encode', 'args': [S('http://www.example.com/00/Weather/CA/Los%20Angeles#ocean')]},
    {'op': 'iri', 'args': [S('http://www.example.com/~bébé <a>')]},
    {'op': 'html', 'args': [S("javascript:if (navigator.browserLanguage == 'fr') window.open('http://www.example.com/~bébé');")]},
    {'op': 'concat', 'args': [[S('un'), S('grateful'), []]]},
    {'op': 'concat', 'args': [[S('a'), None, S('b')]]},
    {'op': 'compare', 'args': [None, S('a')]},
    {'op': 'cpequal', 'args': [S('a'), None]},
    {'op': 'translate', 'args': [S('a'), None, S('b')]},
    {'op': 'translate', 'args': [None, S('a'), S('b')]},
    {'op': 'contains', 'args': [S('a'), None]},
    {'op': 'after', 'args': [S('a'), None]},
    {'op': 's2cp', 'args': [None]},
    {'op': 'length', 'args': [None]},
    {'op': 'substring3', 'args': [None, fnum(1.0), fnum(2.0)]},
    {'op': 'join', 'args': [None, [S('a'), S('b')]]},
    {'op': 'join', 'args': [[], [S('a'), S('b')]]},
    {'op': 'join', 'args': [S(' '), [S('Now'), S('is'), []]]},
]

ACTIVE_OPS = list(OPS)


# ----------------------------------------------------------------------- correspondence
def nontrivial(case) -> bool:
    return case['op'] in ('conv', 'cp2sx') or any(len(a) > 0 for a in case['args'] if isinstance(a, list))


def has_empty_seq(case) -> bool:
    return any(a is None or (isinstance(a, list) and any(x is None for x in a)) for a in case['args'])


def branch_of(case) -> str:
    op = case['op']
    if op == 'conv':
        k = case['num'][0]
        cls = {'B': 'bool', 'I': 'int', 'D': 'decimal'}.get(k)
        if cls is None:
            x = numarg_value(case['num'])
            if math.isnan(x) or math.isinf(x):
                cls = 'float-special'
            elif x == 0:
                cls = 'float-zero'
            else:
                cls = 'float-exponent' if 'e' in repr(x) else ('float-integer' if x == int(x) else 'float-fraction')
        return f'conv:{cls}:{case["inner"] or "string"}'
    if op.startswith('substring'):
        def cls(n):
            line = num_line(n)
            if line in ('nan', 'inf', '-inf'):
                return line
            fr = Fraction(line)
            half = (fr * 2).denominator == 1 and fr.denominator == 2
            return ('half' if half else 'int' if fr.denominator == 1 else 'frac') + ('-' if fr < 0 else '+')
        return op + ':' + ','.join(cls(n) for n in case['args'][1:])
    if op == 'translate':
        m, t = case['args'][1] or [], case['args'][2] or []
        return 'translate:' + ('dup,' if len(set(m)) < len(m) else '') + \
            ('eq' if len(m) == len(t) else 'map-longer' if len(m) > len(t) else 'trans-longer')
    return op


def compare(run: Run, cases: list) -> None:
    E = env()
    lines = [case_line(c) for c in cases]
    lines1 = [case_line(c, True) for c in cases]
    extras = [extra_lines(c) for c in cases]
    uniq = sorted(set(lines) | set(lines1) | {l for ex in extras for l in ex.values()})
    ans = dict(zip(uniq, run.driver('C09', uniq)))
    st = run.stats
    for case, line, line1, extra in zip(cases, lines, lines1, extras):
        op = case['op']
        site = OPS[op][4] if op != 'conv' else 'elementpath/xpath_tokens/base.py XPathToken.string_value'
        if '|' not in ans[line] or '|' not in ans[line1]:
            run.disagree(Disagreement(case, 'driver:' + ans[line] + ' ' + ans[line1], what='protocol'))
            continue
        st.case({'op': op, 'line': line}, nontrivial=nontrivial(case))
        st.count('branch:' + branch_of(case))
        if has_empty_seq(case):
            st.count('arg:empty-sequence')
        lx = run_lxml(case)
        if op == 'conv':
            isfloat = case['num'][0] == 'F'
            pidxs = [0] if (isfloat or case['inner'] != 'concat') else [0, 1, 2, 3]
            if case['inner'] == 'join':
                pidxs = [] if isfloat else [3]      # string-join over xs:anyAtomicType* (F&O 3.1; xs:string* in 3.0)
            trig = ans[line1].split('|')[2] == '1'
        elif op == 'cp2sx':
            pidxs = range(OPS[op][2], 4)
            trig = ans[line].split('|')[2] == '1'
        else:
            pidxs = range(OPS[op][2], 4)
            trig = False
        for pidx in pidxs:
            pname = E['parsers'][pidx].__name__
            model0, spec0 = ans[line1 if pidx == 0 else line].split('|')[:2]
            for e, var, form, root, *key in variants(case, pidx):
                model, spec, tags = model0, spec0, []
                if op == 'cp2sx':
                    tags = ['F09k'] if trig else []
                if key:
                    model, spec, flag = ans[extra[key[0]]].split('|')
                    tags = ['F09j'] if (flag == '1' and pidx == 0 and key[0] == 's') else []
                kw = FORM_KW[form]() if form in FORM_KW else None
                impl = run_impl(case, pidx, e, var, root, unwrap=(form == 'function-item'), kw=kw,
                                path=form if form in ('token.evaluate', 'token.select', 'iter_select') else None)
                st.count('parser:' + pname)
                if form != 'call':
                    st.count('form:' + form)
                if impl.startswith('ERR'):
                    st.count('result:' + impl)
                c = dict(case, parser=pname, expr=e)
                if impl != spec:
                    run.disagree(Disagreement(c, impl, model, spec, what=f'{op}-vs-F&O', site=site, tags=tags))
                    if tags:
                        st.count('finding:' + tags[0])
                if impl != model:
                    if impl == spec or tags:
                        run.disagree(Disagreement(c, impl, model, None if tags else spec, what=f'{op}-model', site=site))
                if pidx == 0 and form == 'call' and lx is not None and impl == spec and lx != impl:
                    # implementation and spec agree with each other but not with libxml2
                    run.disagree(Disagreement(c, impl, model, lx, what=f'{op}-vs-libxml2', site=site,
                                              tags=[]))
        if lx is None:
            st.count('libxml2:n/a' if (op == 'conv' or OPS[op][3]) else 'libxml2:not-1.0')
        else:
            st.count('libxml2:compared')
            if lx != ans[line1].split('|')[1]:
                st.count('libxml2:differs-from-spec')
                run.disagree(SpecOracleDisagreement(dict(case, expr=expr_of(case)[0]), lx, None,
                                                    ans[line1].split('|')[1], what='spec-vs-libxml2',
                                                    site='EPV/Spec/FOStrings.lean'))


class SpecOracleDisagreement(Disagreement):
    """libxml2 disagrees with the *spec*: the oracle invalidates our reading (or is itself wrong); this is a
    broken tie of the spec, reported as no-failing-input-found unless the implementation also fails"""
    @property
    def kind(self) -> str:
        return 'tie'


def fold_html(t: str) -> str:
    return ''.join(chr(ord(c) + 32) if 'A' <= c <= 'Z' else c for c in t)


def law_check(run: Run, cases: list) -> None:
    """concat(substring-before(s,t), m, substring-after(s,t)) = s whenever contains(s,t), with m the factor of s
    matched (equal to t under the collation) — checked on the real code for every way of choosing the collation:
    default parser, default_collation=html (2 arguments), explicit 3rd argument, under 2.0/3.0/3.1 (and 1.0 plain)"""
    E = env()
    st = run.stats
    for case in cases:
        if case['op'] not in ('before', 'after', 'hbefore', 'hafter') or case['args'][0] is None or case['args'][1] is None:
            continue
        html = case['op'].startswith('h')
        s_, t_ = s_of(case['args'][0]), s_of(case['args'][1])
        var = {'a0': s_, 'a1': t_}
        settings = []
        if html:
            settings += [(p, f",'{HTML_URI}'", {}) for p in (1, 2, 3)]
            settings += [(p, '', {'default_collation': HTML_URI}) for p in (1, 2, 3)]
        else:
            settings += [(p, '', {}) for p in (0, 1, 2, 3)]
            settings += [(p, '', {'default_collation': CP_URI}) for p in (1, 3)]
            settings += [(p, f",'{CP_URI}'", {'default_collation': HTML_URI}) for p in (1, 3)]
        key = fold_html if html else (lambda x: x)
        for pidx, third, kw in settings:
            res = []
            for f in ('contains', 'substring-before', 'substring-after'):
                try:
                    res.append(E['ep'].select(E['root'], f'{f}($a0,$a1{third})', parser=E['parsers'][pidx],
                                              variables=var, **kw))
                except Exception as ex:
                    res.append(err_canon(ex))
            c, b, a = res
            st.count('law:before++m++after')
            ok = isinstance(c, bool) and isinstance(b, str) and isinstance(a, str)
            if ok and c:
                m = s_[len(b):len(b) + len(t_)]
                ok = (b + m + a == s_) and key(m) == key(t_)
            elif ok:
                ok = (b == '' and a == '')
            if not ok:
                run.disagree(Disagreement(
                    {'op': 'law', 'args': case['args'], 'collation': 'html' if html else 'codepoint',
                     'parser': E['parsers'][pidx].__name__, 'parser_options': kw,
                     'expr': f'contains / substring-before / substring-after ($a0,$a1{third})'},
                    impl=f'contains={c!r} before={b!r} after={a!r}', model=None,
                    spec='contains -> before ++ m ++ after = $a0 with m ~ $a1; not contains -> both empty',
                    what='before-after-concat', site=OPS['before'][4]))


def kinds_of(op):
    return OPS[op][1]


HISTORY_OPS = ['substring2', 'substring3', 'before', 'after', 'contains', 'starts', 'ends', 'translate', 'normalize',
               'length', 'compare', 'cpequal', 'upper', 'lower', 'hbefore', 'hafter', 'hcontains', 'hstarts', 'hends',
               'hcompare']


def history_pass(run: Run, cases: list, groups: int) -> None:
    """Call-site reuse.  Groups of 2-3 calls of one function: every combination of their argument values is
    evaluated (i) by ONE parsed expression (a Selector) re-evaluated with other `variables=` — the first call once
    more at the end —, (ii) by `for $x0 in $P0, $x1 in $P1 … return f($x0, $x1 …)` (2.0+), (iii) for 1.0 by a
    predicate over sibling nodes carrying the arguments as attributes; results are compared element-wise with the
    single-call results of the Lean spec (theorems history_eq_map, for_product_eq_single_calls)."""
    import xml.etree.ElementTree as ET
    E = env()
    rng = run.rng
    st = run.stats
    byop: dict = {}
    for c in cases:
        if c['op'] in HISTORY_OPS and all(a is not None for a in c['args']):
            byop.setdefault(c['op'], []).append(c)
    plans = []
    ops = [o for o in HISTORY_OPS if len(byop.get(o, [])) >= 2]
    for _ in range(groups):
        if not ops:
            break
        op = rng.choice(ops)
        grp = rng.sample(byop[op], min(len(byop[op]), rng.choice([2, 2, 3])))
        nargs = len(grp[0]['args'])
        pools = []
        for i in range(nargs):
            pool = []
            for c in grp:
                if c['args'][i] not in pool:
                    pool.append(c['args'][i])
            pools.append(pool[:2] if nargs >= 3 else pool[:3])
        if op == 'translate' and len(pools[2]) < 2:
            pools[2] = pools[2] + [pools[2][0] + [120]]     # same map string, another trans string
        # near variants of a string argument (same length, one character changed / reversed): a result cached
        # under a weak key (length, first character, identity of another argument) shows up as a stale answer
        for i in range(nargs):
            if kinds_of(op)[i] == 'S' and pools[i] and pools[i][0]:
                base = pools[i][0]
                j = rng.randrange(len(base))
                near = base[:j] + [base[j] + 1 if base[j] not in (0xD7FF, 0x10FFFF) else 97] + base[j + 1:]
                cand = [near, base[::-1]]
                room = (3 if nargs >= 3 else 4) - len(pools[i])
                pools[i] = pools[i] + [c for c in cand if c not in pools[i]][:max(room, 1 if nargs < 3 else 0)]
        combos = [list(t) for t in product(*pools)]
        plans.append((op, pools, combos))
    lines = sorted({case_line({'op': op, 'args': cb}, compat) for op, _, combos in plans for cb in combos
                    for compat in (False, True)})
    ans = dict(zip(lines, run.driver('C09', lines))) if lines else {}
    for op, pools, combos in plans:
        kinds = OPS[op][1]
        e0 = OPS[op][0]
        site = OPS[op][4]

        def spec_of(cb, pidx):
            return ans[case_line({'op': op, 'args': cb}, pidx == 0)].split('|')[1]

        def value(k, a):
            return s_of(a) if k == 'S' else num_value(a)

        for pidx in range(OPS[op][2], 4):
            pname = E['parsers'][pidx].__name__
            # (i) one parsed expression, several evaluations
            seq = combos + [combos[0]]
            try:
                sel = E['ep'].Selector(e0, parser=E['parsers'][pidx])
                got = []
                for cb in seq:
                    try:
                        got.append(canon(sel.select(E['root'], variables={f'a{i}': value(k, a) for i, (k, a) in
                                                                            enumerate(zip(kinds, cb))})))
                    except Exception as ex:
                        got.append(err_canon(ex))
            except Exception as ex:
                got = [err_canon(ex)]
            want = [spec_of(cb, pidx) for cb in seq]
            st.count('history:selector-reuse')
            st.evaluations += len(seq)
            if got != want:
                k = next((i for i, (g, w) in enumerate(zip(got, want)) if g != w), 0)
                run.disagree(Disagreement({'op': op, 'history': 'one Selector, successive variables=', 'expr': e0,
                                           'calls': seq[:k + 1], 'parser': pname, 'first_wrong_call': k},
                                          impl=got[:k + 1], model=None, spec=want[:k + 1], what=f'history-{op}', site=site))
            # (ii) for-expression over the pools
            if pidx >= 1 and all(not w.startswith('ERR') for w in want):
                fe = 'for ' + ', '.join(f'$x{i} in $P{i}' for i in range(len(pools))) + ' return ' + \
                    __import__('re').sub(r'\$a(\d)', r'$x\1', e0)
                var = {f'P{i}': [value(k, a) for a in pool] for i, (k, pool) in enumerate(zip(kinds, pools))}
                try:
                    r = E['ep'].select(E['root'], fe, parser=E['parsers'][pidx], variables=var)
                    got = [canon(x) for x in r] if isinstance(r, list) else [canon(r)]
                except Exception as ex:
                    got = [err_canon(ex)]
                want = [spec_of(cb, pidx) for cb in combos]
                st.count('history:for-product')
                st.evaluations += len(combos)
                if got != want:
                    run.disagree(Disagreement({'op': op, 'history': 'for-product', 'expr': fe, 'pools': pools,
                                               'parser': pname}, impl=got, model=None, spec=want,
                                              what=f'history-{op}', site=site))
        # (iii) XPath 1.0 (and all): a predicate evaluated on sibling nodes that carry the arguments as attributes
        if op in ('translate', 'before', 'after', 'contains', 'starts') and all(k == 'S' for k in kinds):
            r = ET.Element('r')
            for cb in combos:
                w = ET.SubElement(r, 'w')
                w.text = s_of(cb[0])
                for i, a in enumerate(cb[1:], 1):
                    w.set(f'p{i}', s_of(a))
            e1 = __import__('re').sub(r'\$a(\d)', lambda m: '.' if m.group(1) == '0' else f'@p{m.group(1)}', e0)
            for pidx in range(OPS[op][2], 4):
                if op in ('contains', 'starts'):
                    fe, want = f'count(w[{e1}])', None
                    n = sum(1 for cb in combos if spec_of(cb, pidx) == 'B:1')
                    want = [f'I:{n}']
                else:
                    # the distinct results, via string comparison node by node
                    fe = f'w[{e1} = @want]'
                    for wnode, cb in zip(r, combos):
                        sp = spec_of(cb, pidx)
                        wnode.set('want', s_of([int(x) for x in sp[2:].split()]) if sp.startswith('S:') else '\x00')
                    want = [f'I:{len(combos)}']
                    fe = f'count({fe})'
                try:
                    got = [canon(E['ep'].select(r, fe, parser=E['parsers'][pidx]))]
                except Exception as ex:
                    got = [err_canon(ex)]
                got = [g.replace('F:0x', 'F:0x') for g in got]
                if got and got[0].startswith('F:'):
                    got = [canon(int(float.fromhex(got[0][2:])))]
                st.count('history:predicate-over-nodes')
                st.evaluations += len(combos)
                if got != want:
                    run.disagree(Disagreement({'op': op, 'history': 'predicate over sibling nodes', 'expr': fe,
                                               'calls': combos, 'parser': E['parsers'][pidx].__name__},
                                              impl=got, model=None, spec=want, what=f'history-{op}', site=site))


def function_items_pass(run: Run, cases: list, groups: int) -> None:
    """Function items created under one focus and called under another (3.0+): named function references of the
    zero-argument, focus-dependent string functions, fn:function-lookup, and partial applications that fix `.`.
    Document: <r><w>s1</w><w>s2</w>…</r>; expected values: the single-call results of the Lean spec for each s_i."""
    import xml.etree.ElementTree as ET
    E = env()
    rng = run.rng
    st = run.stats
    pool = [c['args'][0] for c in cases if c['op'] in ('length', 'normalize', 'upper', 'substring2', 'contains')
            and isinstance(c['args'][0], list)]
    if len(pool) < 3:
        return
    FN = 'http://www.w3.org/2005/xpath-functions'
    plans = []
    for _ in range(groups):
        strs = rng.sample(pool, rng.choice([2, 3, 4]))
        plans.append(strs)
    lines = sorted({f'{op}|{cps_line(s_)}' for strs in plans for s_ in strs for op in ('length', 'normalize', 'upperG', 'lowerG')}
                   | {f'substring2|{cps_line(s_)}|2/1' for strs in plans for s_ in strs}
                   | {f'contains|{cps_line(s_)}|97' for strs in plans for s_ in strs})
    ans = dict(zip(lines, run.driver('C09', lines)))

    def spec(line):
        return ans[line].split('|')[1]

    for strs in plans:
        r = ET.Element('r')
        for s_ in strs:
            ET.SubElement(r, 'w').text = s_of(s_)
        ident = ['S:' + cps_line(s_) for s_ in strs]
        length = [spec(f'length|{cps_line(s_)}') for s_ in strs]
        norm = [spec(f'normalize|{cps_line(s_)}') for s_ in strs]
        upper = [spec(f'upperG|{cps_line(s_)}') for s_ in strs]
        lower = [spec(f'lowerG|{cps_line(s_)}') for s_ in strs]
        sub2 = [spec(f'substring2|{cps_line(s_)}|2/1') for s_ in strs]
        cont = [spec(f'contains|{cps_line(s_)}|97') for s_ in strs]
        names = ['S:119'] * len(strs)
        exprs = [
            ('for $f in w/string-length#0 return $f()', length),
            ('(w ! string-length#0) ! .()', length),
            ('for $f in w/normalize-space#0 return $f()', norm),
            ('(w ! normalize-space#0) ! .()', norm),
            ('for $f in w/string#0 return $f()', ident),
            ('(w/string#0) ! .()', ident),
            ('for $f in w/name#0 return $f()', names),
            ('for $f in w/local-name#0 return $f()', names),
            (f"for $f in w/function-lookup(QName('{FN}', 'string-length'), 0) return $f()", length),
            (f"for $f in w/function-lookup(QName('{FN}', 'normalize-space'), 0) return $f()", norm),
            (f"for $f in w/function-lookup(QName('{FN}', 'string'), 0) return $f()", ident),
            ('for $f in w/upper-case(., ?) return 0', None),     # arity error: ignored (not a valid partial)
            # partial applications that fix `.` (repaired by C16's fix after being observed here)
            ('for $f in w/substring(., ?) return $f(2)', sub2),
            ('for $f in w/contains(., ?) return $f("a")', cont),
            ('(w ! substring(., ?)) ! .(2)', sub2),
            ('for $w in w return substring($w, ?)(2)', sub2),
            ('for $w in w return (let $f := contains(?, "a") return $f($w))', cont),
            ('let $fs := w/string-length#0 return (for $f in reverse($fs) return $f())', length[::-1]),
            ('for $w in w return (let $f := upper-case#1 return $f($w))', upper),
            ('for $w in w return (let $f := lower-case#1 return $f(string($w)))', lower),
            ('let $f := string-length#1 return (for $w in w return $f($w))', length),
            ('for $f in w/string-length#0, $g in w/normalize-space#0 return string-length($g()) - $f()', None),
        ]
        for pidx in (2, 3):
            for fe, want in exprs:
                if want is None:
                    continue
                try:
                    res = E['ep'].select(r, fe, parser=E['parsers'][pidx])
                    got = [canon(x) for x in res] if isinstance(res, list) else [canon(res)]
                except Exception as ex:
                    got = [err_canon(ex)]
                st.count('function-items:' + fe.split('(')[0][:24].strip())
                st.evaluations += len(strs)
                if got != want:
                    run.disagree(Disagreement({'op': 'function-item', 'expr': fe, 'texts': strs,
                                               'parser': E['parsers'][pidx].__name__},
                                              impl=got, model=None, spec=want, what='function-items',
                                              site='elementpath/xpath30/_xpath30_operators.py name#arity; '
                                                   '_xpath30_functions.py function-lookup'))


def nodeset_pass(run: Run, cases: list, groups: int) -> None:
    """XPath 1.0 conversion of a node-set argument: the string-value of the node that is FIRST IN DOCUMENT ORDER
    (whatever the order the node-set expression was written in), '' for an empty node-set; with 2.0+ a sequence of more
    than one node is XPTY0004.  Documents <r><w>s1</w><w>s2</w>…</r> as ElementTree element, ElementTree document and
    lxml element; expected values are the single-call spec results for s1 (or the selected node); libxml2 evaluates
    the same expressions on the lxml tree."""
    import xml.etree.ElementTree as ET
    E = env()
    rng = run.rng
    st = run.stats
    pool = [c['args'][0] for c in cases if c['op'] in ('length', 'normalize', 'upper', 'substring2', 'contains', 'translate')
            and isinstance(c['args'][0], list)]
    if len(pool) < 4:
        return
    plans = [rng.sample(pool, rng.choice([2, 3, 4])) for _ in range(groups)]
    lines = set()
    for strs in plans:
        for s_ in strs + [[]]:
            c = cps_line(s_)
            lines |= {f'length|{c}', f'normalize|{c}', f'substring2|{c}|2/1', f'contains|{c}|97', f'translate1|{c}|97|98',
                      f'starts|{c}|{cps_line(s_[:1])}'}
        lines.add(f'concat|{cps_line(strs[0])}|124|{cps_line(strs[-1])}')
    lines = sorted(lines)
    ans = dict(zip(lines, run.driver('C09', lines)))

    def spec(line):
        return ans[line].split('|')[1]

    # codepoints-to-string on nodes: atomization, then the cast of the untyped values (2.0+)
    for texts, want in ((['65', ' 66 ', '128512'], 'S:65 66 128512'), (['65', 'x'], 'ERR:FORG0001'), ([], 'S:'),
                        (['55296'], 'ERR:FOCH0001')):
        r = ET.Element('r')
        for t in texts:
            ET.SubElement(r, 'c').text = t
            r[-1].set('v', t)
        for fe in ('codepoints-to-string(c)', 'codepoints-to-string(c/@v)', 'codepoints-to-string(c/text())'):
            for pidx in (1, 2, 3):
                try:
                    got = canon(E['ep'].select(r, fe, parser=E['parsers'][pidx]))
                except Exception as ex:
                    got = err_canon(ex)
                st.count('nodeset:codepoints-to-string')
                st.evaluations += 1
                if got != want:
                    run.disagree(Disagreement({'op': 'nodeset', 'expr': fe, 'texts': texts,
                                               'parser': E['parsers'][pidx].__name__}, impl=got, model=None, spec=want,
                                              what='codepoints-to-string-nodes', site=OPS['cp2sx'][4]))
    for strs in plans:
        r = ET.Element('r')
        for s_ in strs:
            ET.SubElement(r, 'w').text = s_of(s_)
        first, second, last = strs[0], strs[1], strs[-1]
        c1, c2, c0 = cps_line(first), cps_line(second), cps_line([])
        exprs = [
            ('string-length(W)', spec(f'length|{c1}')),
            ('string-length(W[position() > 1])', spec(f'length|{c2}')),
            ('string-length(W[2] | W[1])', spec(f'length|{c1}')),
            ('string-length(W[last()] | W[1])', spec(f'length|{c1}')),
            ('normalize-space(W)', spec(f'normalize|{c1}')),
            ('substring(W, 2)', spec(f'substring2|{c1}|2/1')),
            ('substring(W[2] | W[1], 2)', spec(f'substring2|{c1}|2/1')),
            ('contains(W, "a")', spec(f'contains|{c1}|97')),
            ('translate(W, "a", "b")', spec(f'translate1|{c1}|97|98')),
            ('starts-with(W, substring(W[1], 1, 1))', spec(f'starts|{c1}|{cps_line(first[:1])}')),
            ('concat(W, "|", W[last()])', spec(f'concat|{c1}|124|{cps_line(last)}')),
            ('string-length(W[@none])', spec(f'length|{c0}')),
            ('normalize-space(W/none)', spec(f'normalize|{c0}')),
            ('string-length(string(W))', spec(f'length|{c1}')),
        ]
        roots = [('element', r, 'w'), ('document', ET.ElementTree(r), 'r/w')]
        lr = lxml_copy(r)
        if lr is not None:
            roots.append(('lxml-element', lr, 'w'))
        for kind, root, wpath in roots:
            for tmpl, want in exprs:
                fe = tmpl.replace('W', wpath)
                # XPath 1.0: first node in document order
                try:
                    got = canon(E['ep'].select(root, fe, parser=E['parsers'][0]))
                except Exception as ex:
                    got = err_canon(ex)
                st.count(f'nodeset:1.0:{kind}')
                st.evaluations += 1
                if got != want:
                    run.disagree(Disagreement({'op': 'nodeset', 'expr': fe, 'texts': strs, 'root': kind,
                                               'parser': 'XPath1Parser'}, impl=got, model=None, spec=want,
                                              what='nodeset-to-string', site='elementpath/xpath_tokens/base.py get_argument / string_value'))
                # 2.0+: more than one item is a type error, one or no item converts as in 1.0
                many = ('W,' in tmpl or 'W)' in tmpl) and '[' not in tmpl.split('W')[1][:1] and len(strs) > 1 \
                    and not tmpl.startswith(('starts-with', 'concat', 'string-length(string'))
                if kind == 'element' and (many or '[@none]' in tmpl or '/none' in tmpl or 'position() > 1' in tmpl and len(strs) == 2):
                    for pidx in (1, 3):
                        try:
                            got = canon(E['ep'].select(root, fe, parser=E['parsers'][pidx]))
                        except Exception as ex:
                            got = err_canon(ex)
                        want2 = 'ERR:XPTY0004' if many else want
                        st.count('nodeset:2.0+')
                        st.evaluations += 1
                        if got != want2:
                            run.disagree(Disagreement({'op': 'nodeset', 'expr': fe, 'texts': strs, 'root': kind,
                                                       'parser': E['parsers'][pidx].__name__}, impl=got, model=None,
                                                      spec=want2, what='nodeset-to-string',
                                                      site='elementpath/xpath_tokens/base.py get_argument'))
                # libxml2 on the same tree
                if kind == 'lxml-element':
                    try:
                        x = E['le'].XPath(fe)(root)
                        lx = canon(int(x)) if isinstance(x, float) and x == int(x) else canon(x if isinstance(x, bool) else str(x) if isinstance(x, str) else x)
                    except Exception:
                        lx = None
                    if lx is not None:
                        key = tmpl + '   [node-set argument]'
                        LXML_SHAPES[key] = LXML_SHAPES.get(key, 0) + 1
                        st.count('libxml2:compared')
                        if lx != want:
                            st.count('libxml2:differs-from-spec')
                            run.disagree(SpecOracleDisagreement({'op': 'nodeset', 'expr': fe, 'texts': strs}, lx, None, want,
                                                                what='spec-vs-libxml2', site='EPV/Spec/FOStrings.lean'))

_schema = {}


def typed_schema():
    """a small schema (xmlschema, if installed) giving simple types to the elements of the typed test document"""
    if 'proxy' not in _schema:
        try:
            import xmlschema
            xsd = xmlschema.XMLSchema(
                '<xs:schema xmlns:xs="http://www.w3.org/2001/XMLSchema"><xs:element name="r"><xs:complexType><xs:sequence>'
                '<xs:element name="d" type="xs:decimal" maxOccurs="unbounded"/><xs:element name="i" type="xs:integer"/>'
                '<xs:element name="b" type="xs:boolean"/><xs:element name="s" type="xs:string"/>'
                '<xs:element name="f" type="xs:double"/><xs:element name="u" type="xs:anyURI"/></xs:sequence>'
                '<xs:attribute name="n" type="xs:decimal"/></xs:complexType></xs:element></xs:schema>')
            _schema['proxy'] = xsd.xpath_proxy
        except Exception:
            _schema['proxy'] = None
    return _schema['proxy']


def context_item_pass(run: Run, cases: list, groups: int) -> None:
    """The zero-argument (context item) forms string(), string-length(), normalize-space() must be the one-argument
    forms on fn:string(.) (F&O: "the argument defaults to the string value of the context item"), for every kind of
    context item: non-string atomic values (integer, decimal, double, boolean, xs:untypedAtomic, xs:anyURI, string),
    nodes of every kind (element, attribute, text, comment, processing instruction, namespace, document) and
    schema-typed element/attribute nodes; 1.0 and 2.0+ parsers.  Three comparisons per case: zero-argument form vs
    the real code's f(string(.)); vs the Lean spec on the known string value (where the string value is known
    exactly: everything but doubles); and the focus supplied in different ways (item= of select / XPathContext,
    `$v ! f()`, predicates, `for`)."""
    import xml.etree.ElementTree as ET
    from elementpath.datatypes import UntypedAtomic, AnyURI
    E = env()
    rng = run.rng
    st = run.stats
    pool = [c['args'][0] for c in cases if c['op'] in ('normalize', 'length') and isinstance(c['args'][0], list)]
    xmlpool = [p for p in pool if p and all(c in (9, 10, 32) or 0x20 < c < 0xD800 or 0xE000 <= c <= 0xFFFD or c >= 0x10000
                                           for c in p) and 13 not in p]
    if len(pool) < 6 or len(xmlpool) < 3:
        return
    FUNS = (('string', None), ('string-length', 'length'), ('normalize-space', 'normalize'))

    # ---- plan the items and the driver lines that give their expected results
    plans = []
    lines = set()
    for _ in range(groups):
        items = []    # (kind, python value, key for the expected string: ('num', numarg) | ('str', cps) | None)
        for _ in range(rng.randint(2, 4)):
            r = rng.random()
            if r < 0.45:
                na = gen_numarg(rng)
                v = numarg_value(na)
                if na[0] == 'F':
                    items.append(('double', v, ('num', na)))     # XPath 1.0 only: 2.0 canonical doubles are C10's
                else:
                    items.append(({'I': 'integer', 'D': 'decimal', 'B': 'boolean'}[na[0]], v, ('num', na)))
            elif r < 0.6:
                t = rng.choice(pool)
                items.append(('untypedAtomic', UntypedAtomic(s_of(t)), ('str', t)))
            elif r < 0.72:
                t = [c for c in rng.choice(xmlpool) if c not in (9, 10)]
                try:
                    items.append(('anyURI', AnyURI(s_of(t)), ('str', [ord(c) for c in str(AnyURI(s_of(t)))])))
                except Exception:
                    items.append(('string', s_of(t), ('str', t)))
            else:
                t = rng.choice(pool)
                items.append(('string', s_of(t), ('str', t)))
        texts = rng.sample(xmlpool, 3)
        plans.append((items, texts))
        for _, _, key in items:
            if key and key[0] == 'num':
                nl = numarg_line(key[1])
                lines |= {f'conv|{nl}', f'conv|{nl}|length|@', f'conv|{nl}|normalize|@'}
            elif key:
                lines |= {f'length|{cps_line(key[1])}', f'normalize|{cps_line(key[1])}'}
        for t in texts + [texts[0] + texts[1] + texts[2] + texts[1]]:
            lines |= {f'length|{cps_line(t)}', f'normalize|{cps_line(t)}'}
    lines = sorted(lines)
    ans = dict(zip(lines, run.driver('C09', lines)))

    def expected(key, fun):
        """Lean spec result of fun on the string value denoted by key"""
        if key is None:
            return None
        if key[0] == 'num':
            nl = numarg_line(key[1])
            line = f'conv|{nl}' if fun == 'string' else f'conv|{nl}|{dict(FUNS)[fun]}|@'
            return ans[line].split('|')[1]
        if fun == 'string':
            return 'S:' + cps_line(key[1])
        return ans[f'{dict(FUNS)[fun]}|{cps_line(key[1])}'].split('|')[1]

    def ev(pidx, expr, root=None, **kw):
        try:
            r = E['ep'].select(E['root'] if root is None else root, expr, parser=E['parsers'][pidx], **kw)
            if isinstance(r, list) and len(r) == 1:
                r = r[0]
            return canon(r)
        except Exception as ex:
            return err_canon(ex)

    def report(kind, fun, how, expr, pidx, got, want, what, detail):
        run.disagree(Disagreement({'op': 'context-item', 'function': fun + '()', 'context_item_kind': kind,
                                   'context_item': detail, 'focus_given_by': how, 'expr': expr,
                                   'parser': E['parsers'][pidx].__name__},
                                  impl=got, model=None, spec=want, what=what,
                                  site=('elementpath/xpath1/_xpath1_functions.py evaluate__' + fun.replace('-', '_') +
                                        ('; elementpath/xpath2/_xpath2_constructors.py evaluate__string_type_and_function'
                                         ' (2.0+)' if fun == 'string' else ''))))

    for plan_no, (items, texts) in enumerate(plans):
        # ---- atomic context items
        for kind, value, key in items:
            detail = repr(value)
            for fun, _ in FUNS:
                for pidx in range(4):
                    one = ev(pidx, f'{fun}(string(.))', item=value)
                    ways = [('select(item=)', f'{fun}()', {'item': value})]
                    if pidx >= 1:
                        ways.append(('predicate', f'count(($v)[{fun}() = {fun}(string(.))])', {'variables': {'v': value}}))
                        ways.append(('for + predicate', f'for $x in ($v, $v) return ($x)[true()]/{fun}()', None))
                    if pidx >= 2:
                        ways.append(('simple map', f'$v ! {fun}()', {'variables': {'v': value}}))
                    for how, expr, kw in ways:
                        if kw is None:
                            continue      # a path step on an atomic value is XPTY0019 by definition: not a focus form
                        got = ev(pidx, expr, **kw)
                        st.count(f'context-item:{kind}')
                        st.evaluations += 1
                        if how == 'predicate':
                            if got != 'I:1':
                                report(kind, fun, how, expr, pidx, got, 'I:1', 'zero-arg-vs-one-arg', detail)
                            continue
                        if got != one:
                            report(kind, fun, how, expr, pidx, got, one, 'zero-arg-vs-one-arg', detail)
                        want = expected(key, fun)
                        if want is not None and not (kind == 'double' and pidx != 0) and got != want:
                            report(kind, fun, how, expr, pidx, got, want, 'zero-arg-vs-F&O', detail)
                    # a bare token evaluated with an XPathContext whose item is the value
                    try:
                        tok = E['parsers'][pidx]().parse(f'{fun}()')
                        got = canon(tok.evaluate(E['ep'].XPathContext(E['root'], item=value)))
                    except Exception as ex:
                        got = err_canon(ex)
                    st.evaluations += 1
                    if got != one:
                        report(kind, fun, 'XPathContext(item=)', f'{fun}()', pidx, got, one, 'zero-arg-vs-one-arg', detail)
            # a mixed sequence mapped through the zero-argument form (3.0+)
        seq = [v for _, v, _ in items]
        for fun, _ in FUNS:
            for pidx in (2, 3):
                got = ev(pidx, f'$s ! {fun}()', variables={'s': seq})
                want = ev(pidx, f'$s ! {fun}(string(.))', variables={'s': seq})
                st.count('context-item:sequence')
                st.evaluations += len(seq)
                if got != want:
                    report('sequence', fun, 'simple map over a sequence', f'$s ! {fun}()', pidx, got, want,
                           'zero-arg-vs-one-arg', repr(seq))
        # ---- nodes of every kind (lxml tree: comments, PIs and namespaces are kept)
        t_el, t_at, t_cm = texts
        if E['le'] is not None and plan_no % 2 == 0:
            try:
                le = E['le']
                a = le.Element('a', nsmap={'n': 'urn:' + ''.join(ch for ch in s_of(t_at) if ch.isalnum() and ch.isascii())})
                a.set('x', s_of(t_at))
                a.text = s_of(t_el)
                a.append(le.Comment(s_of(t_cm).replace('-', '_')))
                a[-1].tail = s_of(t_at)
                b = le.SubElement(a, 'b')
                b.text = s_of(t_cm)
                try:
                    pi = le.ProcessingInstruction('p', s_of(t_el).replace('?>', '? >'))
                    a.append(pi)
                except Exception:
                    pi = None
            except Exception:
                a = None
            if a is not None:
                for root, kinds in ((a, ['.', '@x', 'text()[1]', 'comment()', 'b', 'processing-instruction()', 'namespace::n']),
                                    (a.getroottree(), ['.', 'a', 'a/@x', 'a/b/text()'])):
                    for path in kinds:
                        for fun, _ in FUNS:
                            for pidx in range(4):
                                one = ev(pidx, f'{fun}(string({path}))', root=root)
                                if pidx == 0:
                                    forms = [('argument', f'{fun}({path})'),
                                             ('predicate', f'{fun}(({path})[{fun}() = {fun}(string(.))])')]
                                else:
                                    forms = [('path step', f'{path}/{fun}()'),
                                             ('for', f'for $n in {path} return $n/{fun}()'),
                                             ('predicate', f'({path})[{fun}() = {fun}(string(.))]/{fun}()')]
                                    if pidx >= 2:
                                        forms.append(('simple map', f'({path}) ! {fun}()'))
                                for how, expr in forms:
                                    got = ev(pidx, expr, root=root)
                                    st.count('context-item:node ' + path.split('/')[-1].split('[')[0])
                                    st.evaluations += 1
                                    if got != one:
                                        report('node ' + path, fun, how, expr, pidx, got, one, 'zero-arg-vs-one-arg',
                                               'lxml tree, texts ' + repr(texts))
        # ---- the same on ElementTree (element and document root), expected from the Lean spec as well
        r = ET.Element('r')
        r.set('x', s_of(t_at))
        r.text = s_of(t_el)
        w = ET.SubElement(r, 'w')
        w.text = s_of(t_at)
        w.tail = s_of(t_cm)
        whole = t_el + t_at + t_cm
        for root, path, key in ((r, '.', ('str', whole)), (r, '@x', ('str', t_at)), (r, 'w', ('str', t_at)),
                                (r, 'w/text()', ('str', t_at)), (ET.ElementTree(r), '.', ('str', whole)),
                                (ET.ElementTree(r), 'r/w', ('str', t_at))):
            for fun, _ in FUNS:
                lines_needed = expected(key, fun) if (fun == 'string' or f'{dict(FUNS)[fun]}|{cps_line(key[1])}' in ans) else None
                for pidx in range(4):
                    expr = f'{fun}({path})' if pidx == 0 else f'{path}/{fun}()'
                    got = ev(pidx, expr, root=root)
                    one = ev(pidx, f'{fun}(string({path}))', root=root)
                    st.count('context-item:etree node')
                    st.evaluations += 1
                    if got != one:
                        report('node ' + path, fun, 'path step', expr, pidx, got, one, 'zero-arg-vs-one-arg', repr(texts))
                    if lines_needed is not None and got != lines_needed:
                        report('node ' + path, fun, 'path step', expr, pidx, got, lines_needed, 'zero-arg-vs-F&O', repr(texts))
        # ---- schema-typed nodes: the string value is the text, not the typed value
        proxy = typed_schema()
        if proxy is not None and plan_no % 4 == 0:
            num = rng.choice(['1.50', ' 2.50 ', '-0.0', '007', '1E+2'][:4])
            doc = ET.XML(f'<r n=" {num} "><d> {num} </d><d>7</d><i> 12 </i><b> true </b><s> x  y </s><f> 1e3 </f>'
                         f'<u> http://x/y </u></r>')
            for path in ('d[1]', 'd[2]', 'i', 'b', 's', 'f', 'u', '@n', '.'):
                for fun, _ in FUNS:
                    for pidx in (1, 3):
                        kw = {'schema': proxy}
                        one = ev(pidx, f'{fun}(string({path}))', root=doc, **kw)
                        raw = ev(pidx, f'{fun}(string({path}))', root=doc)      # untyped: the string value is the same
                        for how, expr in (('path step', f'{path}/{fun}()'),
                                          ('predicate', f'({path})[{fun}() = {fun}(string(.))]/{fun}()')):
                            got = ev(pidx, expr, root=doc, **kw)
                            st.count('context-item:schema-typed node')
                            st.evaluations += 1
                            if got != one or got != raw:
                                report('schema-typed node ' + path, fun, how, expr, pidx, got, one if got != one else raw,
                                       'zero-arg-vs-one-arg', f'typed document, number text {num!r}')


def correspond(run: Run) -> None:
    rng = run.rng
    n = run.scale(12000, 220000)
    cases = list(CORPUS) + [gen_case(rng) for _ in range(n)]
    run.stats.rule = ('one case = one function call (op, arguments); strings over small random alphabets drawn from '
                      'ASCII, XML and non-XML whitespace, astral, combining, BMP-edge, non-XML (NUL, surrogates) code '
                      'points, length 0..12, second arguments mostly factors of the first; numbers on the .5 grid, '
                      'one ulp off it, +-INF, NaN, +-0, subnormal, huge, ints, decimals; each case is evaluated by '
                      'every parser class that has the function (up to 4) and by libxml2 for XPath 1.0 functions. '
                      'distinct = distinct driver request lines with a non-empty argument')
    for i in range(0, len(cases), 25000):
        compare(run, cases[i:i + 25000])
    law_check(run, cases[:run.scale(1500, 30000)])
    history_pass(run, cases, run.scale(300, 5000))
    function_items_pass(run, cases, run.scale(100, 1500))
    nodeset_pass(run, cases, run.scale(100, 1500))
    context_item_pass(run, cases, run.scale(30, 500))
    from harness.c09_tokenize1 import tokenize1_pass      # one-argument fn:tokenize (Props/C09Tokenize1.lean)
    tokenize1_pass(run, run.scale(1200, 25000), err_canon)


def search(run: Run):
    """exhaustive small scope: every modelled function on all strings over {a, b, ' '} up to length 4
    (3 for pairs, 2+2+2.. for translate) and the whole .5 grid from -3 to 7 plus +-INF/NaN"""
    sub = Run(PROP, run.tier, run.seed)
    alpha = [97, 98, 32]
    strs = [list(p) for k in range(5) for p in product(alpha, repeat=k)]
    small = [s for s in strs if len(s) <= 3]
    tiny = [s for s in strs if len(s) <= 2]
    nums = [fnum(k / 2.0) for k in range(-6, 15)] + [fnum(float('nan')), fnum(float('inf')), fnum(float('-inf'))]
    cases = []
    s5 = S('12345')
    for a in nums:
        cases.append({'op': 'substring2', 'args': [s5, a]})
        for b in nums:
            cases.append({'op': 'substring3', 'args': [s5, a, b]})
    for s in small:
        for t in tiny:
            for op in ('before', 'after', 'contains', 'starts', 'ends', 'compare', 'cpequal'):
                cases.append({'op': op, 'args': [s, t]})
    hs = [list(p) for k in range(4) for p in product([97, 65, 0xDF], repeat=k)]
    for s in hs:
        for t in [x for x in hs if len(x) <= 2]:
            for op in ('hbefore', 'hafter', 'hcontains', 'hstarts', 'hends', 'hcompare'):
                cases.append({'op': op, 'args': [s, t]})
    ab = [list(p) for k in range(4) for p in product([97, 98], repeat=k)]
    for m in ab:
        for t in [list(p) for k in range(3) for p in product([120, 121], repeat=k)]:
            cases.append({'op': 'translate', 'args': [S('abcab'), m, t]})
    ws = [list(p) for k in range(5) for p in product([97, 32, 9, 0xA0], repeat=k)]
    for s in ws:
        cases.append({'op': 'normalize', 'args': [s]})
    for s in strs[:40]:
        for op in ('length', 's2cp', 'upper', 'lower', 'encode', 'iri', 'html'):
            cases.append({'op': op, 'args': [s]})
    cases = [c for c in cases if c['op'] in ACTIVE_OPS]
    for i in range(0, len(cases), 5000):
        compare(sub, cases[i:i + 5000])
    run.notes.append(f'search: {len(cases)} exhaustive small-scope cases, {len(sub.disagreements)} disagreements')
    from harness.c09_tokenize1 import tokenize1_search
    return sub.disagreements + tokenize1_search(run, err_canon)


def _still_fails(cands: list, what: str, parser: str) -> list:
    """which candidate cases still show the same kind of disagreement"""
    sub = Run(PROP, 'quick', 0)
    compare(sub, cands)
    bad = []
    for d in sub.disagreements:
        if d.what == what and d.case.get('parser') == parser:
            bad.append(d)
    return bad


def shrink(d: Disagreement) -> Disagreement:
    if not isinstance(d.case, dict) or 'op' not in d.case or d.case['op'] in ('tok1', 'conv', 'ctoken', 'hctoken', 'law', 'function-item', 'cp2sx', 'nodeset', 'context-item') or 'history' in d.case:
        return d
    best = d
    import time
    t0 = time.time()
    for _ in range(40):
        if time.time() - t0 > 60:
            break
        case = {'op': best.case['op'], 'args': best.case['args']}
        kinds = OPS[case['op']][1]
        cands = []
        for i, (k, a) in enumerate(zip(kinds, case['args'])):
            if a is None:
                cands.append({'op': case['op'], 'args': case['args'][:i] + [[]] + case['args'][i + 1:]})
            elif k in ('S', 'L'):
                n = len(a)
                for size in sorted({n // 2, n // 4} - {0, 1}, reverse=True):    # chunks first
                    for j in range(0, n, size):
                        cands.append({'op': case['op'], 'args': case['args'][:i] + [a[:j] + a[j + size:]] + case['args'][i + 1:]})
                for j in range(len(a)):
                    cands.append({'op': case['op'], 'args': case['args'][:i] + [a[:j] + a[j + 1:]] + case['args'][i + 1:]})
                for j, c in enumerate(a):
                    if c not in (97, 98, 32):
                        for r in (97, 98):
                            cands.append({'op': case['op'], 'args': case['args'][:i] + [a[:j] + [r] + a[j + 1:]] + case['args'][i + 1:]})
            elif k == 'T':
                for j in range(len(a)):
                    if len(a) > 2 or case['op'] == 'join':
                        cands.append({'op': case['op'], 'args': case['args'][:i] + [a[:j] + a[j + 1:]] + case['args'][i + 1:]})
            elif k == 'N':
                line = num_line(a)
                if line not in ('nan', 'inf', '-inf'):
                    fr = Fraction(line)
                    for v in (math.floor(fr * 2) / 2.0, float(round(fr)), float(fr)):
                        if num_line(fnum(v)) != line or a[0] != 'f':
                            cands.append({'op': case['op'], 'args': case['args'][:i] + [fnum(v)] + case['args'][i + 1:]})
        if not cands:
            break
        bad = _still_fails(cands, best.what, best.case.get('parser'))
        if not bad:
            break
        best = bad[0]
    return best


def translate_case_tables(run: Run) -> dict:
    """Emit CPython's case mapping facts for the whole code point range into EPV/Gen/C09Case.lean:
    the rows of str.upper()/str.lower() that differ from the identity, and the Cased / Case_Ignorable classes as
    observed through the Final_Sigma behaviour of str.lower() (the only place CPython consults them)."""
    import unicodedata
    N = 0x110000
    up, lo = [], []
    for c in range(N):
        ch = chr(c)
        u, l = ch.upper(), ch.lower()
        if u != ch:
            up.append((c, [ord(x) for x in u]))
        if l != ch:
            lo.append((c, [ord(x) for x in l]))

    def fin(s):
        return s.lower().endswith('\u03c2')

    def ranges(pred):
        out, start = [], None
        for c in range(N):
            if pred(c):
                if start is None:
                    start = c
            elif start is not None:
                out.append((start, c - 1))
                start = None
        if start is not None:
            out.append((start, N - 1))
        return out

    ign = [fin('a' + chr(c) + '\u03a3') and not fin('1' + chr(c) + '\u03a3') for c in range(N)]
    # Cased is only ever consulted for a character that is not case-ignorable
    cased = [(not ign[c]) and fin(chr(c) + '\u03a3') for c in range(N)]
    ign_r, cased_r = ranges(lambda c: ign[c]), ranges(lambda c: cased[c])
    # the Unicode property Cased (D135: Lowercase or Uppercase or General_Category=Lt), from an independent
    # source: str.islower()/isupper() of a single character are the derived properties Lowercase/Uppercase
    full = [chr(c).islower() or chr(c).isupper() or unicodedata.category(chr(c)) == 'Lt' for c in range(N)]
    full_r = ranges(lambda c: full[c])
    probe_mismatch = [c for c in range(N) if cased[c] != (full[c] and not ign[c])][:20]

    def row(e):
        return f'({e[0]}, [{", ".join(map(str, e[1]))}])'

    def chunks(name, typ, items, fmt, size=400):
        """long literal lists are emitted in chunks: one giant literal is slow to elaborate"""
        parts = []
        lines = []
        for i in range(0, max(len(items), 1), size):
            pn = f'{name}_{i // size}'
            parts.append(pn)
            lines.append(f'def {pn} : List ({typ}) := [' + ', '.join(fmt(x) for x in items[i:i + size]) + ']')
        lines.append(f'def {name} : List ({typ}) := ' + ' ++ '.join(parts))
        return lines

    out = ['/- GENERATED by harness/c09.py::translate_case_tables from the running CPython -- do not edit -/',
           'namespace EPV.Gen.C09', '',
           f'def unidataVersion : String := "{unicodedata.unidata_version}"', '']
    out += chunks('upperTable', 'Nat × List Nat', up, row)
    out += chunks('lowerTable', 'Nat × List Nat', lo, row)
    out += chunks('casedRanges', 'Nat × Nat', cased_r, lambda r: f'({r[0]}, {r[1]})')
    out += chunks('ignorableRanges', 'Nat × Nat', ign_r, lambda r: f'({r[0]}, {r[1]})')
    out += chunks('casedPropertyRanges', 'Nat × Nat', full_r, lambda r: f'({r[0]}, {r[1]})')
    out += ['', 'end EPV.Gen.C09']
    gen = LEAN / 'EPV' / 'Gen' / 'C09Case.lean'
    gen.parent.mkdir(exist_ok=True)
    text = '\n'.join(out) + '\n'
    if not gen.exists() or gen.read_text() != text:
        gen.write_text(text)
    return {'unidata_version': unicodedata.unidata_version, 'upper_rows': len(up), 'lower_rows': len(lo),
            'upper_rows_len_ne_1': sorted(c for c, v in up if len(v) != 1)[:200],
            'lower_rows_len_ne_1': sorted(c for c, v in lo if len(v) != 1),
            'cased_ranges': len(cased_r), 'case_ignorable_ranges': len(ign_r),
            'cased_property_ranges': len(full_r),
            'cased_and_case_ignorable_code_points': sum(1 for c in range(N) if full[c] and ign[c]),
            'probe_vs_property_mismatch': probe_mismatch}


def body(run: Run) -> int:
    run.trusted_base += [
        'CPython str primitives as modelled in EPV/Model/Strings.lean (find, in, startswith, endswith, split, '
        'join, translate, slicing, ord/chr, str comparison, encode utf-8, urllib.parse.quote)',
        'exact rational reading of float/Decimal/int arguments (Fraction(value)); float subtraction '
        'value - floor(value) exact',
        'EPV/Spec/FOStrings.lean = our reading of F&O 3.1 sections 4.4.4, 5.2-5.5, 6 and XPath 1.0 section 4.2',
        'libxml2 (through lxml) as second oracle for the XPath 1.0 functions',
        'CPython case mapping tables (str.upper/str.lower per character, Cased/Case_Ignorable) as parameters']
    run.assumptions += [
        'fn:round($start) + fn:round($length) is taken exactly (double addition of two integers is exact below 2^53; '
        'strings are shorter than 2^53 characters)',
        'only the Unicode code-point collation is modelled (locale collations: C19)',
        'arguments are already strings / numbers (atomization and string_value of other types: C10)']
    run.stats.extra['case_tables'] = translate_case_tables(run)
    if run.stats.extra['case_tables']['probe_vs_property_mismatch']:
        run.broken.append('translator:C09 Cased observed through str.lower() != (Lowercase|Uppercase|Lt) minus Case_Ignorable at '
                          + str(run.stats.extra['case_tables']['probe_vs_property_mismatch']))
    run.prove(['EPV.Props.C09', 'EPV.Props.C09Tables', 'EPV.Props.C09Tokenize1'],
              ['EPV.Model.Strings', 'EPV.Spec.FOStrings', 'EPV.Gen.C09Case', 'EPV.Model.StringsTokenize1', 'EPV.Spec.FOTokenize1'])
    if getattr(run, 'replay', None):
        data = json.loads(Path(run.replay).read_text())
        fi = data.get('failing_input') or {}
        case = fi.get('case')
        if isinstance(case, dict) and case.get('op') == 'tok1':
            from harness.c09_tokenize1 import check_cases, make_eval
            a0 = case['args'][0]
            check_cases(run, [None if a0 is None else ''.join(chr(c) for c in a0)], make_eval(err_canon))
        elif isinstance(case, dict) and 'op' in case:
            compare(run, [{'op': case['op'], 'args': case['args']}])
        return run.finish('proof', shrink=None, search=None)
    try:
        correspond(run)
    except DriverError as e:
        run.broken.append('driver:C09 ' + str(e)[:300])
    run.stats.extra['libxml2_expression_shapes'] = dict(sorted(LXML_SHAPES.items()))
    run.stats.extra['libxml2_note'] = ('every listed XPath 1.0 expression was evaluated by libxml2 (lxml.etree.XPath) '
                                       'with the same variable values; results are compared with the Lean spec and '
                                       'with XPath1Parser; inputs libxml2 cannot take (control characters, NUL, '
                                       'surrogates, numbers outside its exact printing window) are counted as libxml2:n/a')
    return run.finish('proof', shrink=shrink, search=search)


if __name__ == '__main__':
    cli(PROP, body, translate=translate_case_tables)

"""
C14 — fn:path / node.path / etree_iter_paths identify each node uniquely.

 prove     : EPV.Props.C14Tables (generated literal table) and EPV.Props.C14 (path_selects_self, path_injective, paths_pairwise_distinct, path_eq_spec,
             etree_paths_agree/complete/select_self, fn_path_fragment, string level: parse_render_*,
             render_injective, path_text_selects_self, path_text_injective; F14f and pinned-tree witnesses)
 correspond: generated XML trees (repeated names, namespaced names through several prefixes, default
             namespace declarations and un-declarations, PIs with arbitrary NCName targets incl.
             repeated targets / targets equal to element names / operator and function names,
             interleaved text / comment siblings, document-level comments and PIs) x {ElementTree,
             lxml} x {document root, element root, fragment}, and documents produced BY THE LIBRARY inside an
             expression (parse-xml, parse-xml-fragment incl. several top-level elements / top-level text =
             get_document_node(replace=True), json-to-xml, analyze-string) used as context root, as variable
             and as argument of fn:path within the same expression.  For EVERY node of the tree:
               impl  = node.path ; fn:path(.) ; nodes selected by evaluating node.path ; by fn:path
               model = the same four computed by the Lean model (pathOf rendered, evalSteps)
               spec  = path prescribed by F&O 3.1 14.6 ; the node itself
             plus etree_iter_paths(root element) with path '.', '' and '/' (strings and what they select),
             pairwise distinctness of the strings, path(.) == path() across the 3.0 / 3.1 parsers,
             path(()) and path of a foreign node empty, a second read of node.path, lazily built trees
             (LazyElementNode), iter_lazy() == iter(), four namespaces= settings of the reading parser
             (none, the document's, hostile, renamed prefixes), and the paths of parent-less nodes.
 search    : exhaustive small trees (<= 5 nodes quick / <= 6 thorough, two element names, two PI targets one
             of which equals an element name, text, comment), lxml + ElementTree, document / element / fragment.
 tags      : the known findings F14f (absolute node.path evaluated in a fragment context) and F14l (node.path evaluated in
             a rooted sub-tree context, op rooted-context-path only) are tagged; F14f on the
             field "nodes selected by node.path" of fragment cases, where the real selection is moreover compared
             with the Lean model of that behaviour (evalAbsInFragment).  Tags of repaired defects were dropped.
 translate : string literals of the anchored functions (ast) -> EPV/Gen/C14Literals.lean; EPV.C14.literals_as_modelled.
"""
from __future__ import annotations

import io
import itertools
import json
import sys
from pathlib import Path

sys.path.insert(0, str(Path(__file__).resolve().parent.parent))
from harness.common import (Run, Disagreement, cli, DriverError)  # noqa: E402

PROP = 'C14'
XML_NS = 'http://www.w3.org/XML/1998/namespace'
FN_NS = 'http://www.w3.org/2005/xpath-functions'

# --------------------------------------------------------------------------------------
# abstract trees (what the generator / shrinker / exhaustive search manipulate)
#   ['e', prefix, local, {prefix: uri}, [[prefix, local], ...], [kids]]
#   ['t', text]   ['c', text]   ['p', target, data]
#   a document: {'pre': [c/p nodes], 'root': e, 'post': [c/p nodes]}
# --------------------------------------------------------------------------------------
URIS = {'p': 'urn:p', 'q': 'urn:q', 'p2': 'urn:p'}        # p and p2: one namespace, two prefixes
DEFAULTS = ['urn:d', 'urn:p', '']                        # '' = xmlns="" (un-declaration)
LOCALS = ['a', 'b', 'x', 'div', 'x-y', 'é.1']
PI_TARGETS = ['a', 'x', 'y', 'pi', 'sin', 'and', 'div', 'contains', 'head', 'text', 'true', 'if', 'x.y',
              'x-y', '_z', 'été', 'b', 'comment', 'attribute', 'child', 'for', 'some', 'sort']
TEXTS = ['t', ' ', 'lorem', '1']


def esc(s: str) -> str:
    return s.replace('&', '&amp;').replace('<', '&lt;').replace('>', '&gt;').replace('"', '&quot;')


def ser(n) -> str:
    k = n[0]
    if k == 't':
        return esc(n[1])
    if k == 'c':
        return f'<!--{n[1]}-->'
    if k == 'p':
        return f'<?{n[1]} {n[2]}?>' if n[2] else f'<?{n[1]}?>'
    _, pfx, loc, decls, attrs, kids = n
    q = f'{pfx}:{loc}' if pfx else loc
    out = [f'<{q}']
    for p, u in decls.items():
        out.append(f' xmlns:{p}="{u}"' if p else f' xmlns="{u}"')
    for i, (ap, al) in enumerate(attrs):
        out.append(f' {ap + ":" if ap else ""}{al}="v{i}"')
    if kids:
        out.append('>')
        out.extend(ser(c) for c in kids)
        out.append(f'</{q}>')
    else:
        out.append('/>')
    return ''.join(out)


def ser_doc(d) -> str:
    return ''.join(ser(x) for x in d['pre']) + ser(d['root']) + ''.join(ser(x) for x in d['post'])


def gen_misc(rng):
    if rng.random() < 0.5:
        return ['c', rng.choice(['c', '', ' x '])]
    return ['p', rng.choice(PI_TARGETS), rng.choice(['', 'd', 'a="1"'])]


def gen_elem(rng, scope: dict, depth: int, budget: list, root=False):
    """scope: prefix -> uri in scope ('' -> default namespace uri or absent)"""
    decls = {}
    scope = dict(scope)
    if root or rng.random() < 0.25:
        for p in rng.sample(sorted(URIS), rng.randint(0, 3 if root else 1)):
            # below the root a prefix is sometimes re-bound to another namespace
            decls[p] = URIS[p] if root or rng.random() < 0.5 else rng.choice(['urn:q', 'urn:p', 'urn:z'])
        if rng.random() < (0.5 if root else 0.25):
            d = rng.choice(DEFAULTS)
            if d or scope.get(''):
                decls[''] = d
    scope.update(decls)
    pfxs = [''] + [p for p in scope if p]
    pfx = rng.choice(pfxs) if rng.random() < 0.6 else ''
    loc = 'r' if root and rng.random() < 0.5 else rng.choice(LOCALS[:rng.choice([2, 2, 4, 6])])
    attrs, seen = [], set()
    for _ in range(rng.choice([0, 0, 1, 2, 3])):
        ap = rng.choice(pfxs) if rng.random() < 0.4 else ''
        al = rng.choice(['a', 'b', 'id'])
        key = (scope.get(ap, '') if ap else '', al)
        if key not in seen:
            seen.add(key)
            attrs.append([ap, al])
    if rng.random() < 0.05 and ('xml', 'space') not in seen:
        attrs.append(['xml', 'space'])
    kids = []
    if depth > 0:
        nk = rng.choice([0, 1, 2, 3, 4, 6, 8, 13]) if budget[0] > 0 else 0
        few_targets = rng.sample(PI_TARGETS, 2)
        for _ in range(nk):
            if budget[0] <= 0:
                break
            budget[0] -= 1
            r = rng.random()
            if r < 0.38:
                kids.append(gen_elem(rng, scope, depth - 1, budget))
            elif r < 0.55:
                kids.append(['t', rng.choice(TEXTS)])
            elif r < 0.68:
                kids.append(['c', rng.choice(['c', ''])])
            else:
                t = rng.choice(few_targets) if rng.random() < 0.7 else rng.choice(PI_TARGETS)
                kids.append(['p', t, rng.choice(['', 'd'])])
    return ['e', pfx, loc, decls, attrs, kids]


def gen_doc(rng, quick=True):
    budget = [rng.choice([4, 8, 14, 22, 30])]
    root = gen_elem(rng, {}, rng.choice([1, 2, 2, 3]), budget, root=True)
    pre = [gen_misc(rng) for _ in range(rng.choice([0, 0, 1, 2]))]
    post = [gen_misc(rng) for _ in range(rng.choice([0, 0, 1, 2]))]
    return {'pre': pre, 'root': root, 'post': post}


FORMS = [('et', 'doc', None), ('et', 'elem', None), ('et', 'elem', True), ('et', 'elem', False),
         ('lxml', 'doc', None), ('lxml', 'elem', None), ('lxml', 'elem', True), ('lxml', 'doc', True),
         ('lxml', 'elem', False), ('lxml', 'sub', None), ('lxml', 'sub', True), ('et', 'sub', None)]


def gen_case(rng, quick=True):
    d = gen_doc(rng, quick)
    lib, form, frag = rng.choice(FORMS)
    if lib == 'et':
        ns = rng.choice([{}, {'p': 'urn:p'}, {'p': 'urn:p', 'q': 'urn:q', '': 'urn:d'}, {'': 'urn:p', 'k': 'urn:k'}])
    else:
        ns = None
    return {'doc': d, 'lib': lib, 'form': form, 'frag': frag, 'ns': ns, 'pns': rng.choice([0, 1, 1, 2, 3]),
            'v31': rng.random() < 0.5, 'popt': rng.choice([0, 0, 1, 2, 3])}


# --------------------------------------------------------------------------------------
# parsed input -> model tree (tokens for the driver) ; independent of elementpath
# --------------------------------------------------------------------------------------
def clark(tag: str):
    if tag[:1] == '{':
        ns, _, loc = tag[1:].partition('}')
        return ns, loc
    return '', tag


def tk(s: str) -> str:
    return s if s else '~'


def model_tokens(node, lib, namespaces, out, kinds):
    """appends the tokens of `node` (an ET / lxml element, comment or PI) and records the
    document-order list of (kind, name) in `kinds`"""
    if callable(node.tag):
        if node.tag.__name__ == 'Comment':
            out.append('C')
            kinds.append(('comment', None))
        else:
            target = node.target if hasattr(node, 'target') else (node.text or '').partition(' ')[0]
            out.extend(['P', tk(target)])
            kinds.append(('pi', target))
        return
    ns, loc = clark(node.tag)
    kinds.append(('elem', node.tag))
    if lib == 'lxml':
        nss = [('xml', XML_NS)] + [(p or '', u) for p, u in node.nsmap.items() if p != 'xml']
    else:
        nss = [('xml', XML_NS)] + [(p or '', u) for p, u in (namespaces or {}).items() if p != 'xml']
    out.extend(['E', tk(ns), tk(loc), str(len(nss))])
    for p, u in nss:
        out.extend([tk(p), tk(u)])
        kinds.append(('ns', p))
    out.append(str(len(node.attrib)))
    for k in node.attrib:
        ans, aloc = clark(k)
        out.extend([tk(ans), tk(aloc)])
        kinds.append(('attr', k))
    sub, kid_kinds, nkids = [], [], 0
    if node.text is not None:
        sub.append('T')
        kid_kinds.append(('text', None))
        nkids += 1
    for ch in node:
        model_tokens(ch, lib, namespaces, sub, kid_kinds)
        nkids += 1
        if ch.tail is not None:
            sub.append('T')
            kid_kinds.append(('text', None))
            nkids += 1
    out.append(str(nkids))
    out.extend(sub)
    kinds.extend(kid_kinds)


def parse_input(case):
    """returns (root object handed to elementpath, root element, is_doc, doc_kids list)"""
    xml = ser_doc(case['doc'])
    lib = case['lib']
    if lib == 'et':
        import xml.etree.ElementTree as ET
        parser = ET.XMLParser(target=ET.TreeBuilder(insert_comments=True, insert_pis=True))
        root = ET.XML(xml, parser)
        obj = ET.ElementTree(root) if case['form'] == 'doc' else root
        doc_kids = [root]
    else:
        import lxml.etree as LE
        root = LE.XML(xml.encode('utf-8'))
        obj = root.getroottree() if case['form'] == 'doc' else root
        doc_kids = list(reversed(list(root.itersiblings(preceding=True)))) + [root] + list(root.itersiblings())
    if case['form'] == 'sub':
        # a sub-element handed over as the root (lxml: it keeps its parent; its tail is not part of the tree)
        subs = [c for c in root if not callable(c.tag)]
        if subs:
            root = obj = subs[0]
            doc_kids = [root]
        else:
            obj = root
    frag = case['frag']
    if frag:
        is_doc = False
    elif case['form'] == 'doc' or frag is False:
        is_doc = True
    else:
        is_doc = lib == 'lxml' and len(doc_kids) > 1
    if not is_doc:
        doc_kids = [root]
    return xml, obj, root, is_doc, doc_kids


# --------------------------------------------------------------------------------------
# documents produced BY THE LIBRARY inside an expression: parse-xml, parse-xml-fragment (well-formed
# documents, several top-level elements, top-level text: the get_document_node(replace=True) branch),
# json-to-xml, analyze-string (an element-rooted result)
# --------------------------------------------------------------------------------------
LIB_EXPR = {'parse-xml': 'parse-xml($a)', 'parse-xml-fragment': 'parse-xml-fragment($a)',
            'json-to-xml': 'json-to-xml($a)', 'analyze-string': 'analyze-string($a, $b)'}


def gen_json(rng, depth=2):
    r = rng.random()
    if depth == 0 or r < 0.35:
        return rng.choice([1, 2.5, 'x', '', True, False, None, 'a b'])
    if r < 0.65:
        return [gen_json(rng, depth - 1) for _ in range(rng.choice([0, 1, 2, 3, 4]))]
    return {k: gen_json(rng, depth - 1) for k in rng.sample(['a', 'b', 'c', 'a b', 'k1'], rng.choice([0, 1, 2, 3]))}


def gen_libcase(rng):
    lib = rng.choice(['et', 'lxml'])
    kind = rng.choice(['parse-xml-fragment'] * 5 + ['parse-xml'] * 2 + ['json-to-xml', 'analyze-string'])
    a, b = '', ''
    if kind == 'parse-xml-fragment':
        budget = [rng.choice([2, 5, 9])]
        kids = []
        for _ in range(rng.choice([0, 1, 2, 2, 3, 4, 5])):
            r = rng.random()
            if r < 0.55:
                kids.append(gen_elem(rng, {}, rng.choice([0, 1, 2]), budget))
            elif r < 0.8:
                kids.append(['t', rng.choice(['top', 'x y', '1', ' '])])
            else:
                kids.append(gen_misc(rng))
        a = ''.join(ser(k) for k in kids)
    elif kind == 'parse-xml':
        d = gen_doc(rng)
        a = ser_doc(d)
    elif kind == 'json-to-xml':
        a = json.dumps(gen_json(rng, 3))
    else:
        a = ''.join(rng.choice('ab1 2') for _ in range(rng.randint(0, 8)))
        b = rng.choice(['[0-9]+', '([a-z])([0-9])', 'a|b', ' '])
    return {'libdoc': {'kind': kind, 'a': a, 'b': b}, 'doc': None, 'lib': lib, 'form': 'lib:' + kind, 'frag': None,
            'ns': None, 'pns': rng.choice([0, 1, 2]), 'v31': True, 'popt': rng.choice([0, 0, 1, 2, 3])}


def wrapper_tokens(kids_text, children, lib, namespaces, toks, kinds):
    """tokens of a document whose children are: leading text, then the etree nodes with their tails"""
    sub, kk, n = [], [], 0
    if kids_text is not None:
        sub.append('T'); kk.append(('text', None)); n += 1
    for ch in children:
        model_tokens(ch, lib, namespaces, sub, kk)
        n += 1
        if ch.tail is not None:
            sub.append('T'); kk.append(('text', None)); n += 1
    kinds.append(('doc', None))
    toks.extend(['D', str(n)])
    toks.extend(sub)
    kinds.extend(kk)


def libdoc_request(case):
    """the library call happens here (its result is the *input* of the path generators); the model tree is
    derived from an independent parse of the argument string (parse-xml / parse-xml-fragment) or from the
    ElementTree the library produced (json-to-xml, analyze-string)"""
    ld, lib = case['libdoc'], case['lib']
    if lib == 'et':
        import xml.etree.ElementTree as etree
    else:
        import lxml.etree as etree
    node, err = None, None
    try:
        from elementpath import XPathContext
        from elementpath.xpath31 import XPath31Parser
        from elementpath.xpath_nodes import DocumentNode, ElementNode
        out = list(XPath31Parser().parse(LIB_EXPR[ld['kind']]).select(
            XPathContext(etree.XML('<x/>'), variables={'a': ld['a'], 'b': ld['b']})))
        if len(out) == 1 and isinstance(out[0], (DocumentNode, ElementNode)):
            node = out[0]
        else:
            err = 'NOT-ONE-NODE:' + repr(out)[:60]
    except Exception as e:
        err = err_text(e)
    ns = None
    if lib == 'et' and node is not None:
        try:
            ns = dict(node.tree.namespaces or {})     # the namespaces= the tree was built with
        except Exception:
            ns = {}
    toks, kinds = [], []
    root, is_doc = None, True
    if ld['kind'] in ('parse-xml', 'parse-xml-fragment'):
        try:
            if lib == 'lxml':
                r = etree.XML(ld['a'].encode('utf-8'))
            else:
                # comments and PIs are kept with ElementTree too (fn:parse-xml always, fn:parse-xml-fragment since fix-c14-4)
                r = etree.XML(ld['a'], etree.XMLParser(target=etree.TreeBuilder(insert_comments=True, insert_pis=True)))
            sibs_before = list(reversed(list(r.itersiblings(preceding=True)))) if lib == 'lxml' else []
            sibs_after = list(r.itersiblings()) if lib == 'lxml' else []
            kk = sibs_before + [r] + sibs_after
            kinds.append(('doc', None))
            toks.extend(['D', str(len(kk))])
            for k in kk:
                model_tokens(k, lib, ns, toks, kinds)
        except Exception:
            if ld['kind'] == 'parse-xml':
                raise
            if lib == 'lxml':
                w = etree.XML(('<document>%s</document>' % ld['a']).encode('utf-8'))
            else:
                w = etree.XML('<document>%s</document>' % ld['a'],
                              etree.XMLParser(target=etree.TreeBuilder(insert_comments=True, insert_pis=True)))
            wrapper_tokens(w.text, list(w), lib, ns, toks, kinds)
    elif node is not None:
        v = node.value
        if hasattr(v, 'getroot'):
            root = v.getroot()
            kinds.append(('doc', None))
            toks.extend(['D', '1'])
            model_tokens(root, lib, ns, toks, kinds)
        else:
            root, is_doc = v, False
            model_tokens(root, lib, ns, toks, kinds)
    else:
        toks, kinds = ['D', '0'], [('doc', None)]
    line = f"root={'doc' if is_doc else 'elem'} tree={','.join(toks)}"
    label = f"{LIB_EXPR[ld['kind']]} a={ld['a']!r} b={ld['b']!r}"
    return line, kinds, (label, node if err is None else RuntimeError(err), root, is_doc)


def request_line(case):
    if case.get('libdoc'):
        return libdoc_request(case)
    xml, obj, root, is_doc, doc_kids = parse_input(case)
    toks, kinds = [], []
    if is_doc:
        kinds.append(('doc', None))
        toks.extend(['D', str(len(doc_kids))])
        for k in doc_kids:
            model_tokens(k, case['lib'], case['ns'], toks, kinds)
    else:
        model_tokens(root, case['lib'], case['ns'], toks, kinds)
    line = f"root={'doc' if is_doc else ('frag' if case['frag'] else 'elem')} tree={','.join(toks)}"
    return line, kinds, (xml, obj, root, is_doc)


# --------------------------------------------------------------------------------------
# implementation side
# --------------------------------------------------------------------------------------
def err_text(e: Exception) -> str:
    try:
        from elementpath.exceptions import ElementPathError
        if isinstance(e, ElementPathError):
            code = getattr(e, 'code', None) or 'none'
            return 'ERR:' + str(code).split(':')[-1]
    except Exception:
        pass
    return 'ERR:OTHER:' + type(e).__name__


def node_kind(n) -> tuple:
    from elementpath import xpath_nodes as xn
    if isinstance(n, xn.DocumentNode):
        return ('doc', None)
    if isinstance(n, xn.ElementNode):
        return ('elem', n.name)
    if isinstance(n, xn.NamespaceNode):
        return ('ns', n.name or '')
    if isinstance(n, xn.AttributeNode):
        return ('attr', n.name)
    if isinstance(n, xn.TextNode):
        return ('text', None)
    if isinstance(n, xn.CommentNode):
        return ('comment', None)
    if isinstance(n, xn.ProcessingInstructionNode):
        return ('pi', n.name)
    return ('?', type(n).__name__)


class _Alarm(BaseException):
    pass


def run_impl(case, parsed):
    """run_impl_inner under a 30 s alarm (a mutated implementation that loops must not hang the check)"""
    import signal

    def on_alarm(signum, frame):
        raise _Alarm()
    old = signal.signal(signal.SIGALRM, on_alarm)
    signal.alarm(30)
    try:
        return run_impl_inner(case, parsed)
    except _Alarm:
        return {'recs': [], 'kinds': [], 'etree': [], 'problems': ['ERR:OTHER:Timeout(30s)']}
    finally:
        signal.alarm(0)
        signal.signal(signal.SIGALRM, old)


def run_impl_inner(case, parsed):
    """returns dict: recs (per node 4-tuple), kinds, etree (list of (idx, path, sel)), extra problems"""
    from elementpath import XPathContext, get_node_tree
    from elementpath.xpath30 import XPath30Parser
    from elementpath.xpath31 import XPath31Parser
    from elementpath.xpath_nodes import DocumentNode, XPathNode
    from elementpath.etree import etree_iter_paths
    xml, obj, root, is_doc = parsed
    frag = case['frag']
    res = {'recs': [], 'kinds': [], 'etree': [], 'problems': []}
    if isinstance(obj, Exception):
        res['problems'].append('library document: ' + str(obj))
        return res
    try:
        tree = get_node_tree(obj, namespaces=case['ns'], fragment=frag)
        nodes = list(tree.iter())
    except Exception as e:
        res['problems'].append('tree:' + err_text(e))
        return res
    index = {id(n): i for i, n in enumerate(nodes)}
    res['kinds'] = [node_kind(n) for n in nodes]
    if root is None:
        pns = {}
    elif case['lib'] == 'lxml':
        pns = {(k or ''): v for k, v in root.nsmap.items()}
    else:
        pns = dict(case['ns'] or {})
    # namespaces= of the parser that reads the path back: 0 none, 1 the document's, 2 hostile (another default
    # namespace, the document's prefixes bound to other URIs), 3 the document's URIs under other prefixes
    mode = int(case['pns'])
    if mode == 0:
        pns = {}
    elif mode == 2:
        pns = dict({k: 'urn:hostile:' + (k or 'default') for k in pns if k != 'xml'}, **{'': 'urn:other-default'})
    elif mode == 3:
        pns = {f'zz{i}': v for i, (k, v) in enumerate(sorted(pns.items())) if v and k != 'xml'}
    P1, P2 = (XPath31Parser, XPath30Parser) if case['v31'] else (XPath30Parser, XPath31Parser)

    def idx(item) -> str:
        if isinstance(item, XPathNode):
            i = index.get(id(item))
            if i is not None:
                return str(i)
            return 'D' if isinstance(item, DocumentNode) else 'X'
        return 'V'

    # ONE parser instance per (class, namespaces) for the whole run, and ONE parsed token per fixed expression:
    # the same parser parses every path text, the same `path(.)` token is evaluated on every node of every tree
    # constructor options of the reading parser: 0 defaults, 1 strict=False, 2 another default_namespace=,
    # 3 both (a generated path must read the same way and select the same node under all of them)
    popt = int(case.get('popt', 0))
    pkw = {}
    if popt in (1, 3):
        pkw['strict'] = False
    if popt in (2, 3):
        pkw['default_namespace'] = 'urn:parser-default'
    pkey = (popt,) + tuple(sorted(pns.items()))

    def parser_of(P):
        k = (P.__name__, pkey)
        if k not in _PARSERS:
            _PARSERS[k] = P(namespaces=dict(pns), **pkw)
        return _PARSERS[k]

    def token_of(P, expr):
        k = (P.__name__, pkey, expr)
        if k not in _TOKENS:
            _TOKENS[k] = parser_of(P).parse(expr)
        return _TOKENS[k]

    trees = {}

    def evaluate(P, expr, item=None) -> str:
        try:
            ctx = XPathContext(tree, item=item, fragment=frag)
            tok = parser_of(P).parse(expr)
            trees[(P.__name__, expr)] = tok.tree
            out = [idx(x) for x in tok.select(ctx)]
            return ','.join(out) if out else '-'
        except Exception as e:
            return err_text(e)

    def fnpath(P, n, expr='path(.)') -> str:
        try:
            tok = token_of(P, expr)
            out = list(tok.select(XPathContext(tree, item=n, fragment=frag)))
            ev = tok.evaluate(XPathContext(tree, item=n, fragment=frag))       # the other public evaluation path
            if (ev if isinstance(ev, list) else [ev]) != out:
                res['problems'].append(f'{expr}: evaluate() gave {ev!r:.80}, select() gave {out!r:.80}')
            if len(out) == 1 and isinstance(out[0], str):
                return out[0]
            return 'NOT-ONE-STRING:' + repr(out)[:60]
        except Exception as e:
            return err_text(e)

    for n in nodes:
        try:
            p = n.path
            if not isinstance(p, str):
                p = 'NOT-STR:' + repr(p)[:40]
        except Exception as e:
            p = err_text(e)
        fp = fnpath(P1, n)
        fp2 = fnpath(P2, n, 'path()')          # context item form, the other parser version
        if fp != fp2:
            res['problems'].append(f'path(.) with one 3.x parser and path() with the other differ: {fp!r} {fp2!r}')
        sel = evaluate(P1, p)
        selfn = evaluate(P2, fp) if not fp.startswith(('ERR', 'NOT-')) else fp
        res['recs'].append((p, fp, sel, selfn, trees.get((P1.__name__, p), 'NO-TREE'),
                            trees.get((P2.__name__, fp), 'NO-TREE')))
        try:
            if n.path != p:                    # second read on the same object, after it has been evaluated
                res['problems'].append(f'node.path changed between two reads: {p!r} {n.path!r}')
        except Exception as e:
            res['problems'].append('second read of node.path: ' + err_text(e))
    # the public high-level API on the original ElementTree / lxml object: select(), Selector.select/iter_select
    if not case.get('libdoc') and obj is not None:
        try:
            import elementpath as _ep
            from elementpath.xpath_nodes import ElementNode as _EN
            elems = [(i, n) for i, n in enumerate(nodes) if isinstance(n, _EN)]
            step = max(1, len(elems) // 3)
            for i, n in elems[::step][:3]:
                p = res['recs'][i][0]
                kw = {'fragment': frag} if frag is not None else {}
                r1 = _ep.select(obj, p, namespaces=dict(pns), parser=P1, **kw)
                sel_ = _ep.Selector(p, namespaces=dict(pns), parser=P2)
                r2 = sel_.select(obj, **kw)
                r3 = list(sel_.iter_select(obj, **kw))
                want = [] if frag else [n.value]
                for nm, r in (('select', r1), ('Selector.select', r2), ('Selector.iter_select', r3)):
                    if not frag and not (len(r) == 1 and r[0] is n.value):
                        res['problems'].append(f'{nm}(root, {p!r}) gave {r!r:.80}, expected the element itself')
        except Exception as e:
            res['problems'].append('high-level select of node.path: ' + err_text(e))
    # fn:path(()) is the empty sequence; fn:path of a node of ANOTHER tree (not under the context root) is that
    # node's path in its own tree (F&O 3.1 14.6 has no "context root" condition)
    try:
        out = list(P1(namespaces=pns).parse('path(())').select(XPathContext(tree, fragment=frag)))
        if out != []:
            res['problems'].append(f'path(()) gave {out!r:.60}')
        if not case.get('libdoc'):
            other = get_node_tree(obj, namespaces=case['ns'], fragment=frag)
            onodes = list(other.iter())
            if other is not tree and len(onodes) == len(nodes):
                for j in sorted({0, len(onodes) // 2, len(onodes) - 1}):
                    got = list(P1(namespaces=pns).parse('path(.)').select(XPathContext(tree, item=onodes[j], fragment=frag)))
                    if got != [res['recs'][j][1]]:
                        res['problems'].append(f'path(.) of node {j} of another tree (same input) gave {got!r:.80}, '
                                               f'expected {res["recs"][j][1]!r:.80}')
                    # ... and that path, evaluated against the node's OWN tree, selects it (per-tree statement)
                    back = list(P2(namespaces=pns).parse(res['recs'][j][1]).select(XPathContext(other, fragment=frag))) \
                        if not res['recs'][j][1].startswith(('ERR', 'NOT-')) else None
                    if back is not None and not (len(back) == 1 and back[0] is onodes[j]):
                        res['problems'].append(f'path of node {j} of the second tree, evaluated in that tree, selects '
                                               f'{[index.get(id(x), type(x).__name__) for x in back]!r:.80}')
                # THREE trees in ONE evaluation: the context tree, a second tree of the same shape ($o) and a small
                # unrelated tree ($c, element- or document-rooted): every node gets the path of its own tree
                import xml.etree.ElementTree as _ET
                import lxml.etree as _LE
                zt = (_ET if case['lib'] == 'et' else _LE)
                zroot = zt.XML('<z><y/>t</z>')
                zdoc = len(nodes) % 2 == 0
                ctree = get_node_tree(zt.ElementTree(zroot) if zdoc else zroot)
                rootp = f'Q{{{FN_NS}}}root()'
                cexp = ['/', '/Q{}z[1]', '/Q{}z[1]/Q{}y[1]', '/Q{}z[1]/text()[1]'] if zdoc else \
                    [rootp, rootp + '/Q{}y[1]', rootp + '/text()[1]']
                own = [r[1] for r, kd in zip(res['recs'], res['kinds']) if kd[0] in ('doc', 'elem', 'text', 'comment', 'pi')]
                expr = '($o/descendant-or-self::node(), $c/descendant-or-self::node(), descendant-or-self::node()) ! path(.)'
                got = list(P2(namespaces=pns).parse(expr).select(
                    XPathContext(tree, fragment=frag, variables={'o': other, 'c': ctree})))
                if got != own + cexp + own:
                    res['problems'].append(f'three trees in one evaluation: {expr} gave {got!r:.300} expected {own + cexp + own!r:.300}')
                else:
                    res['forest'] = len(got)
    except Exception as e:
        res['problems'].append('fn:path on () / foreign node: ' + err_text(e))
    # a library-produced document used inside one expression: the paths of all its nodes, in document order
    if case.get('libdoc'):
        try:
            import xml.etree.ElementTree as _ET
            import lxml.etree as _LE
            ld = case['libdoc']
            xroot = (_ET if case['lib'] == 'et' else _LE).XML('<x/>')
            expected = [r[1] for r, kd in zip(res['recs'], res['kinds']) if kd[0] in ('doc', 'elem', 'text', 'comment', 'pi')]
            call = LIB_EXPR[ld['kind']]
            # node() matches every node, the document node included (XPath 3.1 2.5.5.1 / 3.3.2.2; fix-c14-4)
            exprs = [('$d/descendant-or-self::node()/path()', expected),
                     ('($d, $d//node())/self::node()/path()', expected),
                     (call + '/descendant-or-self::node() ! path(.)', expected),
                     (f'let $e := {call} return $e//node()/path()', expected[1:]),
                     (f'let $e := {call} return $e/self::node()/path()', expected[:1])]
            for expr, exp in exprs:
                got = list(P1(namespaces=pns).parse(expr).select(
                    XPathContext(xroot, variables={'d': tree, 'a': ld['a'], 'b': ld['b']})))
                if got != exp:
                    res['problems'].append(f'{expr} gave {got!r:.200} expected {exp!r:.200}')
        except Exception as e:
            res['problems'].append('library document inside one expression: ' + err_text(e))
    # the same tree iterated without building lazy components must be the same node sequence
    try:
        if [id(x) for x in tree.iter_lazy()] != [id(x) for x in nodes]:
            res['problems'].append('iter_lazy() differs from iter() after a full build')
    except Exception as e:
        res['problems'].append('iter_lazy:' + err_text(e))
    # a lazily built tree (LazyElementNode): same paths, each selecting its node
    res['lazy'] = None
    if not is_doc and not frag and not case.get('libdoc') and (case['lib'] == 'lxml' or not case['ns']):
        try:
            from elementpath import LazyElementNode
            from elementpath.xpath_nodes import ElementNode

            def walk(n):
                yield n
                if isinstance(n, ElementNode):
                    yield from n.namespace_nodes
                    yield from n.attributes
                    for c in n:
                        yield from walk(c)
            lazy = LazyElementNode(root)
            lnodes = list(walk(lazy))
            lidx = {id(n): i for i, n in enumerate(lnodes)}
            out = []
            for n in lnodes:
                p = n.path
                try:
                    r = [str(lidx.get(id(x), 'X')) for x in P1(namespaces=pns).parse(p).select(XPathContext(lazy))]
                    out.append((p, ','.join(r) if r else '-'))
                except Exception as e:
                    out.append((p, err_text(e)))
            res['lazy'] = out
            res['lazy_kinds'] = [node_kind(n) for n in lnodes]
        except Exception as e:
            res['problems'].append('lazy:' + err_text(e))
    # etree_iter_paths on the root element
    if root is None:
        res['etree'] = None
        return res
    try:
        rnode = tree if not isinstance(tree, DocumentNode) else tree.getroot()
        elem_index = {}
        for i, n in enumerate(nodes):
            v = getattr(n, 'value', None)
            if v is not None and not isinstance(v, (str, bytes)) and hasattr(v, 'tag'):
                elem_index[id(v)] = i
        for e, path in etree_iter_paths(root):
            i = elem_index.get(id(e))
            res['etree'].append((str(i) if i is not None else 'X', path, evaluate(P1, path, item=rnode)))
        # the other two forms of the `path` argument: '' (relative, no './') and '/' (the element stands for
        # the root of the tree: what a leading '/' means in a fragment context)
        res['etree_rel'] = [(str(elem_index.get(id(e), 'X')), path, evaluate(P2, path, item=rnode) if path else '')
                            for e, path in etree_iter_paths(root, '')]
        if not is_doc:
            def eval_frag(expr):
                try:
                    out = [idx(x) for x in P2(namespaces=pns).parse(expr).select(XPathContext(tree, fragment=True))]
                    return ','.join(out) if out else '-'
                except Exception as e:
                    return err_text(e)
            res['etree_abs'] = [(str(elem_index.get(id(e), 'X')), path, eval_frag(path) if path != '/' else '')
                                for e, path in etree_iter_paths(root, '/')]
    except Exception as e:
        res['problems'].append('etree_iter_paths:' + err_text(e))
    return res


# --------------------------------------------------------------------------------------
# trigger predicates of the defects (computed from the input only)
# --------------------------------------------------------------------------------------
def triggers(kinds, rel, k, case=None) -> list[str]:
    """tags of known findings whose trigger holds for node k.  The defects F14a-e, F14g, F14h are repaired in the
    reference tree, their trigger tags were dropped in phase 3; F14f is tagged where it applies (fragment cases)."""
    return []


_reserved_cache: dict = {}
_PARSERS: dict = {}
_TOKENS: dict = {}


def reserved_target(name: str) -> bool:
    """the 3.x parser lexes `name` as a token that is neither a name nor an XPathFunction/XPathAxis
    (an operator keyword or a ProxyToken of a prefixed function)"""
    if 'tbl' not in _reserved_cache:
        from elementpath.xpath31 import XPath31Parser
        from elementpath.xpath_tokens import XPathFunction, XPathAxis
        t = XPath31Parser().symbol_table
        _reserved_cache['tbl'] = {s for s, c in t.items() if not issubclass(c, (XPathFunction, XPathAxis))}
    return name in _reserved_cache['tbl']


def sibling_map(kinds_tokens_line: str):
    """child lists per node index, recomputed from the request line's token stream"""
    toks = kinds_tokens_line.split('tree=', 1)[1].split(',')
    pos = 0
    counter = [0]
    sibs: dict[int, list[int]] = {}
    parent: dict[int, int] = {}

    def node():
        nonlocal pos
        t = toks[pos]
        me = counter[0]
        counter[0] += 1
        if t in ('T', 'C'):
            pos += 1
            return me
        if t == 'P':
            pos += 2
            return me
        assert t == 'E', t
        n = int(toks[pos + 3])
        pos += 4 + 2 * n
        m = int(toks[pos])
        pos += 1 + 2 * m
        for a in range(me + 1, me + 1 + n + m):
            parent[a] = me
        counter[0] += n + m
        k = int(toks[pos])
        pos += 1
        kids = [node() for _ in range(k)]
        for c in kids:
            sibs[c] = kids
            parent[c] = me
        return me

    if toks[0] == 'D':
        counter[0] = 1
        k = int(toks[1])
        pos = 2
        kids = [node() for _ in range(k)]
        for c in kids:
            sibs[c] = kids
            parent[c] = 0
    else:
        node()
    return sibs, parent


# --------------------------------------------------------------------------------------
# correspondence
# --------------------------------------------------------------------------------------
def parse_answer(ans: str):
    f = {}
    for part in ans.split(' '):
        k, _, v = part.partition('=')
        f[k] = v
    def recs(s):
        return [] if s == '-' else [tuple(x.replace('\t', ' ') for x in r.split(';')) for r in s.split('|')]
    return recs(f['model']), recs(f['spec']), recs(f['etree']), recs(f['especs']), f.get('wf'), recs(f['evariants'])


# --------------------------------------------------------------------------------------
# phase 5: lazily built trees.  A fresh LazyElementNode(root) per walk; a node is reached by `for c in node:`
# at every level (LazyElementNode.__iter__ builds the children on demand), then: the nodes iter_lazy() yields
# on the tree as it stands with their paths, the reached node's path, what it selects in XPathContext(lazy),
# the fully built tree.  Model: EPV/Model/LazyPath.lean (`reach`, `iterLazy`, `view`, `eager`), theorems
# EPV.C14.lazy_* (Props/C14Lazy.lean).  The ElementTree tokens are written here, independently of elementpath.
# --------------------------------------------------------------------------------------
def etree_tokens(node, lib, namespaces, out):
    tail = '1' if node.tail is not None else '0'
    if callable(node.tag):
        if node.tag.__name__ == 'Comment':
            out.extend(['C', tail])
        else:
            target = node.target if hasattr(node, 'target') else (node.text or '').partition(' ')[0]
            out.extend(['P', tk(target), tail])
        return
    ns, loc = clark(node.tag)
    if lib == 'lxml':
        nss = [('xml', XML_NS)] + [(p or '', u) for p, u in node.nsmap.items() if p != 'xml']
    else:
        nss = [('xml', XML_NS)] + [(p or '', u) for p, u in (namespaces or {}).items() if p != 'xml']
    out.extend(['E', tk(ns), tk(loc), str(len(nss))])
    for p, u in nss:
        out.extend([tk(p), tk(u)])
    out.append(str(len(node.attrib)))
    for k in node.attrib:
        ans, aloc = clark(k)
        out.extend([tk(ans), tk(aloc)])
    out.extend(['1' if node.text is not None else '0', tail, str(len(node))])
    for ch in node:
        etree_tokens(ch, lib, namespaces, out)


def xdm_kids(elem):
    """children of the XDM element for an ElementTree element: None = text node"""
    out = [None] if elem.text is not None else []
    for ch in elem:
        out.append(ch)
        if ch.tail is not None:
            out.append(None)
    return out


def lazy_walks(xml, root):
    """deterministic per input (the shrinker re-runs it): three walks, some ending out of range"""
    import random
    import zlib
    rng = random.Random(zlib.crc32(xml.encode('utf-8')))
    walks = []
    for _ in range(3):
        w, node = [], root
        for _ in range(rng.randrange(0, 5)):
            if node is None or callable(node.tag):
                break
            kids = xdm_kids(node)
            if not kids or rng.random() < 0.08:
                w.append(len(kids) + rng.randrange(0, 2))     # out of range: the walk stops at `node`
                break
            # prefer element children so that walks get deep, and late siblings so that positions are > 1
            elems = [i for i, k in enumerate(kids) if k is not None and not callable(k.tag)]
            i = rng.choice(elems) if elems and rng.random() < 0.6 else rng.randrange(len(kids))
            w.append(i)
            node = kids[i]
        walks.append(w)
    return walks


def show_ip(ip):
    return '.'.join(map(str, ip)) if ip else '-'


def lazy_impl(case, root, walk, pns):
    """(built text, target text, full kinds, eager kinds) of the real code; every exception canonicalised"""
    from elementpath import LazyElementNode, XPathContext, get_node_tree
    from elementpath.xpath30 import XPath30Parser
    from elementpath.xpath31 import XPath31Parser
    from elementpath.xpath_nodes import ElementNode, AttributeNode, NamespaceNode, TextNode, CommentNode

    def letter(n):
        return 'E' if isinstance(n, ElementNode) else 'T' if isinstance(n, TextNode) else \
            'C' if isinstance(n, CommentNode) else 'P'

    def ip_of(n, lazy):
        ip = []
        while n is not lazy:
            if n is None or n.parent is None:
                return ['X']
            pos = [k for k, c in enumerate(n.parent.children) if c is n]
            ip.append(pos[0] if pos else 'X')
            n = n.parent
        return ip[::-1]

    lazy = LazyElementNode(root)
    node = lazy
    for i in walk:
        if not isinstance(node, ElementNode):
            break
        kids = list(node)                   # LazyElementNode.__iter__
        if i >= len(kids):
            break
        node = kids[i]
    extra = 0
    built = []
    for n in lazy.iter_lazy():
        if isinstance(n, (AttributeNode, NamespaceNode)):
            extra += 1
            continue
        try:
            pth = n.path
        except Exception as e:
            pth = err_text(e)
        built.append(f'{show_ip(ip_of(n, lazy))};{letter(n)};{pth}')
    tip = show_ip(ip_of(node, lazy))
    try:
        tpath = node.path
        P = XPath31Parser if case['v31'] else XPath30Parser
        got = list(P(namespaces=pns).parse(tpath).select(XPathContext(lazy)))
        sel = ','.join('D' if x is not lazy and getattr(x, 'parent', 0) is None else show_ip(ip_of(x, lazy))
                       for x in got) if got else 'NIL'
    except Exception as e:
        tpath, sel = locals().get('tpath', '?'), err_text(e)

    def walk_all(n):
        yield letter(n)
        if isinstance(n, ElementNode):
            for c in n:
                yield from walk_all(c)
    full = ''.join(walk_all(lazy))
    try:
        en = get_node_tree(root, namespaces=case['ns'], fragment=True)
        eager = ''.join(letter(n) for n in en.iter_descendants())
    except Exception as e:
        eager = err_text(e)
    return '|'.join(built), (tip, tpath, sel), full, eager, extra


def lazy_compare(run: Run, prepared: list, count=True) -> None:
    jobs = []
    for case, line, kinds, parsed in prepared:
        if case.get('libdoc') or case.get('doc') is None:
            continue
        if not (case['lib'] == 'lxml' or not case['ns']):
            continue
        xml, root = parsed[0], parsed[2]
        if root is None or callable(root.tag):
            continue
        toks = []
        etree_tokens(root, case['lib'], case['ns'], toks)
        for w in lazy_walks(xml, root):
            jobs.append((case, xml, root, w, f"lazy={','.join(toks)} walk={show_ip(w)}"))
    if not jobs:
        return
    answers = run.driver('C14', [j[4] for j in jobs])
    st = run.stats
    for (case, xml, root, w, line), ans in zip(jobs, answers):
        base = {'xml': xml, 'lib': case['lib'], 'form': case['form'], 'frag': case['frag'], 'ns': case['ns'],
                'parser_ns': case['pns'], 'v31_first': case['v31'], 'doc': case['doc'],
                'parser_options': case.get('popt', 0), 'lazy_walk': w}
        f = dict(x.split('=', 1) for x in ans.split(' ') if '=' in x)
        if ans.startswith('bad-') or not {'built', 'target', 'eager', 'full'} <= set(f):
            run.disagree(Disagreement(base, 'driver:' + ans[:200], what='protocol'))
            continue
        pns = {(k or ''): v for k, v in root.nsmap.items()} if case['lib'] == 'lxml' else dict(case['ns'] or {})
        if int(case['pns']) == 0:
            pns = {}
        try:
            built, (tip, tpath, sel), full, eager, extra = lazy_impl(case, root, w, pns)
        except Exception as e:
            run.disagree(Disagreement(base, err_text(e), f['target'], spec=f['target'], what='lazy-walk',
                                      site='LazyElementNode.__iter__ / iter_lazy'))
            continue
        mtip, mlazy, meager, mselv, msele = f['target'].split(';')
        # spec: the path of the same node in the eagerly built tree, which selects exactly that node
        d_impl, d_model, d_spec = f'{tip};{tpath};{sel}', f'{mtip};{mlazy};{mselv}', f'{mtip};{meager};{mtip}'
        if not (d_impl == d_model == d_spec) or msele != mtip:
            run.disagree(Disagreement(base, d_impl, d_model, spec=d_spec, what='lazy-walk-path',
                                      site='LazyElementNode.__iter__ / ElementNode.path on a partially built tree'))
        if built != f['built']:
            run.disagree(Disagreement(base, built[:1500], f['built'][:1500], spec=f['built'][:1500], what='lazy-built-nodes',
                                      site='ElementNode.iter_lazy on a partially built LazyElementNode tree'))
        if not (full == f['full'] == f['eager']):
            run.disagree(Disagreement(base, full, f['full'], spec=f['eager'], what='lazy-full-build',
                                      site='LazyElementNode.__iter__ (all levels) vs. the eagerly built tree'))
        if eager != f['eager']:
            run.disagree(Disagreement(base, eager, f['eager'], spec=f['eager'], what='eager-tree-kinds',
                                      site='tree_builders (eager) vs. model `eager`'))
        if count:
            nb, nf = built.count('|') + 1, len(full)
            st.count('lazy-walk:cases')
            st.count(f"lazy-walk:lib={case['lib']}")
            st.count(f'lazy-walk:depth={len(tip.split(".")) if tip != "-" else 0}')
            st.count('lazy-walk:target-kind=' + (dict(x.split(';')[:2] for x in built.split('|')).get(tip, '?')))
            st.count('lazy-walk:' + ('walk-stopped-out-of-range-or-at-leaf' if show_ip(w) != tip else 'walk-completed'))
            st.count('lazy-walk:' + ('tree-partially-built' if nb < nf else 'tree-fully-built'))
            st.count('lazy-walk:built-nodes', nb)
            if extra:
                st.count('lazy-walk:attribute-or-namespace-nodes-yielded-by-iter_lazy', extra)
            if tpath.rstrip(']').rsplit('[', 1)[-1] not in ('1', tpath):
                st.count('lazy-walk:target-position>1')


# --------------------------------------------------------------------------------------
# phase 5, second item: a HISTORY of 2-6 walks on ONE LazyElementNode tree (each walk builds more, in place).
# After every walk: the reached node's path and the number of nodes iter_lazy() yields; after the last one: every
# built node with its path, each target's path re-read (must not have changed) and evaluated back.
# Model: EPV/Model/LazyHist.lean (`reachMany`, `Good`), theorems EPV.C14.lazy_hist_* (Props/C14LazyHist.lean).
# --------------------------------------------------------------------------------------
def lazy_history(xml, root):
    import random
    import zlib
    rng = random.Random(zlib.crc32(('history:' + xml).encode('utf-8')))
    n = rng.randrange(2, 7)
    walks = []
    for _ in range(n):
        w, node = [], root
        if walks and rng.random() < 0.25:           # extend / repeat an earlier walk: re-enters built levels
            w = list(rng.choice(walks))[:rng.randrange(0, 5)]
            for i in w:
                kids = xdm_kids(node) if node is not None and not callable(node.tag) else []
                node = kids[i] if i < len(kids) else None
                if node is None:
                    break
        for _ in range(rng.choice((0, 1, 1, 2, 2, 3, 4))):
            if node is None or callable(node.tag):
                break
            kids = xdm_kids(node)
            if not kids or rng.random() < 0.06:
                w.append(len(kids) + rng.randrange(0, 2))
                break
            elems = [i for i, k in enumerate(kids) if k is not None and not callable(k.tag)]
            i = rng.choice(elems) if elems and rng.random() < 0.6 else rng.randrange(len(kids))
            w.append(i)
            node = kids[i]
        walks.append(w)
    return walks


def lazy_history_impl(case, root, walks, pns):
    from elementpath import LazyElementNode, XPathContext
    from elementpath.xpath30 import XPath30Parser
    from elementpath.xpath31 import XPath31Parser
    from elementpath.xpath_nodes import ElementNode, AttributeNode, NamespaceNode, TextNode, CommentNode

    def letter(n):
        return 'E' if isinstance(n, ElementNode) else 'T' if isinstance(n, TextNode) else \
            'C' if isinstance(n, CommentNode) else 'P'

    def ip_of(n, lazy):
        ip = []
        while n is not lazy:
            if n is None or n.parent is None:
                return ['X']
            pos = [k for k, c in enumerate(n.parent.children) if c is n]
            ip.append(pos[0] if pos else 'X')
            n = n.parent
        return ip[::-1]

    def safe_path(n):
        try:
            return n.path
        except Exception as e:
            return err_text(e)

    lazy = LazyElementNode(root)
    reached, counts = [], []
    for walk in walks:
        node = lazy
        for i in walk:
            if not isinstance(node, ElementNode):
                break
            kids = list(node)                   # LazyElementNode.__iter__ on the SAME tree
            if i >= len(kids):
                break
            node = kids[i]
        reached.append((node, safe_path(node)))
        counts.append(sum(1 for n in lazy.iter_lazy() if not isinstance(n, (AttributeNode, NamespaceNode))))
    built = [f'{show_ip(ip_of(n, lazy))};{letter(n)};{safe_path(n)}' for n in lazy.iter_lazy()
             if not isinstance(n, (AttributeNode, NamespaceNode))]
    nbuilt = len(built)
    P = XPath31Parser if case['v31'] else XPath30Parser
    parser = P(namespaces=pns)
    targets, changed = [], 0
    for node, pth in reached:
        again = safe_path(node)                 # re-read after all later walks
        if again != pth:
            changed += 1
            pth = f'{pth}->{again}'
        try:
            got = list(parser.parse(again).select(XPathContext(lazy)))
            sel = ','.join('D' if x is not lazy and getattr(x, 'parent', 0) is None else show_ip(ip_of(x, lazy))
                           for x in got) if got else 'NIL'
        except Exception as e:
            sel = err_text(e)
        targets.append((show_ip(ip_of(node, lazy)), pth, sel))

    def walk_all(n):
        yield letter(n)
        if isinstance(n, ElementNode):
            for c in n:
                yield from walk_all(c)
    full = ''.join(walk_all(lazy))
    return '|'.join(built), targets, ','.join(map(str, counts)), full, nbuilt


def lazy_history_compare(run: Run, prepared: list, count=True) -> None:
    jobs = []
    for case, line, kinds, parsed in prepared:
        if case.get('libdoc') or case.get('doc') is None:
            continue
        if not (case['lib'] == 'lxml' or not case['ns']):
            continue
        xml, root = parsed[0], parsed[2]
        if root is None or callable(root.tag):
            continue
        toks = []
        etree_tokens(root, case['lib'], case['ns'], toks)
        ws = lazy_history(xml, root)
        jobs.append((case, xml, root, ws, f"lazy={','.join(toks)} walks={'/'.join(show_ip(w) for w in ws)}"))
    if not jobs:
        return
    answers = run.driver('C14', [j[4] for j in jobs])
    st = run.stats
    for (case, xml, root, ws, line), ans in zip(jobs, answers):
        base = {'xml': xml, 'lib': case['lib'], 'form': case['form'], 'frag': case['frag'], 'ns': case['ns'],
                'parser_ns': case['pns'], 'v31_first': case['v31'], 'doc': case['doc'],
                'parser_options': case.get('popt', 0), 'lazy_history': ws}
        f = dict(x.split('=', 1) for x in ans.split(' ') if '=' in x)
        if ans.startswith('bad-') or not {'built', 'targets', 'counts', 'good', 'eager', 'full'} <= set(f):
            run.disagree(Disagreement(base, 'driver:' + ans[:200], what='protocol'))
            continue
        pns = {(k or ''): v for k, v in root.nsmap.items()} if case['lib'] == 'lxml' else dict(case['ns'] or {})
        if int(case['pns']) == 0:
            pns = {}
        try:
            built, targets, counts, full, nbuilt = lazy_history_impl(case, root, ws, pns)
        except Exception as e:
            run.disagree(Disagreement(base, err_text(e), f['targets'][:600], spec=f['targets'][:600], what='lazy-history',
                                      site='LazyElementNode.__iter__ / iter_lazy'))
            continue
        mt = [x.split(';') for x in f['targets'].split('|')]
        d_impl = '|'.join(';'.join(t) for t in targets)
        d_model = '|'.join(f'{m[0]};{m[1]};{m[3]}' for m in mt)       # path right after the walk, selection in the final state
        d_spec = '|'.join(f'{m[0]};{m[2]};{m[0]}' for m in mt)        # eager path, selects exactly the node
        if not (d_impl == d_model == d_spec) or any(m[4] != m[0] for m in mt) or f['good'] != '1':
            run.disagree(Disagreement(base, d_impl[:1500], d_model[:1500], spec=d_spec[:1500], what='lazy-history-paths',
                                      site='LazyElementNode.__iter__ called repeatedly on one tree / ElementNode.path'))
        if built != f['built'] or counts != f['counts']:
            run.disagree(Disagreement(base, (counts + ' ' + built)[:1500], (f['counts'] + ' ' + f['built'])[:1500],
                                      spec=(f['counts'] + ' ' + f['built'])[:1500], what='lazy-history-built-nodes',
                                      site='ElementNode.iter_lazy after each walk of a history'))
        if not (full == f['full'] == f['eager']):
            run.disagree(Disagreement(base, full, f['full'], spec=f['eager'], what='lazy-history-full-build',
                                      site='LazyElementNode.__iter__ (rest of the tree after a history)'))
        if count:
            st.count('lazy-history:cases')
            st.count(f"lazy-history:lib={case['lib']}")
            st.count(f'lazy-history:walks={len(ws)}')
            st.count('lazy-history:walks-total', len(ws))
            st.count('lazy-history:' + ('tree-partially-built' if nbuilt < len(full) else 'tree-fully-built'))
            cs = counts.split(',')
            st.count('lazy-history:walks-that-built-something', sum(1 for a, b in zip(['1'] + cs, cs) if a != b))
            st.count('lazy-history:walks-entirely-inside-built-part', sum(1 for a, b in zip(['1'] + cs, cs) if a == b))
            st.count('lazy-history:max-depth=%d' % max(0 if t[0] == '-' else len(t[0].split('.')) for t in targets))
            st.count('lazy-history:targets-position>1',
                     sum(1 for t in targets if t[1].rstrip(']').rsplit('[', 1)[-1] not in ('1', t[1])))
            st.count('lazy-history:built-nodes', nbuilt)


# --------------------------------------------------------------------------------------
# phase 5: ROOTED SUB-TREES.  The node tree of the whole input; the dynamic context on an element node that has an
# element parent (XPathContext(root=sub), `is_rooted_subtree()`); for every node of the sub-tree: node.path, fn:path,
# and what each selects in that same context.  Model: EPV/Model/RootedPath.lean (`evalAbsRooted`, `evalRootFnRooted`,
# `fnPathRooted`, trigger `rootedCtx`); fn:path at full strength (EPV.C14.rooted_fn_path_selects_self, fix-c14-6); node.path is
# finding F14l (EPV.C14.rooted_abs_path_never_selects).
# --------------------------------------------------------------------------------------
def rooted_compare(run: Run, prepared: list, count=True) -> None:
    import zlib
    from elementpath import XPathContext, get_node_tree
    from elementpath.xpath31 import XPath31Parser
    from elementpath.xpath_nodes import DocumentNode, ElementNode
    jobs = []
    for case, line, kinds, parsed in prepared:
        if case.get('libdoc') or case.get('doc') is None or case['frag'] is not None or not line.startswith('root='):
            continue
        xml, obj = parsed[0], parsed[1]
        try:
            tree = get_node_tree(obj, namespaces=case['ns'])
            subs = [n for n in tree.iter() if isinstance(n, ElementNode) and isinstance(n.parent, ElementNode)]
        except Exception as e:
            run.disagree(Disagreement({'xml': xml, 'lib': case['lib']}, err_text(e), 'tree', spec='tree', what='rooted-context'))
            continue
        if not subs:
            continue
        h = zlib.crc32(xml.encode('utf-8'))
        for sub in {id(x): x for x in (subs[h % len(subs)], subs[(h // 7) % len(subs)])}.values():
            ip, n = [], sub
            while n.parent is not None:
                ip.append([k for k, c in enumerate(n.parent.children) if c is n][0])
                n = n.parent
            jobs.append((case, xml, tree, sub, ip[::-1], f'{line} rooted={show_ip(ip[::-1])}'))
    if not jobs:
        return
    answers = run.driver('C14', [j[5] for j in jobs])
    parser = XPath31Parser()
    path_dot = parser.parse('path(.)')
    st = run.stats
    for (case, xml, tree, sub, pre, line), ans in zip(jobs, answers):
        base = {'xml': xml, 'lib': case['lib'], 'form': case['form'], 'frag': case['frag'], 'ns': case['ns'],
                'parser_ns': case['pns'], 'v31_first': case['v31'], 'doc': case['doc'],
                'parser_options': case.get('popt', 0), 'rooted_context_at': pre}
        f = dict(x.split('=', 1) for x in ans.split(' ') if '=' in x)
        if ans.startswith('bad-') or not {'trigger', 'rooted'} <= set(f):
            run.disagree(Disagreement(base, 'driver:' + ans[:200], what='protocol'))
            continue
        nodes = list(sub.iter())
        idx = {id(n): k for k, n in enumerate(nodes)}
        # the trigger, computed from the input: the context root has an element parent
        trig = isinstance(sub.parent, ElementNode)
        if (f['trigger'] == '1') != trig:
            run.disagree(Disagreement(base, str(trig), f['trigger'], spec=f['trigger'], what='rooted-trigger'))
            continue

        def sel_of(text):
            try:
                got = list(parser.parse(text).select(XPathContext(root=sub)))
            except Exception as e:
                return err_text(e)
            return ','.join('D' if isinstance(x, DocumentNode) else str(idx.get(id(x), '?')) for x in got) if got else '-'
        mrecs = f['rooted'].split('|')
        if len(mrecs) != len(nodes):
            run.disagree(Disagreement(base, str(len(nodes)), str(len(mrecs)), spec=str(len(mrecs)), what='rooted-tree-shape'))
            continue
        tagged = False
        for k, (n, mrec) in enumerate(zip(nodes, mrecs)):
            try:
                p = n.path
                fn = path_dot.evaluate(XPathContext(root=sub, item=n))
                fn = fn if isinstance(fn, str) else repr(fn)
                impl = f'{p};{fn};{sel_of(p)};{sel_of(fn)}'
            except Exception as e:
                impl = err_text(e)
            m = mrec.split(';')
            i = impl.split(';') if impl.count(';') == 3 else [impl, impl, impl, impl]
            # fn:path (after fix-c14-6): full strength - the text, and it selects exactly the node
            fn_impl, fn_model, fn_spec = f'{i[1]};{i[3]}', f'{m[1]};{m[3]}', f'{m[1]};{k}'
            if not (fn_impl == fn_model == fn_spec):
                run.disagree(Disagreement(dict(base, node=k), fn_impl, fn_model, spec=fn_spec, what='rooted-fn-path',
                                          site='evaluate__path in a rooted sub-tree context (root() + steps from the context root)'))
            # node.path: context-independent by construction; in this context it is finding F14l
            ab_impl, ab_model, ab_spec = f'{i[0]};{i[2]}', f'{m[0]};{m[2]}', f'{m[0]};{k}'
            if ab_impl != ab_model:
                # the model of the rooted context (incl. the model of F14l) no longer mirrors the code
                run.disagree(Disagreement(dict(base, node=k), ab_impl, ab_model, spec=ab_model, what='rooted-context-model',
                                          site='XPathContext(root=<element with an element parent>) / select__child_path / node.path'))
            elif ab_impl != ab_spec and not tagged:
                tagged = True
                run.disagree(Disagreement(dict(base, node=k), ab_impl, ab_model, spec=ab_spec, what='rooted-context-path',
                                          tags=['F14l'] if trig else [],
                                          site='ElementNode.path (whole-tree path) evaluated in a rooted sub-tree context'))
            if count:
                st.count('rooted:nodes')
                if fn_impl == fn_spec:
                    st.count('rooted:fn-path-selects-the-node')
                if ab_impl != ab_spec:
                    st.count('F14l:node.path-in-rooted-subtree-context')
                if m[2] not in ('-', str(k)):
                    st.count('rooted:node.path-selects-a-wrong-node')
        if count:
            st.count('rooted:contexts')
            st.count(f"rooted:lib={case['lib']}/whole-tree={'document' if line.startswith('root=doc') else 'element'}")
            st.count(f'rooted:context-depth={len(pre)}')


def compare(run: Run, cases: list, count=True) -> None:
    prepared = []
    for case in cases:
        try:
            line, kinds, parsed = request_line(case)
        except Exception as e:   # generator produced something the XML parser rejects: harness bug
            raise RuntimeError(f'generator produced unparsable input {case.get("libdoc") or ser_doc(case["doc"])!r}: {e}')
        prepared.append((case, line, kinds, parsed))
    answers = run.driver('C14', [p[1] for p in prepared])
    st = run.stats
    for (case, line, kinds, parsed), ans in zip(prepared, answers):
        xml = parsed[0]
        base = {'xml': xml, 'lib': case['lib'], 'form': case['form'], 'frag': case['frag'], 'ns': case['ns'],
                'parser_ns': case['pns'], 'v31_first': case['v31'], 'doc': case['doc'],
                'parser_options': case.get('popt', 0)}
        if case.get('libdoc'):
            base['libdoc'] = case['libdoc']
        if ans.startswith('bad-'):
            run.disagree(Disagreement(base, 'driver:' + ans, what='protocol'))
            continue
        mrecs, srecs, metree, setree, wf, evariants = parse_answer(ans)
        impl = run_impl(case, parsed)
        frag = case['frag']
        if wf != '1':
            run.disagree(Disagreement(base, 'input', 'wf=0', what='model-wf (duplicate attribute name or prefix)'))
            continue
        for pb in impl['problems']:
            run.disagree(Disagreement(base, pb, None, spec='no-problem', what='impl-problem',
                                      site='xpath_nodes / evaluate__path'))
        if impl['problems'] and not impl['kinds']:
            continue
        if impl['kinds'] != kinds:
            run.disagree(Disagreement(base, json.dumps(impl['kinds'], default=str)[:600], None,
                                      spec=json.dumps(kinds, default=str)[:600], what='tree-shape',
                                      site='tree_builders (node sequence of tree.iter() vs. the parsed input)'))
            continue
        if len(mrecs) != len(kinds) or len(srecs) != len(kinds):
            run.disagree(Disagreement(base, f'{len(kinds)} nodes', f'{len(mrecs)} records', what='protocol'))
            continue
        sibs = sibling_map(line)
        is_fragment = bool(frag) and not parsed[3]
        positions_gt1 = 0
        for k, (irec, mrec, srec) in enumerate(zip(impl['recs'], mrecs, srecs)):
            # fields: 0 node.path, 1 fn:path, 2 nodes selected by node.path, 3 nodes selected by fn:path
            pick = lambda r: ';'.join((r[0], r[1], r[3]))
            i_s, m_s, s_s = pick(irec), pick(mrec), pick(srec)
            if count:
                st.count('node:' + kinds[k][0])
                if irec[0].endswith(']') and not irec[0].endswith('[1]') and kinds[k][0] not in ('ns',):
                    positions_gt1 += 1
                    st.count('position>1:' + kinds[k][0])
                if kinds[k][0] == 'pi' and reserved_target(kinds[k][1]):
                    st.count('pi-target-is-parser-keyword')
            if ';'.join(mrec[:4]) != ';'.join(srec[:4]) and not is_fragment:
                run.broken.append(f'model-vs-spec:{line[:120]} node {k}')
            c = dict(base, node=k, node_kind=list(kinds[k]))
            if i_s != s_s or i_s != m_s:
                run.disagree(Disagreement(c, i_s, m_s, spec=s_s, what='node-path', tags=triggers(kinds, sibs, k, case),
                                          site='xpath_nodes.path / get_child_position / fn:path'))
            # the token tree the real 3.x parser builds for the two texts == the recogniser's reading of them
            if (irec[4], irec[5]) != (srec[4], srec[5]) and not (irec[0].startswith('ERR') or irec[1].startswith(('ERR', 'NOT-'))):
                run.disagree(Disagreement(c, f'{irec[4]} | {irec[5]}', None, spec=f'{srec[4]} | {srec[5]}',
                                          what='parser-token-tree', site='XPath30Parser / XPath31Parser .parse(path).tree'))
            elif count:
                st.count('parser-token-trees-compared', 2)
            # the absolute node.path evaluated back
            if irec[2] != srec[2]:
                tags = triggers(kinds, sibs, k, case)
                if is_fragment:
                    tags.append('F14f')   # trigger: evaluated with fragment=True on a tree without document node
                    st.count('F14f:abs-path-in-fragment')
                run.disagree(Disagreement(c, f'{irec[0]} selects {irec[2]}', f'{mrec[0]} selects {mrec[2]}',
                                          spec=f'{srec[0]} selects {srec[2]}', what='node-path-evaluated', tags=tags,
                                          site='xpath_nodes.path evaluated by _xpath1_operators.select__child_path'))
            if irec[2] != mrec[2] and (is_fragment or irec[2] == srec[2]):
                # the model of the evaluation (incl. the model of F14f) no longer mirrors the code
                run.disagree(Disagreement(c, f'{irec[0]} selects {irec[2]}', f'{mrec[0]} selects {mrec[2]}',
                                          what='abs-path-evaluation-model'))
        # pairwise distinct strings
        for col, nm in ((0, 'node.path'), (1, 'fn:path')):
            seen = {}
            for k, r in enumerate(impl['recs']):
                if r[col] in seen and not r[col].startswith('ERR'):
                    run.disagree(Disagreement(dict(base, node=k, other=seen[r[col]]),
                                              f'{nm} {r[col]} twice', None, spec='distinct', what='distinct',
                                              tags=triggers(kinds, sibs, k, case) + triggers(kinds, sibs, seen[r[col]], case),
                                              site='xpath_nodes.path'))
                    break
                seen[r[col]] = k
        # etree_iter_paths
        ie = [';'.join(r) for r in (impl['etree'] or [])]
        me = [';'.join(r) for r in metree]
        se = [';'.join(r) for r in setree]
        if me != se:
            run.broken.append(f'model-vs-spec-etree:{line[:120]}')
        if impl['etree'] is None:
            pass                                  # no root element object to hand to etree_iter_paths
        elif len(ie) != len(se):
            run.disagree(Disagreement(base, '|'.join(ie), '|'.join(me), spec='|'.join(se),
                                      what='etree_iter_paths-nodes', site='etree.etree_iter_paths'))
        else:
            for a, b, c in zip(ie, me, se):
                if a != c or a != b:
                    k = c.split(';')[0]
                    tags = [t for t in (triggers(kinds, sibs, int(k), case) if k.isdigit() else []) if t == 'F14b']
                    run.disagree(Disagreement(dict(base, node=k), a, b, spec=c, what='etree_iter_paths', tags=tags,
                                              site='etree.etree_iter_paths'))
        for key, lead in (('etree_rel', ''), ('etree_abs', '/')):
            if impl.get(key) is None:
                continue
            # expected strings come from the driver (prescribed steps rendered with path='' / path='/')
            col = 1 if lead == '' else 2
            exp = [(r[0], r[col], '' if r[col] == lead else r[0]) for r in evariants]
            got = [tuple(r) for r in impl[key]]
            if got != exp:
                bad = next((i for i, (a, b) in enumerate(zip(got, exp)) if a != b), min(len(got), len(exp)))
                k = exp[bad][0] if bad < len(exp) else '?'
                tags = [t for t in (triggers(kinds, sibs, int(k), case) if k.isdigit() else []) if t == 'F14b']
                run.disagree(Disagreement(dict(base, node=k, path_argument=lead), ';'.join(got[bad]) if bad < len(got) else 'missing',
                                          None, spec=';'.join(exp[bad]) if bad < len(exp) else 'nothing', tags=tags,
                                          what=f'etree_iter_paths(path={lead!r})', site='etree.etree_iter_paths'))
            elif count:
                st.count(f'etree-paths(path={lead!r})', len(got))
        if count and impl.get('forest'):
            st.count('paths-of-three-trees-in-one-evaluation', impl['forest'])
        if impl.get('lazy') is not None:
            if impl['lazy_kinds'] != kinds:
                run.disagree(Disagreement(dict(base, lazy=True), json.dumps(impl['lazy_kinds'], default=str)[:600], None,
                                          spec=json.dumps(kinds, default=str)[:600], what='lazy-tree-shape',
                                          site='LazyElementNode.__iter__ (node sequence vs. the parsed input)'))
            else:
                for k, ((lp, lsel), srec) in enumerate(zip(impl['lazy'], srecs)):
                    if (lp, lsel) != (srec[0], srec[2]):
                        run.disagree(Disagreement(dict(base, node=k, lazy=True), f'{lp} selects {lsel}', None,
                                                  spec=f'{srec[0]} selects {srec[2]}', what='lazy-node-path',
                                                  tags=triggers(kinds, sibs, k, case), site='LazyElementNode / path'))
                if count:
                    st.count('lazy-tree-nodes', len(kinds))
        if count:
            st.case({'xml': xml, 'lib': case['lib'], 'form': case['form'], 'frag': case['frag']},
                    nontrivial=positions_gt1 > 0, sample_every=89)
            st.count(f"form:{case['lib']}/{case['form']}/frag={case['frag']}")
            st.count(f"parser-namespaces-mode:{int(case['pns'])}")
            st.count(f"parser-options:{int(case.get('popt', 0))}")
            st.count('root:' + ('document' if parsed[3] else 'element'))
            st.count(f'nodes={min(len(kinds), 60) // 10 * 10}+')
            st.count('etree-paths', len(ie))
            if any(kd == ('ns', '') for kd in kinds):
                st.count('default-namespace-node')
            if case['doc'] and (case['doc']['pre'] or case['doc']['post']):
                st.count('document-level-comment-or-pi')
    lazy_compare(run, prepared, count)
    lazy_history_compare(run, prepared, count)
    rooted_compare(run, prepared, count)


def orphan_checks(run: Run) -> None:
    """paths of parent-less nodes (`self.parent is None` branches): F14c, F14d"""
    from elementpath import xpath_nodes as xn
    import xml.etree.ElementTree as ET
    items = [
        ('P,foo', lambda: xn.ProcessingInstructionNode('foo', 'bar'), []),
        ('P,pi', lambda: xn.ProcessingInstructionNode(ET.ProcessingInstruction('pi', 'x')), []),
        ('T', lambda: xn.TextNode('x'), []),
        ('C', lambda: xn.CommentNode(ET.Comment('x')), []),
        ('A,~,a', lambda: xn.TextAttributeNode('a', '1'), []),
        ('A,urn:p,a', lambda: xn.TextAttributeNode('{urn:p}a', '1'), []),
        ('N,p', lambda: xn.NamespaceNode('p', 'urn:p'), []),
        ('N,~', lambda: xn.NamespaceNode('', 'urn:d'), []),
        ('N,~', lambda: xn.NamespaceNode(None, 'urn:d'), []),
        ('E,~,a,0,0,0', lambda: xn.EtreeElementNode(ET.Element('a')), []),
        ('E,urn:p,a,0,0,0', lambda: xn.EtreeElementNode(ET.Element('{urn:p}a')), []),
    ]
    answers = run.driver('C14', ['orphan=' + t for t, _, _ in items])
    for (t, mk, tags), ans in zip(items, answers):
        try:
            impl = mk().path
        except Exception as e:
            impl = err_text(e)
        f = dict(p.partition('=')[::2] for p in ans.split(' '))
        run.stats.count('orphan-node')
        run.stats.case({'orphan': t}, nontrivial=False)
        if impl != f.get('spec') or impl != f.get('model'):
            run.disagree(Disagreement({'orphan': t}, impl, f.get('model'), spec=f.get('spec'), what='orphan-path',
                                      tags=tags, site='xpath_nodes.py path (parent is None)'))


SCHEMA_XSD = """<xs:schema xmlns:xs="http://www.w3.org/2001/XMLSchema" targetNamespace="urn:t" xmlns:t="urn:t" elementFormDefault="qualified">
<xs:element name="root"><xs:complexType><xs:sequence>
 <xs:element name="a" type="xs:int" maxOccurs="unbounded"/>
 <xs:element name="b"><xs:complexType><xs:sequence><xs:element name="a" type="xs:string"/><xs:element ref="t:other"/></xs:sequence><xs:attribute name="k" type="xs:int"/></xs:complexType></xs:element>
 <xs:element name="a" type="xs:int"/>
 <xs:element ref="t:other"/>
 <xs:element ref="t:rec"/>
</xs:sequence><xs:attribute name="id" type="xs:ID"/></xs:complexType></xs:element>
<xs:element name="other" type="xs:string"/>
<xs:element name="rec"><xs:complexType><xs:sequence><xs:element ref="t:rec" minOccurs="0"/><xs:element name="leaf" type="xs:int"/></xs:sequence></xs:complexType></xs:element>
</xs:schema>"""


def schema_checks(run: Run) -> None:
    """Schema component trees are outside the property's quantifier (docs/C14.md); since fix-c14-5 the element
    nodes iterated below a schema node form a tree whose `path` is '/' + steps, so it is run through the same
    model: text of the path, what it selects, distinctness.  (The schema node itself, like a parent-less
    element, is not selected by '/': not compared.)"""
    try:
        import xmlschema
    except Exception:
        run.notes.append('xmlschema not importable: schema component paths not checked')
        return
    from elementpath import XPathContext, get_node_tree
    from elementpath.xpath30 import XPath30Parser
    case = {'schema': 'SCHEMA_XSD (harness/c14.py)'}
    try:
        tree = get_node_tree(xmlschema.XMLSchema(SCHEMA_XSD))
        nodes = list(tree.iter())
        index = {id(n): i for i, n in enumerate(nodes)}

        def toks(n, out):
            ns, loc = clark(n.name or '')
            kids = [c for c in n.children]
            out.extend(['E', tk(ns), tk(loc), '0', '0', str(len(kids))])
            for c in kids:
                toks(c, out)
        t = ['D', str(len(tree.children))]
        for c in tree.children:
            toks(c, t)
        ans = run.driver('C14', ['root=doc tree=' + ','.join(t)])[0]
        mrecs, srecs, *_ = parse_answer(ans)
        if len(srecs) != len(nodes):
            run.disagree(Disagreement(case, f'{len(nodes)} nodes iterated', None, spec=f'{len(srecs)} nodes in the children lists',
                                      what='schema-tree-shape'))
            return
        for k, (n, srec) in enumerate(zip(nodes, srecs)):
            run.stats.count('schema-component-node')
            try:
                p = n.path
                sel = ','.join(str(index.get(id(x), 'X')) for x in
                               XPath30Parser(namespaces={'t': 'urn:t'}).parse(p).select(XPathContext(tree))) or '-'
            except Exception as e:
                p, sel = err_text(e), ''
            want_sel = srec[2] if k else sel
            if (p, sel) != (srec[0], want_sel):
                run.disagree(Disagreement(dict(case, node=k, name=n.name), f'{p} selects {sel}', None,
                                          spec=f'{srec[0]} selects {want_sel}', what='schema-component-path',
                                          site='xpath_nodes.SchemaElementNode.path'))
        run.stats.case(case, nontrivial=True)
    except DriverError:
        raise
    except Exception as e:
        run.disagree(Disagreement(case, 'schema component tree: ' + err_text(e), None, spec='no-problem', what='impl-problem'))


def E(loc, kids=(), pfx='', decls=None, attrs=()):
    return ['e', pfx, loc, dict(decls or {}), [list(a) for a in attrs], list(kids)]


def P(t, d='d'):
    return ['p', t, d]


def mk(doc_root, lib='lxml', form='doc', frag=None, ns=None, pre=(), post=(), pns=False, v31=False, popt=0):
    return {'doc': {'pre': list(pre), 'root': doc_root, 'post': list(post)}, 'lib': lib, 'form': form,
            'frag': frag, 'ns': ns, 'pns': pns, 'v31': v31, 'popt': popt}


def corpus():
    out = []
    f14a = E('r', [P('x'), P('y'), P('x')])
    f14b = E('r', [P('pi'), P('sin'), P('pi'), P('and'), P('contains'), P('head')])
    f14e = E('r', [P('a'), E('a'), P('b'), P('a'), E('b')])
    design = E('r', [P('pi', 'x'), ['t', 't1'], E('a'), P('sin', 'y'), ['c', 'c'], E('a', pfx='p'), ['t', 't2'],
                     P('pi', 'z'), E('a')], decls={'p': 'urn:p', '': 'urn:d'}, attrs=[('', 'a'), ('p', 'b')])
    for t in (f14a, f14b, f14e, design):
        for lib, form, frag in FORMS:
            ns = {'p': 'urn:p', '': 'urn:d'} if lib == 'et' else None
            out.append(mk(t, lib, form, frag, ns))
    out.append(mk(E('r', [E('a'), E('a', pfx='p'), E('a', pfx='p2'), E('a', decls={'': 'urn:p'}), E('a')],
                    decls={'p': 'urn:p', 'p2': 'urn:p'}), 'lxml', 'doc', None, None,
                  pre=[['c', 'c'], P('top', 'a')], post=[P('top', 'b'), ['c', '']], pns=True))
    out.append(mk(E('r', [['t', 'a'], ['c', ''], ['t', 'b'], ['c', ''], ['t', 'c']]), 'et', 'elem', True, {}))
    # F14f witness: absolute node.path inside a fragment selects another node
    for lib, ns in (('et', {}), ('lxml', None)):
        out.append(mk(E('r', [E('r', [E('a')]), E('a')]), lib, 'elem', True, ns))
    # prefix re-bound at depth, same URI under two prefixes, default namespace switched on and off; hostile parser namespaces
    reb = E('r', [E('a', pfx='p'), E('x', [E('a', pfx='p'), E('a', pfx='q'), E('a', [E('a', decls={'': ''}), E('a')],
                                                                         decls={'': 'urn:q'})],
                                  decls={'p': 'urn:q'}), E('a', pfx='q')],
            decls={'p': 'urn:p', 'q': 'urn:q', '': 'urn:p'}, attrs=[('p', 'k'), ('q', 'k'), ('', 'k')])
    for pns in (0, 1, 2, 3):
        out.append(mk(reb, 'lxml', 'elem', None, None, pns=1, popt=pns))
        out.append(mk(design, 'et', 'doc', None, {'p': 'urn:p', '': 'urn:d'}, pns=pns, popt=3 - pns))
        out.append(mk(reb, 'lxml', 'doc', None, None, pns=pns))
        out.append(mk(reb, 'et', 'elem', None, {'p': 'urn:p', '': 'urn:q'}, pns=pns, v31=True))
    return out


def lib_corpus():
    out = []
    frs = ['top<a/><a>u</a><?p d?><!--c-->', '<a/><b/>', 'just text', '', '<a><b/>t<b/></a>', '<a/>tail',
           '<?x d?><r><?x e?></r><?x f?>', 't1<p:a xmlns:p="urn:p"><p:a/></p:a>t2<p:a xmlns:p="urn:p"/><a xmlns="urn:p"/>',
           '<!--c--><r/><!--d-->']
    for lib in ('et', 'lxml'):
        for a in frs:
            out.append({'libdoc': {'kind': 'parse-xml-fragment', 'a': a, 'b': ''}, 'doc': None, 'lib': lib,
                        'form': 'lib:parse-xml-fragment', 'frag': None, 'ns': None, 'pns': 0, 'v31': True})
        out.append({'libdoc': {'kind': 'parse-xml', 'a': '<a><b/>t<b/></a>', 'b': ''}, 'doc': None, 'lib': lib,
                    'form': 'lib:parse-xml', 'frag': None, 'ns': None, 'pns': 1, 'v31': True})
        out.append({'libdoc': {'kind': 'json-to-xml', 'a': '{"a":[1,2,{"b":null}],"c":"t","a2":true}', 'b': ''}, 'doc': None,
                    'lib': lib, 'form': 'lib:json-to-xml', 'frag': None, 'ns': None, 'pns': 2, 'v31': True})
        out.append({'libdoc': {'kind': 'analyze-string', 'a': 'ab12cd3', 'b': '[0-9]+'}, 'doc': None, 'lib': lib,
                    'form': 'lib:analyze-string', 'frag': None, 'ns': None, 'pns': 0, 'v31': True})
    return out


def correspond(run: Run) -> None:
    rng = run.rng
    n = run.scale(1000, 16000)
    cases = corpus() + lib_corpus() + [gen_case(rng, run.quick) for _ in range(n)] \
        + [gen_libcase(rng) for _ in range(n // 5)]
    run.stats.rule = (
        'random XML documents (<= ~25 content nodes + namespace/attribute nodes, depth <= 3; element names from 4 locals x '
        '{no namespace, urn:p via two prefixes, urn:q, default namespace incl. un-declaration}; PI targets from 23 NCNames incl. '
        'element names, operator keywords and function names, mostly 2 targets per parent so that they repeat; text / comment / PI '
        'interleaved; lxml: document-level comments and PIs) x 9 root forms (ElementTree | lxml, document | element, fragment '
        'None/True/False) x parser namespaces on/off x 3.0/3.1 parser order. Every node of every tree is evaluated. '
        'distinct_nontrivial = distinct (xml, lib, form, fragment) cases in which at least one generated step has a position > 1')
    orphan_checks(run)
    schema_checks(run)
    for i in range(0, len(cases), 4000):      # few driver calls: `lake env` may wait for other builds
        compare(run, cases[i:i + 4000])


# --------------------------------------------------------------------------------------
# search: exhaustive small trees
# --------------------------------------------------------------------------------------
def small_trees(max_nodes: int):
    """all element trees with at most `max_nodes` nodes below/including the root `r`; children drawn from
    elements a, b (recursive), PIs x and a (a = also an element name), text, comment; no two adjacent text nodes"""
    leaves = [['t', 't'], ['c', 'c'], ['p', 'x', 'd'], ['p', 'a', 'd']]

    def forests(n):   # all child lists with exactly n nodes in total
        if n == 0:
            yield []
            return
        for first_size in range(1, n + 1):
            for first in trees(first_size):
                for rest in forests(n - first_size):
                    if first[0] == 't' and rest and rest[0][0] == 't':
                        continue
                    yield [first] + rest

    def trees(n):     # all nodes with exactly n nodes in total
        if n == 1:
            yield from leaves
        for name in ('a', 'b'):
            for kids in forests(n - 1):
                yield E(name, kids)

    for total in range(1, max_nodes + 1):
        for kids in forests(total - 1):
            yield E('r', kids)


def search(run: Run):
    sub = Run(PROP, run.tier, run.seed)
    maxn = 5 if run.quick else 6
    cases = []
    for i, t in enumerate(small_trees(maxn)):
        lib, form, frag = (('lxml', 'doc', None), ('et', 'elem', None), ('lxml', 'elem', True))[i % 3]
        cases.append(mk(t, lib, form, frag, {} if lib == 'et' else None))
    for i in range(0, len(cases), 1000):
        compare(sub, cases[i:i + 1000], count=False)
        if len(sub.disagreements) > 50:
            break
    run.notes.append(f'search: {len(cases)} exhaustive small trees (<= {maxn} nodes), '
                     f'{len(sub.disagreements)} disagreements')
    return sub.disagreements


# --------------------------------------------------------------------------------------
# shrinking: delete children / attributes / declarations / document-level nodes while it still fails
# --------------------------------------------------------------------------------------
def reductions(doc):
    import copy
    for key in ('pre', 'post'):
        for i in range(len(doc[key])):
            d = copy.deepcopy(doc)
            del d[key][i]
            yield d

    def paths(n, p):
        if n[0] == 'e':
            yield p
            for i, c in enumerate(n[5]):
                yield from paths(c, p + [i])

    for p in list(paths(doc['root'], [])):
        def at(d):
            n = d['root']
            for i in p:
                n = n[5][i]
            return n
        n0 = at(doc)
        for i in range(len(n0[5])):
            d = copy.deepcopy(doc)
            del at(d)[5][i]
            yield d
        for i in range(len(n0[4])):
            d = copy.deepcopy(doc)
            del at(d)[4][i]
            yield d
        # hoist a child element in place of its parent's whole content is too invasive; keep it simple


def case_of(d: Disagreement):
    c = d.case
    if not isinstance(c, dict) or c.get('doc') is None:
        return None
    return {'doc': c['doc'], 'lib': c['lib'], 'form': c['form'], 'frag': c['frag'], 'ns': c['ns'],
            'pns': c.get('parser_ns', False), 'v31': c.get('v31_first', False), 'popt': c.get('parser_options', 0)}


def shrink(d: Disagreement) -> Disagreement:
    case = case_of(d)
    if case is None:
        return d
    best = d
    for _ in range(40):
        cands = []
        for doc in reductions(case['doc']):
            c = dict(case, doc=doc)
            try:
                parse_input(c)
            except Exception:
                continue
            cands.append(c)
        if not cands:
            break
        sub = Run(PROP, 'quick', 0)
        compare(sub, cands, count=False)
        hit = None
        for x in sub.disagreements:
            if x.kind == d.kind and x.what == d.what and sorted(x.tags) == sorted(d.tags):
                hit = x
                break
        if hit is None:
            break
        best = hit
        case = case_of(hit)
    return best


# --------------------------------------------------------------------------------------
# translator: the string literals of the anchored functions -> lean/EPV/Gen/C14Literals.lean
# (EPV.C14.literals_as_modelled proves by `decide` that they are the literals of the Lean renderer)
# --------------------------------------------------------------------------------------
LITERAL_SITES = [
    ('elementpath/xpath_nodes.py', 'NamespaceNode', 'path'), ('elementpath/xpath_nodes.py', 'AttributeNode', 'path'),
    ('elementpath/xpath_nodes.py', 'AttributeNode', 'uri_qualified_name'), ('elementpath/xpath_nodes.py', 'TextNode', 'path'),
    ('elementpath/xpath_nodes.py', 'CommentNode', 'path'), ('elementpath/xpath_nodes.py', 'ProcessingInstructionNode', 'path'),
    ('elementpath/xpath_nodes.py', 'ElementNode', 'path'), ('elementpath/xpath_nodes.py', 'ElementNode', 'uri_qualified_name'),
    ('elementpath/xpath_nodes.py', 'DocumentNode', 'path'), ('elementpath/xpath_nodes.py', 'XPathNode', 'get_child_position'),
    ('elementpath/xpath30/_xpath30_functions.py', None, 'evaluate__path'), ('elementpath/etree.py', None, 'etree_iter_paths'),
]


def translate(run: Run = None) -> dict:
    import ast
    from harness.common import REPO, LEAN
    out = []
    cache = {}
    for rel, cls, fn in LITERAL_SITES:
        if rel not in cache:
            cache[rel] = ast.parse((REPO / rel).read_text())
        mod = cache[rel]
        scope = mod.body
        if cls is not None:
            scope = next((c.body for c in mod.body if isinstance(c, ast.ClassDef) and c.name == cls), [])
        f = next((x for x in scope if isinstance(x, ast.FunctionDef) and x.name == fn), None)
        lits = set()
        if f is not None:
            doc = ast.get_docstring(f, clean=False)
            for stmt in f.body:                       # the body only: decorators and annotations are not literals of the code
                for n in ast.walk(stmt):
                    if isinstance(n, ast.Constant) and isinstance(n.value, str) and n.value != doc:
                        lits.add(n.value)
        else:
            lits.add('<function not found>')
        out.append((f'{cls + "." if cls else ""}{fn}', sorted(lits)))
    try:
        from elementpath import xpath_nodes as xn
        from elementpath.namespaces import XPATH_FUNCTIONS_NAMESPACE
        out.append(('_EMPTY_NAME_PATH', [xn._EMPTY_NAME_PATH]))
        out.append(('XPATH_FUNCTIONS_NAMESPACE', [XPATH_FUNCTIONS_NAMESPACE]))
    except Exception as e:
        out.append(('_EMPTY_NAME_PATH', ['<' + type(e).__name__ + '>']))

    def chars(t):
        def one(c):
            if c == "'":
                return "'\\''"
            if c == '\\':
                return "'\\\\'"
            if c == '\n':
                return "'\\n'"
            return f"'{c}'"
        return '[' + ', '.join(one(c) for c in t) + ']'
    lines = ['/- GENERATED by harness/c14.py::translate from the live /repo sources -- do not edit -/',
             'namespace EPV.Gen.C14', '',
             '/-- string literals occurring in the body of each anchored function (sorted, without duplicates) -/',
             'def implLiterals : List (String × List (List Char)) := [']
    lines.append(',\n'.join(f'  ("{k}", [{", ".join(chars(v) for v in vs)}])' for k, vs in out))
    lines += [']', '', 'end EPV.Gen.C14', '']
    gen = LEAN / 'EPV' / 'Gen' / 'C14Literals.lean'
    gen.parent.mkdir(exist_ok=True)
    text = '\n'.join(lines)
    if not gen.exists() or gen.read_text() != text:
        gen.write_text(text)
    return {'literal_sites': len(out), 'literals': sum(len(v) for _, v in out)}


def body(run: Run) -> int:
    run.trusted_base += [
        'rendering of steps to strings and re-parsing by the 3.0/3.1 parser are tied by correspondence only',
        'harness/c14.py::model_tokens (ElementTree / lxml object -> model tree) and the XML parsers of ElementTree / lxml']
    run.assumptions += [
        'attribute names and namespace prefixes of one element are pairwise distinct (hypothesis `wf` of the theorems; '
        'checked on every generated tree by the driver)',
        'node.path of a tree evaluated with fragment=True starts with "/" and selects nothing there (no document node: '
        'XPath 3.1 XPDY0050 territory); for fragments the property is checked through fn:path (root()/...) only',
        'element / PI names are compared as (namespace, local) pairs = Clark strings for NCNames']
    run.stats.extra['translated'] = translate(run)
    run.trusted_base.append('translator harness/c14.py::translate (ast of the anchored functions -> string literal table)')
    run.prove(['EPV.Props.C14', 'EPV.Props.C14Tables', 'EPV.Props.C14Lazy', 'EPV.Props.C14LazyHist',
               'EPV.Props.C14Rooted'],
              ['EPV.Spec.NodePathSpec', 'EPV.Model.LazyPathIO', 'EPV.Model.LazyHistIO', 'EPV.Model.RootedPathIO'])
    replay = getattr(run, 'replay', None)
    try:
        if replay:
            data = json.loads(Path(replay).read_text())
            fi = data.get('failing_input') or {}
            c = fi.get('case') or {}
            if c.get('libdoc'):
                compare(run, [{'libdoc': c['libdoc'], 'doc': None, 'lib': c['lib'], 'form': c['form'], 'frag': None,
                               'ns': None, 'pns': c.get('parser_ns', 0), 'v31': True}])
            elif c.get('doc'):
                compare(run, [{'doc': c['doc'], 'lib': c['lib'], 'form': c['form'], 'frag': c['frag'], 'ns': c['ns'],
                               'pns': c.get('parser_ns', False), 'v31': c.get('v31_first', False)}])
            else:
                orphan_checks(run)
        else:
            correspond(run)
    except DriverError as e:
        run.broken.append('driver:C14 ' + str(e)[:300])
    return run.finish('proof', shrink=shrink, search=search)


if __name__ == '__main__':
    cli(PROP, body, translate=translate)
